"""C17 - checkout never writes outside the work tree or into .git; unsafe entries are refused.

spec        specs/WorkTreeConfNames.tla (path elements: validators transcribed + reference Unsafe)
            specs/WorkTreeConf.tla      (symlink-aware file system, the entry points as actions)
spec->code  every transition of the TLC state graphs is executed on a real scratch directory through
            the real entry points; outcome, work tree, index are compared with the successor state;
            Confined / UnsafeRefused are evaluated on recursive snapshots of the real directory
code->spec  longer random histories over larger trees are executed on the real code, recorded as
            ndjson and judged by TLC (WorkTreeConfTrace.tla re-evaluates the operators on them)
"""
from __future__ import annotations

import json
import multiprocessing as mp
import os
import shutil
import subprocess
import time

from .. import c17_lib as lib
from .. import tlc
from ..core import MachineryError

WORKERS = max(2, min(14, (os.cpu_count() or 4) - 2))
DEFAULT_PROT = {"ntfs": True, "hfs": False}


# --------------------------------------------------------------------------- pool
def _init_worker(home):
    os.environ["HOME"] = home
    os.environ["XDG_CONFIG_HOME"] = os.path.join(home, "xdg")
    os.environ["GIT_CONFIG_NOSYSTEM"] = "1"
    for k in [k for k in os.environ if k.startswith("GIT_") and k != "GIT_CONFIG_NOSYSTEM"]:
        del os.environ[k]
    import warnings
    warnings.simplefilter("ignore")
    from .. import c17_real  # noqa: F401  (imports dulwich, Rust extensions blocked)


class Pool:
    def __init__(self, ctx):
        self.ctx = ctx
        home = self.home = os.path.join(ctx.scratch, "home")
        os.makedirs(home, exist_ok=True)
        self.work = os.path.join(ctx.scratch, "cases")
        os.makedirs(self.work, exist_ok=True)
        self.pool = mp.get_context("fork").Pool(WORKERS, initializer=_init_worker, initargs=(home,))
        self.nid = 0

    def run(self, jobs, states, unsafe, known_comps):
        out = []
        for j in jobs:
            self.nid += 1
            need = {sid for s in j["prefix"] + j["finals"] for sid in (s.get("alts") or [])}
            j = dict(j, id=self.nid, scratch=self.work, unsafe=unsafe, known_comps=known_comps,
                     states={sid: states[sid] for sid in need})
            out.append(j)
        return out, self.pool.imap_unordered(lib.run_job, out, chunksize=1)     # (an iterator with next(timeout))

    def restart(self):
        self.pool.terminate()
        self.pool.join()
        shutil.rmtree(self.work, ignore_errors=True)
        os.makedirs(self.work, exist_ok=True)
        self.pool = mp.get_context("fork").Pool(WORKERS, initializer=_init_worker, initargs=(self.home,))

    def close(self):
        self.pool.terminate()
        self.pool.join()


# --------------------------------------------------------------------------- element level
def names_level(ctx, pool, res, dump):
    """TLC enumerates (element, setting); the transcription is compared with the real validators,
    the reference predicate with C git (third opinion on the spec), the tables with the real bytes."""
    ctx.add_tlc("WorkTreeConfNamesMC (elements x protectNTFS x protectHFS, UnsafeRefused on the transcription)", res)
    sts = list(tlc.load_state_dump(dump))
    rows = [(str(s["comp"]), bool(s["cpr"]["ntfs"]), bool(s["cpr"]["hfs"]), bool(s["acc"]), bool(s["uns"])) for s in sts]
    if not rows:
        raise MachineryError("no element states dumped")
    comps = sorted({r[0] for r in rows})
    lib.check_tables(list({str(s["comp"]): (str(s["comp"]), [str(c) for c in s["chars"]], int(s["rank"])) for s in sts}.values()))
    real = pool.pool.apply(_real_validators, (rows,))
    gitv = _git_verdicts(ctx, rows)
    unsafe = {}
    for (c, nt, hf, acc, uns), racc in zip(rows, real):
        unsafe[(c, nt, hf)] = uns
        ctx.count()
        ctx.validated()
        g = gitv.get((c, nt, hf))
        if g is not None and g != uns:
            raise MachineryError(f"specification bug: Unsafe({c!r}, ntfs={nt}, hfs={hf}) = {uns} but C git "
                                 f"{'refuses' if g else 'accepts'} the path")
        if racc and uns:
            ctx.violation(f"dulwich/index.py:validate_path|UnsafeRefused|element {c!r} accepted ntfs={int(nt)} hfs={int(hf)}",
                          f"validate_path accepts the unsafe element {c!r} with protectNTFS={nt} protectHFS={hf}",
                          {"kind": "element", "comp": c, "prot": {"ntfs": nt, "hfs": hf}})
        elif racc != acc:
            ctx.drift_event(f"validator transcription: {c!r} ntfs={nt} hfs={hf}: model accepts={acc} real accepts={racc}")
        if uns:
            ctx.nontrivial(("element", c, nt, hf))
    ctx.cov["elements"] = {"elements": len(comps), "settings": 4, "unsafe_cases": sum(1 for r in rows if r[4]),
                           "git_compared": len(gitv)}
    return unsafe, comps


def _real_validators(rows):
    from dulwich.config import ConfigDict
    from dulwich.index import get_path_element_validator, validate_path

    from ..c17_lib import comp_bytes
    out = []
    for (c, nt, hf, _a, _u) in rows:
        cfg = ConfigDict()
        cfg.set((b"core",), b"protectNTFS", b"true" if nt else b"false")
        cfg.set((b"core",), b"protectHFS", b"true" if hf else b"false")
        out.append(bool(validate_path(comp_bytes(c), get_path_element_validator(cfg))))
    return out


def _git_verdicts(ctx, rows):
    """C git's verify_path through `update-index --cacheinfo` (True = refused)."""
    if not shutil.which("git"):
        return {}
    comp_bytes = lib.comp_bytes
    d = ctx.tmpdir("git")
    env = dict(os.environ, HOME=d, GIT_CONFIG_NOSYSTEM="1")
    subprocess.run(["git", "init", "-q", d], check=True, env=env, stdout=subprocess.DEVNULL, stderr=subprocess.DEVNULL)
    sha = subprocess.run(["git", "-C", d, "hash-object", "-w", "--stdin"], input=b"A\n", env=env,
                         capture_output=True, check=True).stdout.strip().decode()
    out = {}

    def one(r):
        c, nt, hf = r[0], r[1], r[2]
        idx = os.path.join(d, f"idx-{abs(hash((c, nt, hf)))}")
        p = subprocess.run(["git", "-C", d, "-c", f"core.protectNTFS={str(nt).lower()}", "-c", f"core.protectHFS={str(hf).lower()}",
                            "update-index", "--add", "--cacheinfo", b"100644," + sha.encode() + b"," + comp_bytes(c)],
                           env=dict(env, GIT_INDEX_FILE=idx), capture_output=True)
        return (c, nt, hf), p.returncode != 0
    from concurrent.futures import ThreadPoolExecutor
    with ThreadPoolExecutor(8) as ex:
        for k, v in ex.map(one, rows):
            out[k] = v
    return out


# --------------------------------------------------------------------------- which variant does the code implement
PROBE_DELETE = [("RH", [{"n": ["d"], "k": {"t": "d", "c": "", "m": "", "to": [], "ch": [
                    {"n": ["x"], "k": {"t": "f", "c": "A", "m": "644", "to": [], "ch": []}}]}}]),
                ("RH", [{"n": ["git~1"], "k": {"t": "f", "c": "A", "m": "644", "to": [], "ch": []}}]),
                ("RH", [{"n": ["d"], "k": {"t": "l", "c": "", "m": "", "to": ["a"], "ch": []}},
                        {"n": ["a"], "k": {"t": "d", "c": "", "m": "", "to": [], "ch": [
                            {"n": ["x"], "k": {"t": "f", "c": "A", "m": "644", "to": [], "ch": []}}]}}])]
PROBE_PATCH = [("RH", [{"n": ["d"], "k": {"t": "l", "c": "", "m": "", "to": ["a"], "ch": []}},
                       {"n": ["a"], "k": {"t": "f", "c": "A", "m": "644", "to": [], "ch": []}}]),
               ("AP", [{"n": ["d"], "k": {"t": "f", "c": "B", "m": "644", "to": [], "ch": []}}])]


def _probe(job):
    """Harmless probes (everything stays inside the work tree) that tell which variant of the two
    modelled behaviours the code under test implements, so that conformance is exact either way."""
    from ..c17_real import Case
    out = {}
    for name, seq in (("delete", PROBE_DELETE), ("patch", PROBE_PATCH)):
        root = os.path.join(job["scratch"], f"probe-{name}")
        shutil.rmtree(root, ignore_errors=True)
        case = Case(root, DEFAULT_PROT)
        try:
            for op, tree in seq:
                case.run(op, tree)
            fs = case.project()
            if name == "delete":
                # the tracked d/x is deleted while d is (again) a link to the directory a
                out["FixDelete"] = ("p", "repo", "a", "x") in fs
            else:
                out["FixPatch"] = fs.get(("p", "repo", "d"), {}).get("t") == "f" and fs.get(("p", "repo", "a"), {}).get("c") == "A"
        finally:
            case.close()
            shutil.rmtree(root, ignore_errors=True)
    return out


# --------------------------------------------------------------------------- graph replay
class TlcJobs:
    """TLC runs started ahead of time on a few threads (the JVMs run while the real code is replayed)."""

    def __init__(self, ctx, parallel):
        from concurrent.futures import ThreadPoolExecutor
        self.ctx = ctx
        self.ex = ThreadPoolExecutor(parallel)
        self.fut = {}

    def submit(self, key, *a, **kw):
        self.fut[key] = self.ex.submit(tlc.run, *a, **kw)

    def get(self, key):
        return self.fut.pop(key).result()

    def close(self):
        self.ex.shutdown(wait=False, cancel_futures=True)


def graph_submit(ctx, jobs, name, consts, flags):
    d = ctx.tmpdir("g-" + name)
    dot = os.path.join(d, "g.dot")
    fixed = flags["FixDelete"] and flags["FixPatch"]
    cfg = os.path.join(d, "gen.cfg")
    constants = dict(consts, FixDelete="TRUE" if flags["FixDelete"] else "FALSE", FixPatch="TRUE" if flags["FixPatch"] else "FALSE",
                     CacheTrunc="TRUE")
    tlc.write_cfg(cfg, spec="Spec", constants=constants,
                  invariants=["TypeOK"] + (["Confined", "UnsafeRefused"] if fixed else []), constraint=["Modelled"])
    jobs.submit(("graph", name), "WorkTreeConf.tla", cfg, workers=ctx.pick(2, 4), dump_dot=dot, timeout=1500)
    if not fixed:
        # the model-checking claim is about the repaired design
        cfg2 = os.path.join(d, "mc.cfg")
        tlc.write_cfg(cfg2, spec="Spec", constants=dict(consts, FixDelete="TRUE", FixPatch="TRUE", CacheTrunc="TRUE"),
                      invariants=["TypeOK", "Confined", "UnsafeRefused"], constraint=["Modelled"])
        jobs.submit(("mc", name), "WorkTreeConf.tla", cfg2, workers=ctx.pick(2, 4), timeout=1500)
    return dot, fixed


def graph_replay(ctx, pool, jobs, name, dot, fixed, unsafe, comps, budget_s):
    res = jobs.get(("graph", name))
    ctx.add_tlc(f"WorkTreeConf[{name}] graph ({'repaired' if fixed else 'as implemented'} variant)", res)
    t0 = time.time()
    g = tlc.load_dot(dot)
    states = {nid: lib.state_norm(st) for nid, st in g.nodes.items()}
    rjobs, stats = lib.graph_jobs(g, lambda st: {"ntfs": bool(st["prot"]["ntfs"]), "hfs": bool(st["prot"]["hfs"])})
    ctx.rng.shuffle(rjobs)
    # behaviours that start where a symbolic link is in the work tree first: a time-boxed run covers them
    rjobs.sort(key=lambda j: not j.get("risky"))
    ctx.log(f"{name}: {stats['states']} states, {stats['transitions']} transitions, {len(rjobs)} jobs "
            f"(graph loaded in {time.time() - t0:.1f}s)")
    # behaviours that start where a symbolic link is in the work tree are never cut short (every escape
    # found so far starts there); the rest is time-boxed
    risky = [j for j in rjobs if j.get("risky")]
    other = [j for j in rjobs if not j.get("risky")]
    done = None
    for part, jobs_part, budget in (("risky", risky, max(budget_s, ctx.pick(150, 600))), ("other", other, budget_s)):
        if not jobs_part:
            continue
        sent, it = pool.run(jobs_part, states, unsafe, comps)
        d = collect(ctx, pool, it, len(sent), budget, f"{name}/{part}" if risky and other else name)
        if done is None:
            done = d
        else:
            for k, v in d.items():
                done[k] = (done.get(k, 0) + v) if isinstance(v, (int, float)) and not isinstance(v, bool) else (done.get(k) or v)
    stats.update(done or {}, name=name, jobs=len(rjobs), risky_jobs=len(risky))
    ctx.cov.setdefault("graph_replay", []).append(stats)
    if not fixed:
        r2 = jobs.get(("mc", name))
        ctx.add_tlc(f"WorkTreeConf[{name}] repaired variant: Confined, UnsafeRefused", r2)
    return stats


def collect(ctx, pool, it, total, budget_s, name, traces=None):
    t0 = time.time()
    agg = {"executed_ops": 0, "matched_steps": 0, "jobs_done": 0, "behaviours_executed": 0, "violating": 0,
           "drifting": 0, "unreached": 0}
    while agg["jobs_done"] < total:
        try:
            r = it.next(timeout=180)
        except StopIteration:
            break
        except mp.TimeoutError:
            raise MachineryError(f"{name}: no result from the workers for 180 s (hang in an operation?)")
        if "crash" in r:
            raise MachineryError(f"{name}: the harness failed while observing {r['history']}: {r['crash']}")
        agg["jobs_done"] += 1
        agg["executed_ops"] += r["executed"]
        agg["matched_steps"] += r["matched"]
        agg["behaviours_executed"] += r["behaviours"]
        agg["unreached"] += r["unreached"]
        ctx.count(r["behaviours"])
        ctx.validated(r["matched"])
        for v in r["violations"]:
            agg["violating"] += 1
            ctx.violation(v["sig"], v["what"], {"kind": "history", "prot": v["hist"]["prot"], "steps": v["hist"]["steps"],
                                                "failing_step": v["step"], "observed": v["observed"]})
        for dmsg in r["drift"]:
            agg["drifting"] += 1
            ctx.drift_event(f"{name}: {dmsg}")
        if traces is not None:
            traces += r["obs"]
        for k in range(r["nontrivial"]):
            ctx.nontrivial((name, r["id"], k))
        if r["sample"] is not None and (agg["jobs_done"] <= 2 or r["violations"]):
            ctx.sample(dict(r["sample"], kind=name))
        if time.time() - t0 > budget_s and agg["jobs_done"] < total:
            ctx.log(f"{name}: budget of {budget_s:.0f}s reached after {agg['jobs_done']}/{total} jobs")
            agg["truncated"] = True
            pool.restart()
            break
    agg["wall_s"] = round(time.time() - t0, 1)
    return agg


# --------------------------------------------------------------------------- code -> spec: random histories judged by TLC
def trace_validation(ctx, pool, flags, unsafe, comps, count, budget_s):
    rng = ctx.rng
    jobs = [lib.gen_history(rng, rng.choice([3, 4, 4, 5, 6])) for _ in range(count)]
    sent, it = pool.run(jobs, {}, unsafe, comps)
    obs = []
    agg = collect(ctx, pool, it, len(sent), budget_s, "random-histories", traces=obs)
    # group the observations of one history: they were appended in order per job
    hists, cur = [], []
    for o in obs:
        if o["step"] == 0 and cur:
            hists.append(cur)
            cur = []
        cur.append(o)
    if cur:
        hists.append(cur)
    d = ctx.tmpdir("tr")
    path = os.path.join(d, "traces.ndjson")
    with open(path, "w") as f:
        for tid, h in enumerate(hists, 1):
            f.write(json.dumps(lib.trace_line(tid, h[0]["hist"]["prot"], h)) + "\n")
    if not hists:
        return agg
    cfg = os.path.join(d, "trace.cfg")
    if os.environ.get("C17_FLIP"):       # development aid: judge with the other variant, drift must appear
        flags = {k: not v for k, v in flags.items()}
    tlc.write_cfg(cfg, spec="TraceSpec", constants={"TreeSet": "<- TreesTiny", "Ops": "<- OpsAll", "MaxLen": 12, "Prots": "<- AllProts",
                                                    "FixDelete": "TRUE" if flags["FixDelete"] else "FALSE",
                                                    "FixPatch": "TRUE" if flags["FixPatch"] else "FALSE", "CacheTrunc": "TRUE"})
    res = tlc.run("WorkTreeConfTrace.tla", cfg, workers=1, timeout=1500, env={"TRACE_FILE": path})
    ctx.add_tlc(f"WorkTreeConfTrace ({len(hists)} recorded histories)", res, require_ok=False)
    verdicts = {v[1]: v for v in tlc.extract_printed(res.output, "VERDICT")}
    if len(verdicts) != len(hists):
        raise MachineryError(f"trace validation: {len(verdicts)} verdicts for {len(hists)} histories\n{res.output[-3000:]}")
    ndrift = nbad = 0
    for tid, h in enumerate(hists, 1):
        _, _, verdict, fail_at, drift_at = verdicts[tid]
        ctx.validated(1)
        if str(verdict) != "ok":
            nbad += 1
            st = h[min(int(fail_at), len(h)) - 1]
            # the worker judged the same step on the real directory; a verdict it did not reach is reported here
            if not st.get("violated"):
                ctx.violation(f"{lib.SITE[st['op']]}|{verdict}|judged by the specification on a recorded history",
                              f"TLC: {verdict} violated at step {fail_at} of {lib.seq_show(st['hist']['steps'])}",
                              {"kind": "history", "prot": st["hist"]["prot"], "steps": st["hist"]["steps"]})
        elif int(drift_at):
            ndrift += 1
            st = h[int(drift_at) - 1]
            ctx.drift_event(f"random history leaves the specification at step {drift_at}: "
                            f"[ntfs={int(st['hist']['prot']['ntfs'])} hfs={int(st['hist']['prot']['hfs'])}] {lib.seq_show(st['hist']['steps'])} -> {st['res']} {st['exc'][:80]}")
    agg.update(histories=len(hists), rejected_by_property=nbad, drift=ndrift)
    ctx.cov["trace_validation"] = agg
    ctx.log(f"trace validation: {len(hists)} histories judged by TLC, {nbad} with a property verdict, {ndrift} drift")
    return agg


# --------------------------------------------------------------------------- run
def run(ctx):
    pool = Pool(ctx)
    jobs = TlcJobs(ctx, ctx.pick(4, 2))      # at most 8 TLC worker threads in total
    try:
        dump = os.path.join(ctx.tmpdir("names"), "names")
        jobs.submit("names", "WorkTreeConfNamesMC.tla", "WorkTreeConfNamesMC.cfg", workers=2, dump_states=dump, timeout=300)
        bad = pool.pool.apply(lib.selftest, (pool.work,))
        if bad:
            raise MachineryError(bad)
        flags = pool.pool.apply(_probe, ({"scratch": pool.work},))
        ctx.cov["variant"] = flags
        D = "<- ProtsDefault"
        plans = {
            "names1": ({"TreeSet": "<- TreesNames", "Ops": "<- OpsAll", "MaxLen": 1, "Prots": "<- AllProts"}, ctx.pick(20, 120)),
            "tiny3": ({"TreeSet": "<- TreesTiny", "Ops": "<- OpsAll", "MaxLen": 3, "Prots": D}, ctx.pick(25, 200)),
            "mid2": ({"TreeSet": "<- TreesMid", "Ops": "<- OpsAll", "MaxLen": 2, "Prots": D}, ctx.pick(25, 200)),
            "dang2": ({"TreeSet": "<- TreesDang", "Ops": "<- OpsAll", "MaxLen": 2, "Prots": D}, ctx.pick(8, 60)),
            "deep2": ({"TreeSet": "<- TreesDeep", "Ops": "<- OpsWalk", "MaxLen": 2, "Prots": D}, ctx.pick(6, 60)),
            "mv2": ({"TreeSet": "<- TreesMove", "Ops": "<- OpsMove", "MaxLen": 2, "Prots": D}, ctx.pick(6, 60)),
            "unch3": ({"TreeSet": "<- TreesUnch", "Ops": "<- OpsUnch", "MaxLen": 3, "Prots": D}, ctx.pick(8, 60)),
            "pop4": ({"TreeSet": "<- TreesPop", "Ops": "<- OpsPop", "MaxLen": 4, "Prots": D}, ctx.pick(8, 60)),
            "gl3": ({"TreeSet": "<- TreesGl", "Ops": "<- OpsAll", "MaxLen": 3, "Prots": D}, 60),
            "core2": ({"TreeSet": "<- TreesCore", "Ops": "<- OpsAll", "MaxLen": 2, "Prots": D}, 300),
            "small3": ({"TreeSet": "<- TreesSmall", "Ops": "<- OpsAll", "MaxLen": 3, "Prots": D}, 300),
            "full2": ({"TreeSet": "<- TreesFull", "Ops": "<- OpsNoClone", "MaxLen": 2, "Prots": D}, 400),
        }
        order = ctx.pick(["names1", "dang2", "deep2", "mv2", "unch3", "pop4", "tiny3", "mid2"],
                         ["names1", "dang2", "deep2", "mv2", "unch3", "pop4", "tiny3", "mid2", "gl3", "core2", "small3", "full2"])
        only = os.environ.get("C17_ONLY", "")
        if only:
            order = [x for x in only.split(",") if x in plans]
        submitted = {nm: graph_submit(ctx, jobs, nm, plans[nm][0], flags) for nm in order}
        for cfg in ("WorkTreeConf_neg_delete.cfg", "WorkTreeConf_neg_patch.cfg", "WorkTreeConf_neg_cache.cfg"):
            jobs.submit(cfg, "WorkTreeConf.tla", cfg, workers=2, timeout=600)
        unsafe, comps = names_level(ctx, pool, jobs.get("names"), dump)
        ctx.log(f"elements done; code implements FixDelete={flags['FixDelete']} FixPatch={flags['FixPatch']}")
        exhaustive = True
        deadline = ctx.t0 + ctx.pick(78, 1080)
        # the small targeted configurations always run to the end (each is a few seconds of work); the
        # large ones share the time that is left, in proportion to their nominal budgets
        small = {"names1", "dang2", "deep2", "mv2", "unch3", "pop4"}
        weight = {nm: plans[nm][1] for nm in order}
        for i, nm in enumerate(order):
            dot, fixed = submitted[nm]
            if nm in small:
                budget = ctx.pick(60, 300)
            else:
                left = max(5.0, deadline - time.time() - ctx.pick(12, 200))
                rest = [x for x in order[i:] if x not in small]
                budget = max(5.0, min(left * weight[nm] / sum(weight[x] for x in rest), plans[nm][1] * 3))
            st = graph_replay(ctx, pool, jobs, nm, dot, fixed, unsafe, comps, budget)
            if st.get("truncated") or st.get("unreached"):
                exhaustive = False
        if not only or "traces" in only:
            trace_validation(ctx, pool, flags, unsafe, comps, ctx.pick(300, 6000), max(5.0, min(ctx.pick(10, 200), deadline - time.time())))
        # negative controls: the invariant bites on the behaviour of the snapshot
        for cfg, expect in (("WorkTreeConf_neg_delete.cfg", "Confined"), ("WorkTreeConf_neg_patch.cfg", "Confined"),
                            ("WorkTreeConf_neg_cache.cfg", "Confined")):
            r = jobs.get(cfg)
            ctx.add_tlc(f"{cfg} (negative control, expects {expect})", r, require_ok=False)
            if expect not in r.violated:
                raise MachineryError(f"negative control {cfg}: {expect} not violated ({r.violated})\n{r.output[-1500:]}")
    finally:
        jobs.close()
        pool.close()
    ctx.cov["rule"] = ("non-trivial = a behaviour in which an operation was refused/failed or left something in the "
                       "work tree; elements: unsafe under the setting")
    ctx.assumptions += [
        "POSIX host, case-sensitive non-normalising file system (tmpfs); Windows/macOS branches of the validators not executed",
        "pure-Python dulwich (Rust extensions blocked in the workers)",
        "trees: at most 2 root entries, sub-directories up to depth 3 (depth 4 in the dedicated deep2 configuration) in the "
        "enumerated alphabets; histories: at most 3 operations "
        "(random histories judged by TLC: up to 6 operations, 3 root entries)",
    ]
    return ctx.finish(exhaustive=exhaustive)


def replay(ctx, path):
    with open(path) as f:
        obj = json.load(f)
    pool = Pool(ctx)
    try:
        if obj.get("kind") == "element":
            rows = [(obj["comp"], obj["prot"]["ntfs"], obj["prot"]["hfs"], False, True)]
            acc = pool.pool.apply(_real_validators, (rows,))[0]
            print(f"validate_path({obj['comp']!r}) with {obj['prot']} -> {'accepted' if acc else 'refused'}")
            if acc:
                ctx.violation(obj["signature"], obj["what"], obj)
        else:
            dump = os.path.join(ctx.tmpdir("names"), "names")
            unsafe, comps = names_level(ctx, pool, tlc.run("WorkTreeConfNamesMC.tla", "WorkTreeConfNamesMC.cfg", workers=2,
                                                            dump_states=dump, timeout=300), dump)
            steps = [{"op": s["op"], "tree": s["tree"], "mv": s.get("mv"), "alts": None, "plan": None} for s in obj["steps"]]
            job = {"prot": obj["prot"], "prefix": steps[:-1], "finals": steps[-1:], "keep_obs": True}
            sent, it = pool.run([job], {}, unsafe, comps)
            for r in it:
                for i, o in enumerate(r["obs"]):
                    what = lib.move_show(o["mv"]) if o.get("mv") else lib.tree_show(o["tree"])
                    print(f"step {i}: {lib.ENTRY[o['op']]} [{what}] -> {o['res']} {o['exc']}")
                    print("   work tree:", {"/".join(p[2:]): nd for p, nd in o["fs"] if p[:2] == ["p", "repo"] and len(p) > 2 and p[2] != ".git"})
                for v in r["violations"]:
                    print(f"   VIOLATED at step {v['step']}: {v['sig']}\n      {v['what']}")
                    ctx.violation(v["sig"], v["what"], {k: obj[k] for k in ("kind", "prot", "steps") if k in obj})
                if not r["violations"]:
                    print("   no property clause violated on this tree")
    finally:
        pool.close()
    return 1 if ctx.violations else 0

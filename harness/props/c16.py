"""C16 -- ref backends obey one contract; the files backend matches git's view; ref-name validity.

Specs: RefMap.tla (pure operators: the contract), RefMapSeq.tla (sequential store), RefMapRefuse.tla (one
call while another process holds packed-refs.lock or a ref's lock: refused => map unchanged), RefMapFiles.tla
(files backend: loose / packed / directories, pack_refs, C git packing, re-opening; refines
RefMapSeq), RefMapTrace.tla (monitor), RefName.tla (+ RefNameTrace.tla).

Binding:
  R  every transition of the TLC state graph of RefMapFiles is replayed on DiskRefsContainer (with
     C git listing the directory after every step), and the transitions inside the common
     contract on DictRefsContainer and ReftableRefsContainer (harness/c16_replay.py);
  T  longer random call sequences over a larger universe are executed on the three backends,
     recorded, and judged by TLC against RefMapTrace (harness/c16_trace.py);
  RefName: TLC enumerates every class string up to a bound with the specification's verdict; the
     harness runs dulwich.refs.check_ref_format and `git check-ref-format` on concretisations;
     random longer names and every single byte in several contexts go the other way (TLC judges).
"""
from __future__ import annotations

import concurrent.futures as cf
import json
import multiprocessing as mp
import os
import random
import re
import shutil
import time

from .. import tlc
from ..core import MachineryError, git_available

NEG_CONTROLS = [("PackSymrefs", "Refines"), ("RemoveKeepsPacked", "Refines"),
                ("NoPackedDescendantProbe", "CollisionFree"), ("AddNoPackedProbe", "CollisionFree")]
_RE_ACT = re.compile(r"Error: Action property .* of module RefMapSeq is violated")

_G = {}     # shared with forked workers


def violated(res):
    v = list(res.violated)
    if _RE_ACT.search(res.output):
        v.append("Refines")
    return v


# ------------------------------------------------------------------------------- workers (forked)
def _walk_worker(args):
    from ..c16_replay import Walker
    kind, wid, nw, max_len, seed, deadline = args
    g, objs, scratch, use_git = _G["graph"], _G["objs"], _G["scratch"], _G["git"]
    sc = os.path.join(scratch, f"w-{kind}-{wid}")
    os.makedirs(sc, exist_ok=True)
    w = Walker(g, kind, objs, sc, use_git, max_len, random.Random(seed * 1000 + wid), deadline)
    targets = {(s, li) for (s, li) in w.reachable_targets() if s % nw == wid}
    rem = w.cover(targets)
    shutil.rmtree(sc, ignore_errors=True)
    return {"kind": kind, "targets": len(targets), "unreached": len(rem), "steps": w.steps, "behaviours": w.behaviours,
            "validated": w.validated, "findings": [(f.sig, f.what, f.replay) for f in w.findings], "drift": w.drift,
            "covered": len(targets) - len(rem), "nontrivial": [(kind, s, li) for (s, li) in w.nontrivial],
            "samples": w.samples, "git_calls": w.git.calls if w.git else 0, "failed_clauses": w.nfindings,
            "ndrift": w.ndrift}


def _trace_worker(args):
    from .. import c16_trace as T
    from ..c16_backends import GitView
    kind, wid, ntraces, length, seed, tid0, git_every = args
    objs, scratch, use_git = _G["objs_big"], _G["scratch"], _G["git"]
    sc = os.path.join(scratch, f"t-{kind}-{wid}")
    os.makedirs(sc, exist_ok=True)
    rng = random.Random(seed * 7919 + wid * 104729 + {"disk": 1, "dict": 2, "reftable": 3}[kind])
    gv = GitView(objs, sc) if (use_git and kind == "disk") else None
    out = []
    for i in range(ntraces):
        be = T.new_backend(kind, objs, T.BIG_NAMES, sc)
        rec = T.Recorder(be, objs, gv, git_every)
        T.gen_calls(rng, rec, rng.randint(length // 2, length), T.BIG_VALUES)
        be.close()
        out.append((T.to_json(tid0 + i, rec, T.BIG_NAMES, T.BIG_VALUES, objs), _strip(rec)))
    shutil.rmtree(sc, ignore_errors=True)
    return out


def _wide_worker(args):
    """Executions over the wide universe (name lengths, shared prefixes, ids chosen for their bytes)."""
    from .. import c16_trace as T
    kind, wid, ntraces, length, seed, tid0 = args
    objs, scratch = _G["objs_wide"], _G["scratch"]
    sc = os.path.join(scratch, f"wd-{kind}-{wid}")
    os.makedirs(sc, exist_ok=True)
    rng = random.Random(seed * 6007 + wid * 15485863 + {"disk": 1, "dict": 2, "reftable": 3}[kind])
    out = []
    for i in range(ntraces):
        be = T.new_backend(kind, objs, T.WIDE_NAMES, sc)
        rec = T.Recorder(be, objs, None, 1)
        T.gen_wide(rng, rec, rng.randint(length // 2, length))
        be.close()
        out.append((T.to_json(tid0 + i, rec, T.WIDE_NAMES, T.WIDE_VALUES, objs, "wide"), _strip(rec)))
    shutil.rmtree(sc, ignore_errors=True)
    return out


def _bulk_worker(args):
    """One execution with `size` refs in one table, in a universe of `usize` names."""
    from .. import c16_trace as T
    kind, size, usize, seed, tid = args
    objs, scratch = _G["objs_wide"], _G["scratch"]
    sc = os.path.join(scratch, f"bk-{kind}-{size}-{usize}")
    os.makedirs(sc, exist_ok=True)
    names = T.bulk_names(usize)
    be = T.new_backend(kind, objs, names, sc)
    be.probe, be.bases = sorted(set(names[:12] + names[::max(1, usize // 12)] + names[-4:])), []
    rec = T.Recorder(be, objs, None, 1)
    T.gen_bulk(random.Random(seed + size), rec, size)
    be.close()
    shutil.rmtree(sc, ignore_errors=True)
    return [(T.to_json(tid, rec, names, ["p%04d" % i for i in range(1200)], objs, f"bulk-{usize}"), _strip(rec))]


class _RecView:
    """What describe() needs from a Recorder, picklable."""

    def __init__(self, rec):
        self.ev, self.pre, self.objs = rec.ev, rec.pre, None
        self.kind = rec.be.kind
        self.site = rec.be.site
        self.names = rec.be.names


def _strip(rec):
    return _RecView(rec)


class _BeView:
    def __init__(self, rv, objs):
        from ..c16_backends import DiskBackend
        self.kind, self.site, self.names, self.objs = rv.kind, rv.site, rv.names, objs
        self._fs = DiskBackend.fs_diagnosis

    def fs_diagnosis(self, sc, target):
        return self._fs(self, sc, target)


# ------------------------------------------------------------------------------- phases
def phase_models(ctx, pool_tlc):
    """The specifications themselves, the negative controls, and the graph dump for replay."""
    d = ctx.tmpdir("g")
    dot = os.path.join(d, "graph.dot")
    graph_cfg = ctx.pick("RefMapFiles_n3.cfg", "RefMapFiles_n4.cfg")
    futs = {
        "graph": pool_tlc.submit(tlc.run, "RefMapFiles.tla", graph_cfg, workers=ctx.pick(4, 8), timeout=3000, dump_dot=dot),
        "seq": pool_tlc.submit(tlc.run, "RefMapSeq.tla", "RefMapSeq_n5.cfg", workers=4, timeout=1200),
    }
    if not ctx.quick:
        futs["n3"] = pool_tlc.submit(tlc.run, "RefMapFiles.tla", "RefMapFiles_n3.cfg", workers=2, timeout=1200)
        # five names: too large to enumerate within the budget (> 10^7 transitions) -> random simulation, depth 30
        futs["sim5"] = pool_tlc.submit(tlc.run, "RefMapFiles.tla", "RefMapFiles_n5.cfg", workers=4, timeout=1500,
                                       simulate="num=6000", depth=30, seed=ctx.seed + 1)
    for name, _ in NEG_CONTROLS:
        futs["neg:" + name] = pool_tlc.submit(tlc.run, "RefMapFiles.tla", f"RefMapFiles_neg_{name}.cfg", workers=2, timeout=600)
    return futs, dot, graph_cfg


def collect_models(ctx, futs, graph_cfg):
    for key, fut in futs.items():
        if key == "graph":
            continue
        res = fut.result()
        if key.startswith("neg:"):
            name = key[4:]
            expect = dict(NEG_CONTROLS)[name]
            ctx.add_tlc(f"RefMapFiles negative control {name} (expects {expect})", res, require_ok=False)
            if expect not in violated(res):
                raise MachineryError(f"negative control {name} did not violate {expect}\n{res.output[-2000:]}")
        elif key == "seq":
            ctx.add_tlc("RefMapSeq_n5 (5 names, 2 values: TypeOK, CollisionFree, Contract)", res)
        elif key == "sim5":
            m = re.search(r"Progress: (\d+) states checked, (\d+) traces generated", res.output)
            if m is None or re.search(r"^Error:", res.output, re.M) or violated(res):
                raise MachineryError(f"simulation of RefMapFiles_n5 failed\n{res.output[-2000:]}")
            res.generated, res.ok, res.completed = int(m.group(1)), True, True
            ctx.add_tlc(f"RefMapFiles_n5 simulation ({m.group(2)} behaviours of depth <= 30: invariants, RefinesFast, ContractF)", res)
        else:
            ctx.add_tlc(f"RefMapFiles {key} (refinement of RefMapSeq, CollisionFree, ObsOK, FsOK)", res)


def phase_replay(ctx, dot, nproc):
    from ..c16_replay import Graph
    g = Graph(dot)
    _G["graph"] = g
    ctx.log(f"state graph: {len(g.loose)} states, {g.n_edges} transitions, {len(g.labels)} distinct labels")
    max_len = ctx.pick(40, 60)
    deadline = time.time() + ctx.pick(45, 480)       # the walk normally ends long before; a loaded machine must not blow the tier's budget
    nrt = max(1, nproc // 3)
    jobs = [("dict", 0, 1, max_len, ctx.seed, deadline)]
    jobs += [("reftable", w, nrt, max_len, ctx.seed, deadline) for w in range(nrt)]
    jobs += [("disk", w, nproc, max_len, ctx.seed, deadline) for w in range(nproc)]
    with mp.get_context("fork").Pool(nproc) as pool:
        results = pool.map(_walk_worker, jobs, chunksize=1)
    summary, sampled = {}, set()
    for r in sorted(results, key=lambda r: r["kind"] != "disk"):
        s = summary.setdefault(r["kind"], {"targets": 0, "unreached": 0, "steps": 0, "behaviours": 0, "validated": 0,
                                           "covered": 0, "git_calls": 0, "failed_clauses": 0})
        for k in s:
            s[k] += r[k]
        _G["findings"] += r["findings"]
        for dmsg in r["drift"]:
            ctx.drift_event(dmsg)
        ctx.cov["drift"] += r["ndrift"] - len(r["drift"])
        for key in r["nontrivial"]:
            ctx.nontrivial(key)
        if r["samples"] and r["kind"] not in sampled:
            sampled.add(r["kind"])
            ctx.sample({"kind": "graph-replay", **r["samples"][0]}, limit=3)
        ctx.count(r["steps"])
        ctx.validated(r["validated"])
    for kind, s in summary.items():
        ctx.log(f"graph replay {kind}: {s['covered']}/{s['targets']} transitions executed ({s['unreached']} unreached), "
                f"{s['steps']} calls in {s['behaviours']} behaviours, {s['validated']} conform, "
                f"{s['failed_clauses']} failed clauses, git listings {s['git_calls']}")
        if s["unreached"]:
            ctx.assumptions.append(f"graph replay {kind}: {s['unreached']} of {s['targets']} transitions not executed "
                                   f"(time budget of the walk reached, or no matching real state)")
    ctx.cov["graph_replay"] = {"states": len(g.loose), "transitions": g.n_edges, "by_backend": summary}
    return all(s["unreached"] == 0 for s in summary.values())


def record_traces(ctx, nproc):
    per = ctx.pick({"disk": 160, "dict": 80, "reftable": 48}, {"disk": 1500, "dict": 600, "reftable": 240})
    length = ctx.pick(30, 40)
    git_every = ctx.pick(3, 1)
    jobs, tid = [], 0
    for kind, n in per.items():
        nw = nproc if kind == "disk" else max(1, nproc // 2)
        share = -(-n // nw)
        for w in range(nw):
            jobs.append((kind, w, share, length, ctx.seed, tid, git_every))
            tid += share
    with mp.get_context("fork").Pool(nproc) as pool:
        chunks = pool.map(_trace_worker, jobs, chunksize=1)
    traces = []
    for ch in chunks:
        for obj, rv in ch:
            rv.objs = _G["objs_big"]
            rv.be = _BeView(rv, _G["objs_big"])
            traces.append((obj, rv))
    nev = sum(len(o["ev"]) for o, _ in traces)
    ctx.log(f"traces: {len(traces)} executions, {nev} calls recorded")
    ctx.cov["traces"] = {"executions": len(traces), "calls": nev, "per_backend": per}
    return traces


def record_wide(ctx, nproc):
    """-> list of (label, traces): each list is validated by its own TLC run (one universe per run)."""
    from .. import c16_trace as T
    per = ctx.pick({"reftable": 36, "dict": 18, "disk": 18}, {"reftable": 300, "dict": 120, "disk": 120})
    length = ctx.pick(24, 30)
    jobs, tid = [], 100000
    for kind, n in per.items():
        nw = max(1, min(nproc // 2, n // 6))
        share = -(-n // nw)
        for w in range(nw):
            jobs.append((kind, w, share, length, ctx.seed, tid))
            tid += share
    bulk = []
    # (the monitor's work per call grows with the square of the universe: 1000 names take TLC half an hour;
    #  the writer puts every ref of a batch into ONE block whatever their number, so 300 walk the same code)
    for usize in ctx.pick((100,), (100, 300)):
        for size in T.BULK_SIZES:
            if size <= usize and (usize == 100 or size == 300):
                for kind in ("reftable", "dict"):
                    tid += 1
                    bulk.append((kind, size, usize, ctx.seed, tid))
    with mp.get_context("fork").Pool(nproc) as pool:
        wide = [x for ch in pool.map(_wide_worker, jobs, chunksize=1) for x in ch]
        bulks = pool.map(_bulk_worker, bulk, chunksize=1)
    out = [("wide universe", wide)]
    for usize in ctx.pick((100,), (100, 300)):
        out.append((f"bulk universe of {usize} names", [x for job, ch in zip(bulk, bulks) if job[2] == usize for x in ch]))
    for label, trs in out:
        for obj, rv in trs:
            rv.objs = _G["objs_wide"]
            rv.be = _BeView(rv, _G["objs_wide"])
    nev = sum(len(o["ev"]) for _, trs in out for o, _ in trs)
    ctx.log(f"wide/bulk traces: {sum(len(t) for _, t in out)} executions, {nev} calls recorded")
    ctx.cov["wide_traces"] = {"executions": {label: len(t) for label, t in out}, "calls": nev,
                              "name_lengths": list(T.WIDE_LENGTHS), "bulk_sizes": [b[1] for b in bulk if b[0] == "reftable"]}
    return out


def submit_validation(ctx, pool_tlc, traces, nproc):
    from .. import c16_trace as T
    nb = max(1, min(ctx.pick(4, 8), len(traces) // 20))
    size = -(-len(traces) // nb)
    batches = [traces[i:i + size] for i in range(0, len(traces), size)]
    return [pool_tlc.submit(T.validate, ctx, b, f"batch {k}") for k, b in enumerate(batches)]


def collect_validation(ctx, vfuts, traces):
    total_clean = 0
    for fut in vfuts:
        findings, drift, clean = fut.result()
        total_clean += clean
        _G["findings"] += [(f.sig, f.what, f.replay) for f in findings]
        for dmsg in drift:
            ctx.drift_event(dmsg)
    nev = sum(len(o["ev"]) for o, _ in traces)
    ctx.count(nev)
    ctx.validated(total_clean)
    for obj, rv in traces:
        ctx.nontrivial(("trace", obj["backend"], tuple((e["op"], tuple(e["n"]), e["old"], e["v"], tuple(e["t"])) for e in obj["ev"])))
    o = traces[len(traces) // 2][0]
    ctx.sample({"kind": "trace", "backend": o["backend"],
                "calls": [f"{e['op']}({'/'.join(e['n'])},{e['old']},{e['v']},{'/'.join(e['t'])}) -> {e['got']}" for e in o["ev"][:12]]}, limit=4)
    ctx.cov["traces"]["without_failed_property_clause"] = total_clean
    ctx.log(f"traces: {total_clean}/{len(traces)} executions without a failed property clause")


CONFIRMABLE = ("result", "state", "pack-visible", "reopen-visible", "peeled", "git-view")


def _reexecute(rec, calls):
    """Make the recorded calls again (refs[n]=v / del refs[n] versus the method call as recorded)."""
    out = []
    for c in calls:
        rec.be.nstep = 1 if c.get("form") == "item" else 0
        items = [(tuple(i["n"]), i["v"]) for i in c.get("items", ())] or None
        out.append(rec.do(c["op"], tuple(c["n"]), c["old"], c["v"], tuple(c["t"]), items))
    return out


def report_findings(ctx):
    """Report what the replay and the traces found.  The containers are sequential and deterministic:
    a divergence that is not on the list of known findings is first re-executed from scratch (same
    calls, fresh container, judged by RefMapTrace) and reported as VIOLATION only if it shows again.
    One that does not is an effect of the environment (this happened on a machine short of memory:
    read_loose_ref swallows the OSError and answers None); it is printed and counted, not alarmed."""
    import fnmatch
    from .. import c16_trace as T
    from ..c16_backends import GitView
    best = {}
    for sig, what, obj in _G["findings"]:
        old = best.get(sig)
        if old is None or len(obj.get("calls", ())) < len(old[1].get("calls", ())):
            best[sig] = (what, obj)
    pats = [k.get("signature", "") for k in ctx.known if k.get("status", "open") == "open"]
    check = []
    for sig, (what, obj) in sorted(best.items()):
        listed = any(sig == p or fnmatch.fnmatchcase(sig, p) for p in pats)
        clause = sig.split("|")[1] if sig.count("|") >= 2 else ""
        confirmable = clause in CONFIRMABLE or (clause == "read" and "__contains__" not in sig)
        if listed or not confirmable or not obj.get("calls"):
            ctx.violation(sig, what, obj)
        else:
            check.append((sig, what, obj))
    if not check:
        return
    objs_by = {"big": _G["objs_big"], "wide": _G["objs_wide"]}
    by_tid, groups = {}, {}
    for tid, (sig, what, obj) in enumerate(check):
        uni = obj.get("universe") or "big"       # (graph replay: the small universes are inside the big one)
        names, values, objs, with_git = T.universe(uni, objs_by)
        be = T.new_backend(obj["backend"], objs, names, ctx.scratch)
        gv = GitView(objs, ctx.scratch) if (with_git and _G["git"] and obj["backend"] == "disk") else None
        rec = T.Recorder(be, objs, gv, 1)
        if uni.startswith("bulk"):
            be.probe, be.bases = sorted(set(names[:12] + names[::max(1, len(names) // 12)] + names[-4:])), []
        _reexecute(rec, obj["calls"])
        be.close()
        groups.setdefault(uni, []).append((T.to_json(tid, rec, names, values, objs, uni), rec))
    for uni, traces in groups.items():
        T.validate(ctx, traces, f"confirmation of unlisted divergences ({uni})", by_tid)
    unconfirmed = []
    for tid, (sig, what, obj) in enumerate(check):
        if sig in by_tid.get(tid, ()):
            ctx.violation(sig, what, obj)
        else:
            unconfirmed.append(sig)
            print(f"NOT-REPRODUCED property={ctx.pid} {sig}\n  ({what}) -- the same calls on a fresh container conform; not reported",
                  flush=True)
    ctx.cov["not_reproduced"] = unconfirmed[:50]
    if unconfirmed:
        ctx.assumptions.append(f"{len(unconfirmed)} divergences seen once did not show again when the same calls were re-executed "
                               f"(environment, e.g. memory pressure); they are listed under coverage.not_reproduced, not reported")


def start_refuse(ctx, pool_tlc):
    """RefMapRefuse: the cases (dumped for the replay), the step model of remove_if_equals, its negative control."""
    d = ctx.tmpdir("rf")
    dump = os.path.join(d, "cases")
    return {"cases": pool_tlc.submit(tlc.run, "RefMapRefuse.tla", "RefMapRefuse_cases.cfg", workers=2, timeout=900, dump_states=dump),
            "steps": pool_tlc.submit(tlc.run, "RefMapRefuse.tla", "RefMapRefuse_steps.cfg", workers=2, timeout=600),
            "neg": pool_tlc.submit(tlc.run, "RefMapRefuse.tla", "RefMapRefuse_neg_LooseFirst.cfg", workers=2, timeout=600)}, dump


def phase_refuse(ctx, rfuts, dump, nproc):
    """Calls made while another process holds packed-refs.lock / a ref's lock: every case TLC enumerates is
    executed on DiskRefsContainer; a refused call must leave the map unchanged (container, re-opened, C git)."""
    from .. import c16_refuse as R
    res = rfuts["cases"].result()
    ctx.add_tlc("RefMapRefuse_cases (placement x call x held lock; outcomes refused / done: TypeOKR, OutcomeOK)", res)
    pairs = R.load_cases(dump)
    if not pairs:
        raise MachineryError("RefMapRefuse: no cases in the dump")
    jobs = [(w, pairs[w::nproc], _G["objs"], _G["scratch"], _G["git"]) for w in range(nproc)]
    with mp.get_context("fork").Pool(nproc) as pool:
        rs = pool.map(R.worker, jobs, chunksize=1)
    tot = {k: sum(r[k] for r in rs) for k in ("cases", "refused", "validated", "unbuilt")}
    by_op = {}
    for r in rs:
        _G["findings"] += r["findings"]
        for k, v in r["by_op"].items():
            by_op[k] = by_op.get(k, 0) + v
        for key in r["nontrivial"]:
            ctx.nontrivial(("held-lock",) + tuple(key))
        if r["sample"]:
            ctx.sample(r["sample"], limit=5)
    ctx.count(tot["cases"])
    ctx.validated(tot["validated"])
    ctx.log(f"held-lock cases: {tot['cases']}/{len(pairs)} executed, {tot['refused']} refused by the real code "
            f"({by_op}), {tot['validated']} conform, placement not reached {tot['unbuilt']}")
    if tot["refused"] == 0:
        raise MachineryError("RefMapRefuse: the real code refused no call under a held lock (the locks are not where the code looks)")
    if tot["unbuilt"]:
        ctx.assumptions.append(f"held-lock cases: {tot['unbuilt']} placements could not be reached with real calls and were skipped")
    ctx.cov["held_lock"] = {"cases": len(pairs), "executed": tot["cases"], "refused_by_real_code": tot["refused"],
                            "refused_by_method": by_op, "conform": tot["validated"]}
    res = rfuts["steps"].result()
    ctx.add_tlc("RefMapRefuse_steps (remove_if_equals step by step under a held lock: RefusedUnchanged, DoneApplied)", res)
    res = rfuts["neg"].result()
    ctx.add_tlc("RefMapRefuse negative control LooseFirst (expects RefusedUnchanged)", res, require_ok=False)
    if "RefusedUnchanged" not in violated(res):
        raise MachineryError(f"negative control LooseFirst did not violate RefusedUnchanged\n{res.output[-2000:]}")
    try:
        os.remove(dump + ".dump" if os.path.exists(dump + ".dump") else dump)
    except OSError:
        pass


# ------------------------------------------------------------------------------- entry
def setup(ctx):
    from ..c16_backends import Objects
    use_git = git_available()
    _G["git"] = use_git
    _G["findings"] = []
    _G["scratch"] = ctx.scratch
    _G["objs"] = Objects(os.path.join(ctx.scratch, "objs2"), 2, use_git)
    _G["objs_big"] = Objects(os.path.join(ctx.scratch, "objs4"), 4, use_git)
    from ..c16_backends import WideValues
    _G["objs_wide"] = WideValues()
    if not use_git:
        ctx.assumptions.append("git not found: every comparison with C git skipped")
    return use_git


def run(ctx):
    from .. import c16_refname
    nproc = min(12, max(2, (os.cpu_count() or 4) - 2))
    setup(ctx)
    with cf.ThreadPoolExecutor(max_workers=ctx.pick(5, 6)) as pool_tlc:
        futs, dot, graph_cfg = phase_models(ctx, pool_tlc)                 # TLC runs in the background
        name_futs = c16_refname.start_models(ctx, pool_tlc)
        rfuts, rdump = start_refuse(ctx, pool_tlc)
        traces = record_traces(ctx, nproc)                                 # meanwhile: real executions
        vfuts = submit_validation(ctx, pool_tlc, traces, nproc)
        from .. import c16_trace as T
        for label, trs in record_wide(ctx, nproc):
            if trs:
                vfuts.append(pool_tlc.submit(T.validate, ctx, trs, label))
                traces = traces + trs
        rec_names = c16_refname.record(ctx, pool_tlc, nproc, _G["git"])
        res = futs["graph"].result()
        ctx.add_tlc(f"{graph_cfg} (state graph replayed on the real containers)", res)
        exhaustive = phase_replay(ctx, dot, nproc)
        phase_refuse(ctx, rfuts, rdump, nproc)
        try:
            os.remove(dot)
        except OSError:
            pass
        c16_refname.finish(ctx, name_futs, rec_names, nproc, _G["git"])
        collect_validation(ctx, vfuts, traces)
        report_findings(ctx)
        collect_models(ctx, futs, graph_cfg)
    ctx.cov["rule"] = (
        "RefMap: (a) every transition of the TLC state graph of RefMapFiles executed on the real DiskRefsContainer from a "
        "state reached by real calls (and the transitions inside the common contract on Dict/Reftable containers); distinct "
        "non-trivial = distinct (backend, source state, call) whose call changes the state or is refused/fails its "
        "condition; (b) random call sequences (<=30-40 calls, 9 names, 4 values) judged by TLC, distinct by call sequence. "
        "RefName: distinct byte strings on which dulwich / git were compared with the specification; non-trivial = the "
        "string contains at least one character of a special class")
    ctx.assumptions += [
        "C git 2.39.5 is an observed third implementation; its listing is taken from a verbatim copy of HEAD, packed-refs and refs/**",
        "model values v1,v3 are commits, v2,v4 annotated tags of them (objects made with git plumbing)",
        "state graph exhaustive for the configured universe only (quick: HEAD, refs/heads/a, refs/heads/a/b; thorough adds refs/tags/t); "
        "beyond it: random traces",
        "reflog, worktree-specific refs, NamespacedRefsContainer and concurrent use are outside this check (C08 covers concurrency)",
        "held-lock cases (RefMapRefuse): the other process is a lock file created before one call and removed after it without "
        "changes; universe HEAD + two branches, no colliding names; a raised call must leave the map unchanged",
    ]
    # every transition of the configured state graph was replayed (if `exhaustive`), but the larger universes are
    # sampled (random traces, simulation, sampled long names): the run as a whole is not exhaustive
    ctx.cov["graph_replay"]["every_transition_executed"] = bool(exhaustive)
    return ctx.finish(exhaustive=False)


def replay(ctx, path):
    from .. import c16_refname
    from .. import c16_trace as T
    obj = json.load(open(path))
    print(f"signature: {obj.get('signature')}\nwhat: {obj.get('what')}")
    if obj.get("kind") == "refname":
        return c16_refname.replay(ctx, obj)
    setup(ctx)
    if obj.get("kind") == "refuse":
        from .. import c16_refuse as R
        want, hit = obj.get("signature"), False
        for sig, what in R.replay_case(_G["objs"], ctx.scratch, _G["git"], obj):
            hit = hit or sig == want
            print(f"FAILED CLAUSE {sig}{'  <== the recorded violation' if sig == want else ''}\n   {what}")
        print("replay verdict: VIOLATION reproduced" if hit else "replay verdict: the recorded signature did not reproduce")
        return 1 if hit else 0
    uni = obj.get("universe") or "big"
    names, values, objs, with_git = T.universe(uni, {"big": _G["objs_big"], "wide": _G["objs_wide"]})
    from ..c16_backends import GitView
    be = T.new_backend(obj["backend"], objs, names, ctx.scratch)
    if uni.startswith("bulk"):
        be.probe, be.bases = sorted(set(names[:12] + names[::max(1, len(names) // 12)] + names[-4:])), []
    gv = GitView(objs, ctx.scratch) if (with_git and _G["git"] and obj["backend"] == "disk") else None
    rec = T.Recorder(be, objs, gv, 1)
    for c, e in zip(obj["calls"], _reexecute(rec, obj["calls"])):
        print(f"  {c['call'][:70]:70s} -> {e['got']:24s} refs now: {str(_fmt(e))[:300]}")
    be.close()
    ctx.known = []
    findings, drift, clean = T.validate(ctx, [(T.to_json(1, rec, names, values, objs, uni), rec)], "replay")
    want = obj.get("signature")
    seen, hit = set(), False
    for f in findings:
        if f.sig in seen:
            continue
        seen.add(f.sig)
        mark = "  <== the recorded violation" if f.sig == want else ""
        hit = hit or f.sig == want
        print(f"FAILED CLAUSE {f.sig}{mark}\n   {f.what}")
    for dmsg in drift[:5]:
        print("placement differs (shape only):", dmsg)
    if hit:
        print("replay verdict: VIOLATION reproduced")
    elif findings:
        print("replay verdict: the recorded signature did not reproduce; other clauses failed (listed above; they may be known findings)")
    else:
        print("replay verdict: no property clause failed")
    return 1 if hit else 0


def _fmt(e):
    out = {}
    for r in e["packed"] + e["loose"]:
        out["/".join(r["n"])] = r["v"] if r["k"] == "direct" else "ref: " + "/".join(r["t"])
    return out

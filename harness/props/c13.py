"""C13 -- merge-base, ancestry and history walks are exact on every DAG and clock.

Specs: specs/Graph.tla (definitions + transcription of dulwich/graph.py and dulwich/walk.py),
GraphCases.tla (TLC enumerates histories and the expected answers), GraphMC.tla (the algorithms
as state machines checked against the definitions), GraphTrace.tla (TLC judges recorded answers).

Binding:
  R  spec -> code: every (canonical DAG, weak order of timestamps) TLC enumerates is built as a
     real MemoryRepo (commit ids mined so that the id order -- dulwich's tie-break -- is the one
     the model uses) and every question is put to the real find_merge_base / can_fast_forward /
     find_octopus_base / independent / get_walker; answers are compared with TLC's table.
     Counterexamples TLC finds for today's algorithm (negative controls of GraphMC) are replayed
     on the real functions.
  T  code -> spec: everything that does not match, a sample of what matches, and all answers on
     random histories far larger than TLC enumerates (criss-cross, octopus, several roots,
     adversarial clocks), on disk repositories with and without a commit-graph, next to C git's
     answers, are written to ndjson and judged by TLC with GraphTrace (definitions only); TLC
     also says whether the transcribed algorithm predicts the recorded answer (SPEC-DRIFT if not).
A VIOLATION is only ever raised from a verdict of TLC on an answer of the real code.
"""
from __future__ import annotations

import concurrent.futures as cf
import json
import multiprocessing as mp
import os
import subprocess
import time

from .. import c13_lib as L
from .. import tlc
from ..core import MachineryError

PROCS = 8
INV_LCAS = ["PaintSound", "NoLostBase", "Superset", "ExactWhenStrict", "Bounded"]
INV_FF = ["PaintSound", "NoFalsePositive", "ExactWhenStrict", "Bounded"]
INV_WALK = ["WalkSound", "WalkOnce", "WalkComplete", "WalkExcludesWhenMonotone"]


# --------------------------------------------------------------------------- TLC jobs
def mc_cfg(ctx, d, name, *, n, l, mode, usemin, reduce, clocks="any", maxd=1, tiebreak="both", maxextra=5, inv=()):
    path = os.path.join(d, name + ".cfg")
    tlc.write_cfg(path, spec="Spec", constants={
        "MaxExtra": maxextra, "N": n, "L": l, "Mode": f'"{mode}"', "UseMinStamp": "TRUE" if usemin else "FALSE",
        "Reduce": "TRUE" if reduce else "FALSE", "Clocks": f'"{clocks}"', "MaxD": maxd, "TieBreak": f'"{tiebreak}"'},
        invariants=list(inv))
    return path


def cases_cfg(d, name, n, l, k, seed):
    path = os.path.join(d, name + ".cfg")
    tlc.write_cfg(path, spec="Spec", constants={"MaxExtra": 5, "N": n, "L": l, "K": k, "Seed": seed % 1000003},
                  invariants=["DefsOK"])
    return path


class Tokens:
    """At most MAX_TLC_WORKERS TLC worker threads exist at any time, over all concurrent TLC runs."""

    def __init__(self, n):
        import threading
        self.free = n
        self.cv = threading.Condition()

    def run(self, spec, cfg, **kw):
        k = kw.get("workers", 1)
        with self.cv:
            while self.free < k:
                self.cv.wait()
            self.free -= k
        try:
            return tlc.run(spec, cfg, **kw)
        finally:
            with self.cv:
                self.free += k
                self.cv.notify_all()


MAX_TLC_WORKERS = 8
TOKENS = Tokens(MAX_TLC_WORKERS)


class Jobs:
    """TLC runs in the background (FIFO), each with `w` workers unless it says otherwise."""

    def __init__(self, w=2):
        self.ex = cf.ThreadPoolExecutor(max_workers=MAX_TLC_WORKERS)
        self.w = w
        self.f = {}

    def submit(self, name, spec, cfg, **kw):
        kw.setdefault("workers", self.w)
        kw.setdefault("timeout", 3000)
        self.f[name] = self.ex.submit(TOKENS.run, spec, cfg, **kw)

    def get(self, name):
        return self.f.pop(name).result()


# --------------------------------------------------------------------------- counterexample replay
def cex_case(res):
    """(par, ts, mode, qa, qD, model result) of the last state of a GraphMC error trace."""
    if not res.error_trace:
        return None
    st = res.error_trace[-1][1]
    par = tuple(tuple(sorted(p)) for p in st["par"])
    ts = tuple(st["ts"])
    rank = tuple(st["rank"])
    mode = 0 if list(rank) == sorted(rank) else 1
    return par, ts, mode, st["qa"], st["qD"], tuple(st["res"])


def replay_cex(ctx, res, kind):
    """Run the query of a TLC counterexample on the real code.  Returns 'reproduced' if the real
    answer is the (wrong) one of today's algorithm, 'exact' if it is the graph-theoretic one."""
    c = cex_case(res)
    if c is None:
        raise MachineryError(f"negative control {kind}: no error trace\n{res.output[-1500:]}")
    par, ts, mode, qa, qD, mres = c
    h = L.Hist(par, ts, mode)
    ex = L.Expect(len(par), par, ts, None, anc=L.table_from_par(par))
    if kind == "lcas":
        q = L.q_mb(h, qa, sorted(qD))
        model = list(mres)
    else:
        b = sorted(qD)[0]
        q = L.q_ff(h, qa, b)
        model = [1 if mres == (qa,) else 0]
    ok, _ = ex.check(q)
    s, _ = L.describe(par, ts, q)
    ctx.count()
    ctx.validated()
    out = "reproduced" if q["r"] == model and not ok else ("exact" if ok else "other")
    ctx.log(f"TLC counterexample for today's {kind}: {s}  (model {model}) -> real code: {out}")
    ctx.cov.setdefault("counterexamples_replayed", []).append({"kind": kind, "case": s, "model": model, "real": q["r"], "outcome": out})
    if out == "other":
        ctx.drift_event(f"counterexample {s}: real answer {q['r']} is neither the model's {model} nor exact")
    return out


# --------------------------------------------------------------------------- spec -> code replay
def plan_for(ctx, n):
    if n <= 4:
        # all (c, D) merge-base questions, all fast-forward pairs, every set in two orders for octopus /
        # independent; walks: all (include set, exclude set) pairs in the thorough tier
        return dict(full=True, full_mb=not ctx.quick, both_modes=True, n_mbm=8, n_oct=0, n_ind=0, full_walk=not ctx.quick,
                    topo_frac=0.25, n_walk=10, n_walkopt=5, p_model=0.004, p_cover=ctx.pick(0.25, 1.0), n_cover=ctx.pick(2, 4),
                    p_porcelain=ctx.pick(0.35, 1.0), p_porcelain_slow=ctx.pick(0.3, 1.0), n_porcelain=ctx.pick(1, 2))
    if n == 5:
        return dict(full=False, both_modes=False, n_mbm=4, n_oct=3, n_ind=2, full_walk=False,
                    n_walk=4, n_walkopt=2, topo_frac=0.5, p_model=0.0005 if not ctx.quick else 0.004,
                    p_cover=ctx.pick(0.25, 0.05), n_cover=2, p_porcelain=ctx.pick(0.35, 0.1), p_porcelain_slow=0.3, n_porcelain=1)
    return dict(full=False, both_modes=False, n_mbm=6, n_oct=4, n_ind=3, full_walk=False,
                n_walk=6, n_walkopt=3, topo_frac=0.5, p_model=0.001, p_cover=0.05, n_cover=2,
                p_porcelain=0.1, p_porcelain_slow=0.3, n_porcelain=1)


def views_cfg(d, name, n):
    path = os.path.join(d, name + ".cfg")
    tlc.write_cfg(path, spec="Spec", constants={"MaxExtra": 5, "N": n}, invariants=["ViewOK"])
    return path


def replay_views(ctx, pool, n, res, dump_path, clocks, limit, label):
    """GraphViews: every (canonical DAG, cut of one commit) TLC enumerated, each with the commit-graph
    extents that still describe the uncut commit.  Replays them (all, or a seed-determined sample of
    `limit`) on real repositories; clocks = the weak orders GraphCases enumerated for the same DAG."""
    t0 = time.time()
    ctx.add_tlc(f"GraphViews N={n}: all canonical DAGs x every shallow boundary / graft point on one commit", res)
    try:
        items, roots = L.read_views(dump_path, n)
        if roots != 2 ** (n * (n - 1) // 2) or roots + len(items) != res.distinct:
            raise ValueError(f"{roots} DAGs, {len(items)} cuts, TLC reported {res.distinct} states")
    except ValueError as e:
        raise MachineryError(f"state dump of GraphViews N={n} unusable: {e}")
    os.remove(dump_path + ".dump")
    total = len(items)
    items.sort()
    if limit and limit < total:
        items = ctx.rng.sample(items, limit)
    per = max(4, len(items) // (PROCS * 6))
    tasks = [dict(n=n, items=items[i:i + per], seed=ctx.seed, p_model=0.01,
                  clocks={p: [ts for ts, _ in clocks.get(p, [])] for p in {it[0] for it in items[i:i + per]}})
             for i in range(0, len(items), per)]
    stats = {"cases": 0, "queries": 0, "suspect": 0, "by_kind": {}}
    records = []
    for r in pool.imap_unordered(L.run_views, tasks, chunksize=1):
        stats["cases"] += r["cases"]
        stats["queries"] += r["queries"]
        stats["suspect"] += r["suspect_q"]
        for k, v in r["by_kind"].items():
            b = stats["by_kind"].setdefault(k, [0, 0])
            b[0] += v[0]
            b[1] += v[1]
        records += r["records"]
    ctx.count(stats["queries"])
    ctx.validated(stats["queries"])
    ctx.log(f"{label}: {total} TLC cases (DAG x cut); replayed {stats['cases']} of them, each under 2 clocks x "
            f"{{complete, one stale/partial}} commit-graph and once without: {stats['queries']} real queries, {stats['suspect']} do not "
            f"match the table ({', '.join(f'{k}:{v[1]}/{v[0]}' for k, v in sorted(stats['by_kind'].items()))})  [{time.time() - t0:.0f}s]")
    ctx.cov.setdefault("replay", []).append({"label": label, "n": n, "tlc_cases": total, "tlc_cases_replayed": stats["cases"],
                                             "complete": stats["cases"] == total, "queries": stats["queries"],
                                             "mismatch": stats["suspect"], "by_kind": stats["by_kind"]})
    return records


def replay_dump(ctx, pool, n, dump, label, budget_s):
    """Replay the TLC-enumerated cases of one dump on the real code.  DAGs are taken in a
    seed-determined order; no new DAG is started after budget_s seconds (the evidence says how
    many were done)."""
    t0 = time.time()
    tables, cases = dump if isinstance(dump, tuple) else L.read_cases(dump)
    plan = plan_for(ctx, n)
    tasks = []
    for p, cs in sorted(cases.items()):
        cs = sorted(cs)
        for i in range(0, len(cs), 48):           # at most 48 clocks of one DAG per task
            tasks.append(dict(n=n, par=p, table=tables[p], cases=cs[i:i + 48], plan=plan, seed=ctx.seed, first=(i == 0),
                              deadline=t0 + budget_s, refs_dir=ctx.scratch))
    ctx.rng.shuffle(tasks)
    ncase = sum(len(cs) for cs in cases.values())
    chunk = max(1, min(32, len(tasks) // (PROCS * 16)))
    stats = {"cases": 0, "queries": 0, "suspect": 0, "by_kind": {}, "dags_done": 0, "tlc_cases_done": 0}

    records = []
    for r in pool.imap_unordered(L.run_dag, tasks, chunksize=chunk):
        if r["skipped"]:
            continue
        stats["dags_done"] += 1 if r["first"] else 0
        stats["tlc_cases_done"] += r["tlc_cases"]
        stats["cases"] += r["cases"]
        stats["queries"] += r["queries"]
        stats["suspect"] += r["suspect_q"]
        for k, v in r["by_kind"].items():
            b = stats["by_kind"].setdefault(k, [0, 0])
            b[0] += v[0]
            b[1] += v[1]
        for key in r["nontrivial"]:
            ctx.nontrivial((n, key))
        records += r["records"]
    ctx.count(stats["queries"])
    ctx.validated(stats["queries"])
    complete = stats["tlc_cases_done"] == ncase
    ctx.log(f"{label}: {len(tables)} DAGs x clocks = {ncase} TLC cases; replayed {stats['tlc_cases_done']} of them "
            f"({stats['dags_done']} DAGs{'' if complete else ', time budget reached'}) as {stats['cases']} histories, "
            f"{stats['queries']} real queries, {stats['suspect']} do not match the table "
            f"({', '.join(f'{k}:{v[1]}/{v[0]}' for k, v in sorted(stats['by_kind'].items()))})  [{time.time() - t0:.0f}s]")
    ctx.cov.setdefault("replay", []).append({"label": label, "n": n, "dags": len(tables), "tlc_cases": ncase,
                                             "dags_replayed": stats["dags_done"], "tlc_cases_replayed": stats["tlc_cases_done"],
                                             "complete": complete, "histories": stats["cases"], "queries": stats["queries"],
                                             "mismatch": stats["suspect"], "by_kind": stats["by_kind"]})
    return records


# --------------------------------------------------------------------------- random large histories
def random_history(rng, n, clock):
    """Criss-cross merges, octopus merges, several roots; clock: strict | ties | flat | skew | wild."""
    par = []
    chain = clock == "tiechain"                     # long runs of single-parent commits made in the same second
    if chain:
        clock = "flat"
    linear = 0.9 if chain else rng.choice((0.55, 0.55, 0.8))          # some histories are mostly long chains
    for c in range(1, n + 1):
        if c == 1 or rng.random() < (0.0 if chain else 0.04):
            par.append(())
            continue
        r = rng.random()
        k = 1 if r < linear else 2 if r < 0.92 else rng.randint(3, 4)
        window = range(max(1, c - (rng.choice((1, 1, 2)) if chain else rng.choice((1, 2, 4, 8, 30)))), c)
        k = min(k, len(window))
        par.append(tuple(sorted(rng.sample(list(window), k))))
    ts = [0] * n
    for c in range(1, n + 1):
        base = max((ts[p - 1] for p in par[c - 1]), default=0)
        if clock == "strict":
            ts[c - 1] = base + rng.randint(1, 3)
        elif clock == "ties":
            ts[c - 1] = max(1, base + (0 if rng.random() < 0.6 else 1))
        elif clock == "flat":                       # long runs of commits made within the same second
            ts[c - 1] = max(1, base + (0 if rng.random() < 0.93 else 1))
        elif clock == "skew":
            ts[c - 1] = max(1, base + rng.randint(1, 3) - (rng.randint(2, 12) if rng.random() < 0.15 else 0))
        else:
            ts[c - 1] = rng.randint(1, max(2, n // 2))
    return tuple(par), tuple(ts)


def run_random(task):
    """Worker: build one random history, ask random questions, ship everything."""
    import random
    seed, n, clock, nq, disk_root = task["seed"], task["n"], task["clock"], task["nq"], task.get("disk")
    rng = random.Random(seed)
    par, ts = random_history(rng, n, clock)
    repo = None
    if disk_root:
        from dulwich.repo import Repo
        os.makedirs(disk_root)
        repo = Repo.init_bare(disk_root)
    cuts = None
    if not disk_root and task.get("cuts") and n >= 6:
        # the repository's view of the history differs from the commit objects: shallow boundary / grafts
        cuts = {}
        for c in rng.sample(range(2, n + 1), rng.randint(1, 2)):
            if rng.random() < 0.5:
                cuts[c] = ("shallow",)
            else:
                cuts[c] = ("graft", sorted(rng.sample(range(1, c), rng.randint(0, min(2, c - 1)))))
    h = L.Hist(par, ts, None, repo=repo, salt=seed, cuts=cuts)
    par = h.par
    anc = L.table_from_par(par)
    ex = L.Expect(n, par, ts, None, anc=anc)
    lv = sorted(set(ts))

    def pick(k):
        # commits near each other are more likely to be related in interesting ways
        c = rng.randint(1, n)
        lo, hi = max(1, c - 12), min(n, c + 12)
        return sorted({c} | {rng.randint(lo, hi) for _ in range(k - 1)})

    def questions():
        qs = []
        for _ in range(nq):
            r = rng.random()
            if r < 0.16:
                a, b = rng.randint(1, n), rng.randint(1, n)
                qs.append(("mb", a, [b]))
            elif r < 0.22:
                s = pick(rng.randint(3, 4))
                if len(s) < 2:
                    s = sorted({s[0], 1 + s[0] % n})
                rng.shuffle(s)
                qs.append(("mb", s[0], s[1:]))
            elif r < 0.38:
                a, b = rng.randint(1, n), rng.randint(1, n)
                if rng.random() < 0.5 and anc[b - 1] >> (a - 1) & 1 == 0:
                    # bias towards true ancestors: the interesting direction for cut-offs
                    cand = L.set_of(anc[b - 1])
                    a = rng.choice(cand)
                qs.append(("ff", a, b))
            elif r < 0.46:
                s = pick(rng.randint(2, 4))
                rng.shuffle(s)
                qs.append(("oct", s))
            elif r < 0.53:
                s = pick(rng.randint(2, 4))
                rng.shuffle(s)
                qs.append(("ind", s))
            else:
                i = pick(rng.randint(1, 2))
                r2 = rng.random()
                if r2 < 0.25:
                    e = []
                elif r2 < 0.6:                      # an ancestor of the includes: a real "A..B" range
                    e = [rng.choice(L.set_of(ex.reach(L.mask_of(i))))]
                elif r2 < 0.85:                     # a descendant of an include ("is anything of A not in B?")
                    a = rng.choice(i)
                    desc = [c for c in range(a, n + 1) if anc[c - 1] >> (a - 1) & 1]
                    e = [rng.choice(desc)]
                else:
                    e = pick(rng.randint(1, 2))
                o = rng.randrange(9)
                kw = [{}, {}, dict(topo=1), dict(topo=1), dict(rev=1), dict(topo=1, rev=1), dict(maxe=rng.randint(1, n)),
                      dict(since=rng.choice(lv)), dict(until=rng.choice(lv), topo=rng.randrange(2))][o]
                qs.append(("walk", i, e, kw))
        if clock == "tiechain":
            # ranges whose excluded tip is many commits above the included one: the exclusion has to
            # travel down a long run of equal timestamps while the walk's slop counter is running
            for _ in range(8):
                a = rng.randint(1, max(1, n - 7))
                desc = [c for c in range(a + 6, n + 1) if anc[c - 1] >> (a - 1) & 1]
                if desc:
                    i = [a] if rng.random() < 0.6 else sorted({a, rng.randint(1, n)})
                    qs.append(("walk", i, [rng.choice(desc)], rng.choice([{}, {}, dict(topo=1), dict(rev=1)])))
        return qs

    plan = questions()

    def ask(hh):
        out = []
        for p in plan:
            if p[0] == "mb":
                out.append(L.q_mb(hh, p[1], p[2]))
            elif p[0] == "ff":
                out.append(L.q_ff(hh, p[1], p[2]))
            elif p[0] == "oct":
                out.append(L.q_oct(hh, p[1]))
            elif p[0] == "ind":
                out.append(L.q_ind(hh, p[1]))
            else:
                out.append(L.q_walk(hh, p[1], p[2], **p[3]))
        return out

    qs = ask(h)
    if disk_root:
        # --- the porcelain wrappers (and the command line) on the real repository: a branch at every
        #     tip and at a few other commits
        tips = [c for c in range(1, n + 1) if not any(c in p for p in par)]
        L.set_branches(h, sorted(set(tips) | {rng.randint(1, n) for _ in range(6)}))
        for c in rng.sample(h.branches, min(4, len(h.branches))):
            qs.append(L.q_pm(h, c))
        for _ in range(4):
            qs.append(L.q_pc(h, rng.randint(1, n)))
            qs.append(L.q_pa(h, rng.randint(1, n), rng.randint(1, n)))
            s_ = pick(rng.randint(2, 3))
            if len(s_) >= 2:
                rng.shuffle(s_)
                qs.append(L.q_pb(h, s_, octopus=rng.randrange(2), all_=rng.choice((1, 1, 0))))
                qs.append(L.q_pi(h, s_))
            qs.append(L.q_pr(h, pick(rng.randint(1, 2))))
        if task.get("cli"):
            qs += cli_branch_queries(disk_root, h, rng)
    nmiss = 0
    budget_m = 6
    for q in qs:
        ok, _ = ex.check(q)
        q["pre"] = 1 if ok else 0
        if not ok:
            nmiss += 1
            q["m"] = 1
        elif rng.random() < 0.08 and budget_m > 0:
            q["m"] = 1
            budget_m -= 1
    res = {"par": par, "ts": ts, "clock": clock, "n": n, "queries": len(qs), "mismatch": nmiss, "git": 0, "cg": 0}
    rec = h.record(0, qs)
    rec["mode"] = None
    rec["salt"] = seed
    recs = [rec]
    if disk_root:
        # --- C git as third opinion on the same objects
        import shutil
        have_git = shutil.which("git") is not None
        g = GitOracle(disk_root, h)
        ng = 0
        for q in qs:
            if ng >= task["ngit"] or not have_git:
                break
            a = g.answer(q)
            if a is not None:
                q["g"] = [a]
                ng += 1
                if q["pre"] == 1 and not ex.check(q)[0]:      # only the date-order clause can change it
                    q["pre"], q["m"] = 0, 1
                    nmiss += 1
        res["git"] = ng
        res["mismatch"] = nmiss
        # --- the same questions with a commit-graph file: complete, and stale/partial -- written when
        #     only a down-closed part of the history existed (a prefix of the numbering = "the file was
        #     written after commit b, more commits and merges straddling the boundary came later", or
        #     everything reachable from a few commits = "only some branches were covered"); by
        #     dulwich's writer and by git's.  A file written over a part of the history is byte for
        #     byte the file that would have been written when only that part existed.
        from dulwich.repo import Repo
        full = list(range(1, n + 1))
        b = rng.randint(1, n - 1)
        tips2 = sorted(rng.sample(full, rng.randint(1, 2)))
        covers = [("", full), ("-stale", list(range(1, b + 1))), ("-partial", L.set_of(ex.reach(L.mask_of(tips2))))]
        for writer in ("dulwich", "git") if have_git else ("dulwich",):
            for kind, cover in covers:
                if kind and len(cover) == n:
                    continue
                tag = writer + kind
                try:
                    write_commit_graph_file(disk_root, repo, h, par, writer, cover)
                except Exception as e:        # writing the file is C14's business; here only its use counts
                    res.setdefault("cg_skipped", []).append(f"{tag}: {type(e).__name__}: {e}"[:120])
                    continue
                r2 = Repo(disk_root)
                g2 = r2.object_store.get_commit_graph()
                if g2 is None or len(g2) != len(cover):
                    res.setdefault("cg_skipped", []).append(f"{tag}: commit-graph not loaded or covers {None if g2 is None else len(g2)} != {len(cover)}")
                    r2.close()
                    continue
                h2 = L.Hist.__new__(L.Hist)
                h2.__dict__.update(h.__dict__)
                h2.repo = r2
                qs2 = ask(h2)
                for c in rng.sample(h2.branches, min(2, len(h2.branches))):
                    qs2.append(L.q_pm(h2, c))
                qs2.append(L.q_pc(h2, rng.choice(cover)))
                if kind:
                    # questions across the boundary: every covered commit against commits outside
                    inside, outside = set(cover), [c for c in full if c not in cover]
                    for _ in range(12):
                        a, o = rng.choice(cover), rng.choice(outside)
                        qs2.append(L.q_ff(h2, a, o))
                        qs2.append(L.q_ff(h2, o, a))
                        qs2.append(L.q_mb(h2, a, [o]))
                    qs2.append(L.q_ind(h2, sorted({rng.choice(cover), rng.choice(outside), rng.choice(full)})))
                    qs2.append(L.q_walk(h2, [rng.choice(outside)], [rng.choice(cover)]))
                    qs2.append(L.q_walk(h2, [rng.choice(outside)], [], topo=1))
                for q in qs2:
                    ok, _ = ex.check(q)
                    q["pre"] = 1 if ok else 0
                    q["cg"] = tag
                    if not ok:
                        q["m"] = 1
                res["cg"] += len(qs2)
                res["mismatch"] += sum(1 for q in qs2 if q["pre"] == 0)
                rec2 = h2.record(0, qs2)
                rec2["mode"] = None
                rec2["salt"] = seed
                rec2["cgw"] = tag
                rec2["cg"] = sorted(cover)
                recs.append(rec2)
                r2.close()
        # --- multi-step: a complete commit-graph file is written (by dulwich's writer / git's), THEN the
        #     repository learns a shallow boundary or graft points (files on disk) and is opened afresh:
        #     the questions are about the history it presents now, the file still describes the objects
        for writer in ("dulwich", "git") if have_git else ("dulwich",):
            try:
                write_commit_graph_file(disk_root, repo, h, par, writer, full)
            except Exception as e:
                res.setdefault("cg_skipped", []).append(f"{writer}+cut: {type(e).__name__}: {e}"[:120])
                continue
            cuts3 = {}
            for c in rng.sample(range(2, n + 1), rng.randint(1, 2)):
                if par[c - 1] and rng.random() < 0.4:
                    cuts3[c] = ("shallow",)
                else:
                    cuts3[c] = ("graft", sorted(rng.sample(range(1, c), rng.randint(0, min(2, c - 1)))))
            h3 = cut_on_disk(disk_root, h, cuts3)
            g3 = h3.repo.object_store.get_commit_graph()
            if g3 is None or len(g3) != n:
                res.setdefault("cg_skipped", []).append(f"{writer}+cut: commit-graph not loaded")
            else:
                ex3 = L.Expect(n, h3.par, ts, None, anc=L.table_from_par(h3.par))
                qs3 = ask(h3)
                for c, _v in sorted(cuts3.items()):
                    d3 = rng.randint(c, n)
                    qs3 += [L.q_ff(h3, rng.randint(1, c), d3), L.q_mb(h3, c, [rng.randint(1, n)]), L.q_walk(h3, [d3], []),
                            L.q_walk(h3, [d3], [], topo=1)]
                for c in rng.sample(h3.branches, min(2, len(h3.branches))):
                    qs3.append(L.q_pm(h3, c))
                qs3.append(L.q_pc(h3, rng.randint(1, n)))
                for q in qs3:
                    ok, _ = ex3.check(q)
                    q["pre"] = 1 if ok else 0
                    q["cg"] = writer
                res["cg"] += len(qs3)
                res["mismatch"] += sum(1 for q in qs3 if q["pre"] == 0)
                rec3 = h3.record(0, qs3)
                rec3.update(mode=None, salt=seed, cgw=writer, cg=full)
                recs.append(rec3)
            h3.repo.close()
            for f in ("shallow", os.path.join("info", "grafts")):
                if os.path.exists(os.path.join(disk_root, f)):
                    os.remove(os.path.join(disk_root, f))
        repo.close()
    res["records"] = recs
    return res


def cli_branch_queries(root, h, rng):
    """`dulwich branch --merged / --no-merged / --contains` as a user would run them."""
    import sys
    head = rng.choice(h.branches)
    h.repo.refs.set_symbolic_ref(b"HEAD", b"refs/heads/c%d" % head)

    def run(*args):
        p = subprocess.run([sys.executable, "-m", "dulwich", "branch", *args], cwd=root, capture_output=True)
        if p.returncode != 0:
            return [-1]
        return L._bn(x.strip() for x in p.stdout.split() if x.strip())
    q = {"k": "pm", "h": head, "s": list(h.branches), "m": 0, "g": [], "cli": 1,
         "r": run("--merged"), "nr": run("--no-merged")}
    a = rng.randint(1, h.n)
    q2 = {"k": "pc", "a": a, "s": list(h.branches), "m": 0, "g": [], "cli": 1,
          "r": run("--contains", h.ids[a - 1].decode())}
    return [q, q2]


def cut_on_disk(root, h, cuts):
    """The repository at `root` (bare) learns about shallow boundaries / graft points the way a fetch
    --depth or an administrator leaves them: the `shallow` and `info/grafts` files.  Returns a copy of
    h opened afresh on the files, presenting the view."""
    from dulwich.repo import Repo
    sh = [h.ids[c - 1] for c, v in sorted(cuts.items()) if v[0] == "shallow"]
    gr = [(c, v[1]) for c, v in sorted(cuts.items()) if v[0] != "shallow"]
    if sh:
        with open(os.path.join(root, "shallow"), "wb") as f:
            f.write(b"".join(x + b"\n" for x in sh))
    if gr:
        os.makedirs(os.path.join(root, "info"), exist_ok=True)
        with open(os.path.join(root, "info", "grafts"), "wb") as f:
            f.write(b"".join(b" ".join([h.ids[c - 1]] + [h.ids[p - 1] for p in ps]) + b"\n" for c, ps in gr))
    h3 = L.Hist.__new__(L.Hist)
    h3.__dict__.update(h.__dict__)
    h3.repo = Repo(root)
    h3.cuts = dict(cuts)
    h3.obj_par = tuple(tuple(p) for p in h.par)
    eff = [tuple(p) for p in h.par]
    for c, v in cuts.items():
        eff[c - 1] = () if v[0] == "shallow" else tuple(v[1])
    h3.par = tuple(eff)
    return h3


def write_commit_graph_file(root, repo, h, par, writer, cover):
    """(Re)write objects/info/commit-graph so that it covers exactly the down-closed set `cover`."""
    path = os.path.join(root, "objects", "info", "commit-graph")
    if os.path.exists(path):
        os.remove(path)
    inside = set(cover)
    tips = [c for c in cover if not any(c in par[d - 1] for d in inside)]
    if writer == "dulwich":
        repo.object_store._commit_graph = None
        repo.object_store.write_commit_graph([h.ids[c - 1] for c in tips], reachable=True)
    else:
        subprocess.run(["git", "-C", root, "commit-graph", "write", "--stdin-commits"], check=True, capture_output=True,
                       input=b"".join(h.ids[c - 1] + b"\n" for c in tips))


class GitOracle:
    def __init__(self, root, h):
        self.root, self.h = root, h
        self.env = dict(os.environ, GIT_CONFIG_NOSYSTEM="1", HOME=root, TZ="UTC")

    def run(self, *args):
        return subprocess.run(["git", "-C", self.root, *args], capture_output=True, text=True, env=self.env)

    def ids(self, xs):
        return [self.h.ids[x - 1].decode() for x in xs]

    def nums(self, out):
        return [self.h.inv[l.strip().encode()] for l in out.split() if l.strip()]

    def answer(self, q):
        k = q["k"]
        if k == "mb":
            p = self.run("merge-base", "--all", *self.ids([q["a"]] + q["d"]))
            if p.returncode not in (0, 1):
                raise MachineryError(f"git merge-base failed: {p.stderr}")
            return sorted(self.nums(p.stdout))
        if k == "ff":
            p = self.run("merge-base", "--is-ancestor", *self.ids([q["a"], q["b"]]))
            if p.returncode not in (0, 1):
                raise MachineryError(f"git merge-base --is-ancestor failed: {p.stderr}")
            return 1 if p.returncode == 0 else 0
        if k == "oct":
            p = self.run("merge-base", "--all", "--octopus", *self.ids(q["s"]))
            if p.returncode not in (0, 1):
                raise MachineryError(f"git merge-base --octopus failed: {p.stderr}")
            return sorted(self.nums(p.stdout))
        if k == "ind":
            p = self.run("merge-base", "--independent", *self.ids(q["s"]))
            if p.returncode != 0:
                raise MachineryError(f"git merge-base --independent failed: {p.stderr}")
            return sorted(self.nums(p.stdout))
        if k == "walk":
            if q["max"] or q["since"] or q["until"]:
                return None
            args = ["rev-list"]
            if q["topo"]:
                args.append("--topo-order")
            if q["rev"]:
                args.append("--reverse")
            args += self.ids(q["i"])
            if q["e"]:
                args += ["--not"] + self.ids(q["e"])
            p = self.run(*args)
            if p.returncode != 0:
                raise MachineryError(f"git rev-list failed: {p.stderr}")
            return self.nums(p.stdout)
        return None


# --------------------------------------------------------------------------- TLC as judge
def judge(ctx, records, usemin, reduce, label):
    """records: list of history records with queries (each query carries 'pre': the harness's own
    pre-filter verdict).  Returns list of (record, query, clause, detail, clock, agrees)."""
    if not records:
        return []
    d = ctx.tmpdir("judge")
    cfg = os.path.join(d, "trace.cfg")
    tlc.write_cfg(cfg, spec="TraceSpec", constants={"MaxExtra": 5, "UseMinStamp": "TRUE" if usemin else "FALSE",
                                                    "Reduce": "TRUE" if reduce else "FALSE"})
    for i, r in enumerate(records):
        r["tid"] = i + 1
    # many chunks of roughly equal cost (bytes x history size), pulled by a pool of single-worker TLC runs
    keep = ("k", "a", "b", "d", "s", "i", "e", "topo", "rev", "since", "until", "max", "r", "base", "m", "g",
            "h", "nr", "oct", "all")
    lines = []
    for r in records:
        cut = [[] for _ in r["par"]]
        for c, v in (r.get("cuts") or {}).items():
            cut[int(c) - 1] = [0] if v[0] == "shallow" else [1] + list(v[1])
        o = {"tid": r["tid"], "par": r["par"], "ts": r["ts"], "rank": r["rank"], "cg": r.get("cg") or [],
             "opar": r.get("obj_par") or r["par"], "cut": cut,
             "q": [{k: q[k] for k in keep if k in q} for q in r["q"]]}
        line = json.dumps(o, separators=(",", ":"))
        lines.append((len(line) * (1 + len(r["par"]) / 12.0), line))
    total = sum(w for w, _ in lines)
    nchunks = max(1, min(ctx.pick(5, 40), int(total // 400000) + 1))
    target = total / nchunks
    paths, cur, vol = [], [], 0.0

    def flush():
        p = os.path.join(d, f"t{len(paths)}.ndjson")
        with open(p, "w") as f:
            f.write("\n".join(cur) + "\n")
        paths.append(p)
    for w, line in lines:
        cur.append(line)
        vol += w
        if vol >= target:
            flush()
            cur, vol = [], 0.0
    if cur:
        flush()
    del lines
    verdicts = {}
    seen_t = {}
    with cf.ThreadPoolExecutor(max_workers=MAX_TLC_WORKERS) as ex:
        futs = [ex.submit(TOKENS.run, "GraphTrace.tla", cfg, workers=1, timeout=3000, env={"TRACE_FILE": p},
                          java_opts=["-Xss64m"]) for p in paths]
        for ci, fu in enumerate(futs):
            res = fu.result()
            ctx.add_tlc(f"GraphTrace[{label}:{ci}]", res)
            lines = res.output.splitlines()
            li = 0
            while li < len(lines):
                line = lines[li]
                li += 1
                head = line.replace(" ", "")[:5]
                if head not in ('<<"V"', '<<"T"'):       # TLC prints a wrapped tuple as `<< "V",` + one element per line
                    continue
                while not line.rstrip().endswith(">>") and li < len(lines):     # TLC wraps long tuples
                    line += " " + lines[li].strip()
                    li += 1
                v = tlc.tlaval.parse(line.strip())
                if v[0] == "V":
                    verdicts[(v[1], v[2])] = v[3:]
                else:
                    seen_t[v[1]] = (v[2], v[3])
    if len(seen_t) != len(records):
        raise MachineryError(f"GraphTrace judged {len(seen_t)} of {len(records)} histories")
    out = []
    for r in records:
        if seen_t[r["tid"]][0] != len(r["q"]):
            raise MachineryError("GraphTrace lost queries")
        for k, q in enumerate(r["q"], 1):
            v = verdicts.get((r["tid"], k))
            clause, detail, clock, agrees = v if v else ("ok", "same", "", 1 if q.get("m") else 2)
            if clause == "SpecVsGit":
                raise MachineryError(f"specification disagrees with C git on {L.describe(r['par'], r['ts'], q)[0]} git={q.get('g')}")
            if (clause == "ok") != (q.get("pre", 1) == 1):
                raise MachineryError(f"harness pre-filter and GraphTrace disagree ({clause} vs pre={q.get('pre')}) on "
                                     f"{L.describe(r['par'], r['ts'], q)[0]}")
            out.append((r, q, clause, detail, clock, agrees))
    return out


def report(ctx, judged):
    """Group the failing verdicts, report the smallest case of each group; report drift."""
    groups = {}
    ndrift = 0
    for (r, q, clause, detail, clock, agrees) in judged:
        if agrees == 0 and clause == "ok":
            # the answer is right but not the one the transcription of the algorithm predicts
            ndrift += 1
            if ndrift <= 5:
                ctx.drift_event(f"Graph.tla transcription does not predict {L.describe(r['par'], r['ts'], q)[0]} (mode={r.get('mode')})")
            else:
                ctx.cov["drift"] += 1
        if clause == "ok":
            continue
        how = {1: "as-transcribed", 0: "not-as-transcribed", 2: "transcription-not-run"}[agrees]
        cg = q.get("cg", "")
        if cg:      # which kind of history: the commit-graph format treats merges of 3+ parents specially
            octo = any(len(r["par"][c - 1]) > 2 for c in L.relevant(r["par"], q))
            cg = f"commit-graph={cg},{'octopus-merge-in-history' if octo else 'no-octopus-merge'}"
        if r.get("cuts"):
            cg = (cg + "," if cg else "") + "shallow-or-graft-view"
        site = L.SITES[q["k"]] if not q.get("cli") else "dulwich/cli.py:branch"
        key = (site, clause, detail, clock, how, cg)
        s, size = L.describe(r["par"], r["ts"], q)
        if r.get("cg"):         # extent of the commit-graph, in the numbering of the printed case
            keep = L.relevant(r["par"], q)
            s += f",commit-graph-covers={[i + 1 for i, c in enumerate(keep) if c in set(r['cg'])]}".replace(" ", "")
        g = groups.get(key)
        if g is None:
            groups[key] = [1, size, s, r, q]
        else:
            g[0] += 1
            if size < g[1]:
                g[1:] = [size, s, r, q]
    for key in sorted(groups):
        cnt, size, s, r, q = groups[key]
        site, clause, detail, clock, how, cg = key
        sig = f"{site}|{clause}|{detail},{clock},{how}{',' + cg if cg else ''}|{s}"
        what = (f"{clause}: {site.split(':')[1]} does not give the graph-theoretic answer ({detail}; clock of the part of "
                f"history involved: {clock}; {how}); {cnt} failing queries in this run, smallest: {s}")
        ctx.violation(sig, what, {"clause": clause, "detail": detail, "clock": clock, "how": how, "count": cnt,
                                  "record": {k: r[k] for k in ("par", "ts", "rank", "mode", "cuts", "obj_par") if k in r}
                                  | {"salt": r.get("salt", 0), "cgw": r.get("cgw", q.get("cg", "")), "cg": r.get("cg", [])},
                                  "query": q, "case": s, "variant": ctx.cov.get("graph_py_variant", {})})
    ctx.cov.setdefault("failing_groups", []).extend(
        [{"group": "|".join(x for x in k if x), "count": v[0], "smallest": v[2]} for k, v in sorted(groups.items())])
    return groups


# --------------------------------------------------------------------------- entry
def run(ctx):
    d = ctx.tmpdir("c13")
    jobs = Jobs(w=ctx.pick(2, 4))
    seed = ctx.seed
    # ---- 1. negative controls: TLC must find that today's algorithm is inexact (and under which clocks)
    jobs.submit("neg_ff", "GraphMC.tla", mc_cfg(ctx, d, "neg_ff", n=3, l=3, mode="ff", usemin=True, reduce=False, inv=["Exact"]), workers=2)
    jobs.submit("neg_lcas", "GraphMC.tla", mc_cfg(ctx, d, "neg_lcas", n=4, l=2, mode="lcas", usemin=True, reduce=False,
                                                  tiebreak="asc", inv=["Exact"]), workers=2)
    # ---- 2. TLC enumerates the cases (spec -> code input)
    jobs.submit("cases4", "GraphCases.tla", cases_cfg(d, "cases4", 4, 4, 0, seed), dump_states=os.path.join(d, "cases4"), workers=2)
    if ctx.quick:
        jobs.submit("cases5", "GraphCases.tla", cases_cfg(d, "cases5", 5, 5, 3, seed), dump_states=os.path.join(d, "cases5"), workers=2)
    else:
        jobs.submit("cases5", "GraphCases.tla", cases_cfg(d, "cases5", 5, 5, 0, seed), dump_states=os.path.join(d, "cases5"), workers=2)
    jobs.submit("views4", "GraphViews.tla", views_cfg(d, "views4", 4), dump_states=os.path.join(d, "views4"), workers=1)
    jobs.submit("views5", "GraphViews.tla", views_cfg(d, "views5", 5), dump_states=os.path.join(d, "views5"), workers=2)
    jobs.submit("neg_walk", "GraphMC.tla", mc_cfg(ctx, d, "neg_walk", n=4, l=3, mode="walk", usemin=True, reduce=False,
                                                  maxextra=1, inv=["WalkExcludes"]), workers=2)
    if not ctx.quick:
        jobs.submit("cases6", "GraphCases.tla", cases_cfg(d, "cases6", 6, 6, 4, seed), dump_states=os.path.join(d, "cases6"), workers=4)
    neg = {}

    def negative_control(name, expect):
        r = jobs.get(name)
        ctx.add_tlc(f"GraphMC {name} (negative control: today's algorithm, any clock, expects {expect} violated)", r, require_ok=False)
        if expect not in r.violated:
            raise MachineryError(f"negative control {name} did not find {expect}\n{r.output[-2000:]}")
        neg[name] = r
    negative_control("neg_ff", "Exact")
    negative_control("neg_lcas", "Exact")
    # the counterexamples are replayed on the real functions; that also tells which variant of
    # graph.py this tree implements (today's, or the repaired one of out/proposed_fixes)
    usemin = replay_cex(ctx, neg["neg_ff"], "ff") != "exact"
    reduce = replay_cex(ctx, neg["neg_lcas"], "lcas") == "exact"
    ctx.cov["graph_py_variant"] = {"UseMinStamp": usemin, "Reduce": reduce}
    ctx.log(f"graph.py variant implemented by this tree: UseMinStamp={usemin} Reduce={reduce}")
    # ---- 3. the algorithms as state machines against the definitions
    exact = ["Exact"] if (reduce and not usemin) else []
    rep = ["Exact", "FfFromLcasExact"]
    mcs = []
    if ctx.quick:
        mcs.append(("mc_lcas", dict(n=4, l=3, mode="lcas", usemin=usemin, reduce=reduce, maxd=1, inv=INV_LCAS + exact)))
        mcs.append(("mc_ff", dict(n=4, l=3, mode="ff", usemin=usemin, reduce=reduce, tiebreak="asc", inv=INV_FF + exact)))
        mcs.append(("mc_walk", dict(n=4, l=3, mode="walk", usemin=usemin, reduce=reduce, maxd=1, maxextra=1, inv=INV_WALK)))
        mcs.append(("mc_repaired", dict(n=4, l=3, mode="lcas", usemin=False, reduce=True, maxd=1, tiebreak="desc", inv=INV_LCAS + rep)))
    else:
        mcs.append(("mc_repaired5", dict(n=5, l=2, mode="lcas", usemin=False, reduce=True, maxd=1, tiebreak="asc", inv=INV_LCAS + rep)))
        mcs.append(("mc_lcas5", dict(n=5, l=2, mode="lcas", usemin=usemin, reduce=reduce, maxd=1, tiebreak="asc", inv=INV_LCAS + exact)))
        mcs.append(("mc_ff5", dict(n=5, l=2, mode="ff", usemin=usemin, reduce=reduce, tiebreak="asc", inv=INV_FF + exact)))
        mcs.append(("mc_lcas4", dict(n=4, l=4, mode="lcas", usemin=usemin, reduce=reduce, maxd=3, inv=INV_LCAS + exact)))
        mcs.append(("mc_ff4", dict(n=4, l=4, mode="ff", usemin=usemin, reduce=reduce, inv=INV_FF + exact)))
        mcs.append(("mc_repaired4", dict(n=4, l=4, mode="lcas", usemin=False, reduce=True, maxd=3, inv=INV_LCAS + rep)))
        for me, lv in ((1, 4), (2, 3), (5, 3)):
            mcs.append((f"mc_walk4_slop{me}", dict(n=4, l=lv, mode="walk", usemin=usemin, reduce=reduce, maxd=2, maxextra=me, inv=INV_WALK)))
        mcs.append(("mc_walk5", dict(n=5, l=2, mode="walk", usemin=usemin, reduce=reduce, maxd=1, maxextra=1, tiebreak="asc", inv=INV_WALK)))
    for name, kw in mcs:
        # quick: leave at least two of the eight TLC workers to the enumeration / judging runs
        w = (1 if name in ("mc_ff", "mc_repaired") else 2) if ctx.quick else 4
        jobs.submit(name, "GraphMC.tla", mc_cfg(ctx, d, name, **kw), coverage=False, workers=w)

    # ---- 4. spec -> code: replay every enumerated case on the real functions
    records = []
    pool = mp.get_context("fork").Pool(PROCS)

    def enumerated(name, n, l, k, what):
        """Result of a GraphCases run: (tables, cases).  The dump must hold a table for every canonical
        DAG and the number of states TLC reports; a short dump (seen once on an overloaded machine)
        is regenerated once, then it is a machinery failure."""
        for attempt in (1, 2):
            r = jobs.get(name)
            ctx.add_tlc(f"GraphCases N={n}: {what}" + ("" if attempt == 1 else " (second attempt)"), r)
            path = os.path.join(d, name)
            try:
                tables, cases = L.read_cases(path)
                ncases = sum(len(v) for v in cases.values())
                if len(tables) != 2 ** (n * (n - 1) // 2) or set(cases) != set(tables) or \
                        2 * len(tables) + ncases != r.distinct:
                    raise ValueError(f"{len(tables)} tables, {ncases} cases, TLC reported {r.distinct} states")
                os.remove(path + ".dump")
                return tables, cases
            except ValueError as e:
                if attempt == 2:
                    raise MachineryError(f"state dump of {name} unusable: {e}")
                ctx.log(f"state dump of {name} unusable ({e}); running TLC again")
                jobs.submit(name, "GraphCases.tla", cases_cfg(d, name, n, l, k, seed), dump_states=path, workers=4)
    try:
        e4 = enumerated("cases4", 4, 4, 0, "all 64 canonical DAGs x all 75 weak orders of timestamps")
        records += replay_dump(ctx, pool, 4, e4, "N=4 exhaustive", ctx.pick(22, 240))
        e5 = enumerated("cases5", 5, 5, ctx.pick(3, 0), "all 1024 canonical DAGs x "
                        + ("3 sampled" if ctx.quick else "all 541") + " weak orders")
        records += replay_dump(ctx, pool, 5, e5, "N=5 " + ("sampled clocks" if ctx.quick else "exhaustive"), ctx.pick(10, 420))
        # ---- 4b. spec -> code: the repository's view differs from the commit objects (shallow / graft)
        #      while a commit-graph written earlier still covers the cut commit
        records += replay_views(ctx, pool, 4, jobs.get("views4"), os.path.join(d, "views4"), e4[1], None,
                                "N=4 views (shallow/graft x stale commit-graph)")
        records += replay_views(ctx, pool, 5, jobs.get("views5"), os.path.join(d, "views5"), e5[1], ctx.pick(400, None),
                                "N=5 views (shallow/graft x stale commit-graph)" + (" sampled" if ctx.quick else ""))
        del e4, e5
        if not ctx.quick:
            records += replay_dump(ctx, pool, 6, enumerated("cases6", 6, 6, 4, "all 32768 canonical DAGs x 4 sampled weak orders"),
                                   "N=6 sampled clocks", 180)
        # ---- 5. code -> spec: random large histories, disk repositories, commit-graph, C git
        nbig = ctx.pick(360, 2500)
        ndisk = ctx.pick(14, 120)
        tasks = []
        clocks = ["strict", "ties", "skew", "flat", "wild", "ties", "tiechain"]
        for i in range(nbig):
            if ctx.quick:
                n = ctx.rng.choice([8, 10, 12, 16, 24, 40])
            else:
                n = ctx.rng.choice([8, 12, 16, 24, 40] * 7 + [80] * 8 + [150] * 5 + [300] * 2)
            nq = 30 if ctx.quick else (50 if n <= 40 else 30 if n == 80 else 20 if n == 150 else 12)
            ck = clocks[i % 7]
            if ck == "tiechain":
                n, nq = ctx.rng.choice([10, 14, 20, 30]), 10
            t = dict(seed=seed * 100003 + i, n=n, clock=ck, nq=nq, ngit=ctx.pick(40, 60), cuts=(i % 5 == 4))
            if i < ndisk:
                t["n"] = min(n, 60)
                t["disk"] = os.path.join(d, f"disk{i}")
                t["cli"] = i < ctx.pick(3, 30)
            tasks.append(t)
        t0 = time.time()
        big = {"histories": 0, "queries": 0, "mismatch": 0, "git": 0, "cg": 0, "cg_skipped": []}
        for r in pool.imap_unordered(run_random, tasks, chunksize=1):
            big["histories"] += 1
            for k in ("queries", "mismatch", "git", "cg"):
                big[k] += r[k]
            big["cg_skipped"] += r.get("cg_skipped", [])
            records += r["records"]
            ctx.nontrivial(("big", r["n"], L.crc(r["par"], r["ts"])))
            if r["n"] >= 16:
                ctx.sample({"kind": "random history", "n": r["n"], "clock": r["clock"], "par": r["par"][:12], "ts": r["ts"][:12],
                            "first_query": r["records"][0]["q"][0]}, limit=2)
        ctx.count(big["queries"] + big["cg"])
        ctx.validated(big["queries"] + big["cg"])
        big["cg_skipped"] = big["cg_skipped"][:5]
        ctx.cov["random_histories"] = big
        ctx.log(f"random histories: {big['histories']} (up to {max(t['n'] for t in tasks)} commits), {big['queries']} real queries, "
                f"{big['mismatch']} suspect, {big['git']} also answered by C git, {big['cg']} repeated with a commit-graph  [{time.time() - t0:.0f}s]")
    finally:
        pool.close()
        pool.join()

    # ---- 6. TLC judges
    t0 = time.time()
    judged = judge(ctx, records, usemin, reduce, "all")
    nbad = sum(1 for j in judged if j[2] != "ok")
    ctx.log(f"GraphTrace judged {len(judged)} recorded answers in {len(records)} histories: {nbad} contradict a clause  [{time.time() - t0:.0f}s]")
    groups = report(ctx, judged)
    for j in judged:
        if j[2] == "ok" and j[1]["k"] == "walk" and j[1]["e"]:
            ctx.sample({"kind": "judged ok", "par": j[0]["par"], "ts": j[0]["ts"], "query": {k: v for k, v in j[1].items() if k not in ("pre",)}}, limit=4)
            break
    for j in judged:
        if j[2] != "ok":
            ctx.sample({"kind": "judged failing", "clause": j[2], "case": L.describe(j[0]["par"], j[0]["ts"], j[1])[0]}, limit=5)
            break

    # ---- 7. collect the model-checking runs
    negative_control("neg_walk", "WalkExcludes")
    for name, kw in mcs:
        r = jobs.get(name)
        ctx.add_tlc(f"GraphMC {name} N={kw['n']} L={kw['l']} mode={kw['mode']} UseMinStamp={kw['usemin']} Reduce={kw['reduce']} "
                    f"MaxD={kw.get('maxd', 1)} MaxExtra={kw.get('maxextra', 5)} invariants={'+'.join(kw['inv'])}", r)
    jobs.ex.shutdown()

    ctx.cov["rule"] = ("a case = one question (merge base of c and a set, fast-forward test, octopus base, independence filter, "
                       "history walk with options) put to the real dulwich function on a real repository built from a history; "
                       "histories: every canonical DAG x weak order of timestamps TLC enumerates (N=4 exhaustive, N=5 "
                       + ("3 sampled clocks per DAG" if ctx.quick else "exhaustive, N=6 with 4 sampled clocks per DAG; see coverage.replay for how many were replayed inside the time budget")
                       + "), both id-order tie-breaks where timestamps tie, plus random histories of 8..300 commits; "
                       "distinct_nontrivial counts distinct histories that have at least one edge and two different timestamps")
    ctx.assumptions += [
        "commit numbering is canonical (parents have smaller numbers); every DAG is isomorphic to a canonical one",
        "timestamps enter only through their relative order (weak orders incl. ties); real times are 1600000000 + 1000*level",
        "tie-breaks of both priority queues are by commit id: explored as id order = numbering order and its reverse (ids mined)",
        "history walks: exclusion/since exactness only demanded for monotone clocks (statement); paths/follow not modelled",
        "C git 2.39.5 is a third opinion on a sample; it first validates the specification",
        "grafts and shallow boundaries: one cut commit per history in the enumerated views (N<=5), 1-2 in random histories; "
        "the commit-graph is always one generated from the commit objects (written before the cut)",
    ]
    return ctx.finish(exhaustive=False)


def replay(ctx, path):
    obj = json.load(open(path))
    rec, q = obj["record"], obj["query"]
    print(f"property C13  clause {obj.get('clause')}  ({obj.get('detail')}, clock {obj.get('clock')}, {obj.get('how')})")
    print(f"recorded case: {obj.get('case')}")
    par = tuple(tuple(p) for p in rec["par"])
    ts = tuple(rec["ts"])
    repo = None
    d = ctx.tmpdir("replay")
    cgw = rec.get("cgw") or ""
    cover = rec.get("cg") or list(range(1, len(par) + 1))
    on_disk = bool(cgw) and cgw != "dulwich-memory"
    if on_disk:
        from dulwich.repo import Repo
        root = os.path.join(d, "disk")
        os.makedirs(root)
        repo = Repo.init_bare(root)
    cuts = {int(c): tuple(v) for c, v in (rec.get("cuts") or {}).items()} or None
    if cuts:
        par = tuple(tuple(p) for p in rec["obj_par"])
    disk_cuts = cuts if on_disk else None
    h = L.Hist(par, ts, rec.get("mode"), repo=repo, salt=rec.get("salt", 0), cuts=None if on_disk else cuts)
    par = h.par
    if cuts:
        print(f"repository view differs from the commit objects: {cuts}")
    if cgw:
        print(f"commit-graph: {cgw}, covering commits {cover}")
    if on_disk:
        from dulwich.repo import Repo
        write_commit_graph_file(root, repo, h, par, cgw.split("-")[0], cover)
        if disk_cuts:       # the order the recorded repository lived: commit-graph first, then the cut
            h = cut_on_disk(root, h, disk_cuts)
            par = h.par
        else:
            h.repo = Repo(root)
    elif cgw:
        L.attach_commit_graph(h, cover)
    k = q["k"]
    if k == "mb":
        q2 = L.q_mb(h, q["a"], q["d"])
    elif k == "ff":
        q2 = L.q_ff(h, q["a"], q["b"])
    elif k == "oct":
        q2 = L.q_oct(h, q["s"])
    elif k == "ind":
        q2 = L.q_ind(h, q["s"])
    elif k in ("pm", "pc", "pa", "pb", "pi", "pr"):
        if not on_disk:
            L.use_memory_refs(h)
        if k in ("pm", "pc"):
            L.set_branches(h, q["s"])
            print(f"branches refs/heads/c<n> at commits {q['s']}" + (" (recorded through the command line; replayed through porcelain)" if q.get("cli") else ""))
        q2 = {"pm": lambda: L.q_pm(h, q["h"]), "pc": lambda: L.q_pc(h, q["a"]), "pa": lambda: L.q_pa(h, q["a"], q["b"]),
              "pb": lambda: L.q_pb(h, q["s"], q["oct"], q["all"]), "pi": lambda: L.q_pi(h, q["s"]),
              "pr": lambda: L.q_pr(h, q["i"])}[k]()
    else:
        q2 = L.q_walk(h, q["i"], q["e"], q["topo"], q["rev"], q["since"], q["until"], q["max"])
    q2["m"] = 1 if k in ("mb", "ff", "oct", "ind", "walk") else 0
    ex = L.Expect(len(par), par, ts, None, anc=L.table_from_par(par))
    q2["pre"] = 1 if ex.check(q2)[0] else 0
    print("history: commit -> parents, timestamp level, id")
    for c in range(1, h.n + 1):
        print(f"  {c}: parents={list(par[c - 1])} ts={ts[c - 1]} id={h.ids[c - 1].decode()[:12]}")
    print(f"question: {L.describe(par, ts, q2)[0]}")
    print(f"real answer now: {q2['r']}   (recorded: {q['r']})" + (f"  exception: {q2['exc']}" if "exc" in q2 else ""))
    r = h.record(1, [q2])
    r["cg"] = cover if cgw else []
    r["mode"] = rec.get("mode")
    ctx.known = []
    um = obj.get("variant", {}).get("UseMinStamp", True)
    rd = obj.get("variant", {}).get("Reduce", False)
    judged = judge(ctx, [r], um, rd, "replay")
    _, _, clause, detail, clock, agrees = judged[0]
    print(f"TLC (GraphTrace) verdict: {clause}  detail={detail} clock={clock} transcription-predicts-it={agrees}")
    if clause != "ok":
        print(f"VIOLATION property=C13 replay={path}")
        return 1
    print("the recorded failure does not reproduce on this tree")
    return 0

"""C09 -- a crash at any instant leaves a repository that opens and is consistent.

Spec: specs/Crash.tla (RecoveryInv over every crash state + ordering obligations between
consecutive states).  Binding:
  T  each operation runs once on a real repository under os-level interposition; after every
     mutating file-system call the directory is snapshotted (= the state a process crash at that
     boundary leaves; user-space buffers are lost by construction) and projected to the abstract
     state (valid loose objects, packs with/without index, loose and packed refs, validity of
     index/config/packed-refs); TLC evaluates RecoveryInv and the ordering obligations on the
     whole recorded sequence; power-loss variants (non-fsynced data dropped) are added when
     core.fsyncObjectFiles is on;
  R  every such crash state is materialised and the REAL recovery check runs on it (Repo opens,
     refs resolve to old or new values, closure of every ref and everything reachable before is
     readable and re-hashes to its name, every visible pack verifies, index and config parse);
  +  death by exception: KeyboardInterrupt (thorough: also EIO) injected at every call, the
     unwound directory is checked the same way.
A VIOLATION is raised only by the real recovery check; a disagreement between the abstract and the
real verdict is drift (projection error).
"""
from __future__ import annotations

import errno
import hashlib
import json
import os
import re
import shutil
import subprocess
import sys
import zlib

from .. import sched, tlc
from ..core import REPO, MachineryError

ID = b"a <a@example.com>"


# --------------------------------------------------------------------------- repository builders
def _commit(r, tree_id, parents, msg, t):
    from dulwich.objects import Commit
    c = Commit()
    c.tree = tree_id
    c.parents = parents
    c.author = c.committer = ID
    c.author_time = c.commit_time = t
    c.author_timezone = c.commit_timezone = 0
    c.message = msg
    r.object_store.add_object(c)
    return c.id


def _tree(r, files):
    from dulwich.objects import Blob, Tree
    t = Tree()
    for name, data in files.items():
        b = Blob.from_string(data)
        r.object_store.add_object(b)
        t.add(name, 0o100644, b.id)
    r.object_store.add_object(t)
    return t.id


def build_repo(root, layout, fsync):
    """layout in {loose, packed, mixed}: two commits on master, a topic branch, a tag."""
    from dulwich.repo import Repo
    r = Repo.init(root)
    cfg = r.get_config()
    cfg.set((b"core",), b"fsyncObjectFiles", b"true" if fsync else b"false")
    cfg.write_to_path()
    r.close()
    r = Repo(root)
    t1 = _tree(r, {b"a": b"one\n" * 20, b"b": b"bee\n"})
    c1 = _commit(r, t1, [], b"c1", 100)
    t2 = _tree(r, {b"a": b"one\n" * 20 + b"two\n", b"b": b"bee\n"})
    c2 = _commit(r, t2, [c1], b"c2", 200)
    r.refs[b"refs/heads/master"] = c2
    r.refs.set_symbolic_ref(b"HEAD", b"refs/heads/master")
    r.refs[b"refs/heads/topic"] = c1
    r.refs[b"refs/tags/v1"] = c1
    if layout in ("packed", "mixed"):
        r.object_store.pack_loose_objects()
        r.refs.pack_refs(all=True)
    if layout == "mixed":
        t3 = _tree(r, {b"a": b"three\n", b"c": b"sea\n"})
        c3 = _commit(r, t3, [c2], b"c3", 300)
        r.refs[b"refs/heads/master"] = c3
        # an unreachable (orphan) commit with its own tree and blob
        t4 = _tree(r, {b"orphan": b"nobody points here\n"})
        _commit(r, t4, [c1], b"orphan", 350)
        # an unreachable loose object
        from dulwich.objects import Blob
        r.object_store.add_object(Blob.from_string(b"garbage\n"))
    r.close()


def _frozen_clock(op):
    """The exception/retry modes re-execute a scenario and compare with the refs of the first run: an operation that
    stamps commits with the wall clock must produce the same object ids every time."""
    import functools
    import time as _time

    @functools.wraps(op)
    def w(r):
        real = _time.time
        _time.time = lambda: 1_000_000_000.0
        try:
            return op(r)
        finally:
            _time.time = real
    return w


def scenarios():
    S = {}

    def add_object(r):
        from dulwich.objects import Blob
        r.object_store.add_object(Blob.from_string(b"new blob\n" * 50))
    S["add_object"] = add_object

    def add_objects_pack(r):
        from dulwich.objects import Blob
        objs = [(Blob.from_string(b"packed blob %d\n" % i * 30), None) for i in range(4)]
        r.object_store.add_objects(objs)
    S["add_objects(pack)"] = add_objects_pack

    def repack_same_set(r):
        # the objects of an existing pack are packed AGAIN, in another order, by a process whose pack cache is cold
        # (a re-run of an interrupted fetch, a second writer): the pack name is the same, the bytes are not
        from dulwich.repo import Repo
        other = Repo(r.path)
        try:
            packs = list(other.object_store.packs)
            if packs:
                pk = max(packs, key=len)
                objs = [pk[sha] for sha in pk.index]
            else:
                objs = [other.object_store[sha] for sha in sorted(other.object_store)]
        finally:
            other.close()
        objs.sort(key=lambda o: (o.type_num, o.id), reverse=True)
        r.object_store.add_objects([(o, None) for o in objs])
    S["add_objects(same set again, cold cache)"] = repack_same_set

    def add_thin_pack(r):
        sys.path.insert(0, REPO)
        from io import BytesIO

        from dulwich.pack import REF_DELTA
        from dulwich.tests.utils import build_pack
        base = r.refs[b"refs/heads/topic"]
        t = r.object_store[base].tree
        blob_id = r.object_store[t][b"a"][1]
        f = BytesIO()
        build_pack(f, [(REF_DELTA, (blob_id, b"one\n" * 20 + b"delta!\n"))], store=r.object_store)
        f.seek(0)
        r.object_store.add_thin_pack(f.read, None)
    S["add_thin_pack"] = add_thin_pack

    def commit(r):
        head = r.refs[b"refs/heads/master"]
        t = _tree(r, {b"a": b"committed\n", b"z": b"zed\n"})
        r.get_worktree().commit(message=b"new", committer=ID, author=ID, commit_timestamp=400, commit_timezone=0,
                                author_timestamp=400, author_timezone=0, tree=t)
    S["commit"] = commit

    def set_ref(r):
        old = r.refs[b"refs/heads/topic"]
        new = r.refs[b"refs/heads/master"]
        assert r.refs.set_if_equals(b"refs/heads/topic", old, new)
    S["set_ref"] = set_ref

    def del_ref(r):
        old = r.refs[b"refs/heads/topic"]
        assert r.refs.remove_if_equals(b"refs/heads/topic", old)
    S["del_ref"] = del_ref

    def del_ref_shadowed(r):
        # the loose value (set after packing, see PREP) shadows an older packed value
        old = r.refs[b"refs/heads/topic"]
        assert r.refs.remove_if_equals(b"refs/heads/topic", old)
    S["del_ref(loose shadows packed)"] = del_ref_shadowed

    def new_ref(r):
        assert r.refs.add_if_new(b"refs/heads/feature/x", r.refs[b"refs/heads/master"])
    S["new_ref"] = new_ref

    def pack_refs(r):
        r.refs.pack_refs(all=True)
    S["pack_refs"] = pack_refs

    def pack_loose(r):
        r.object_store.pack_loose_objects()
    S["pack_loose_objects"] = pack_loose

    def repack(r):
        r.object_store.repack()
    S["repack"] = repack

    def gc0(r):
        from dulwich.gc import garbage_collect
        garbage_collect(r, grace_period=0, auto=False) if "auto" in garbage_collect.__code__.co_varnames else garbage_collect(r, grace_period=0)
    S["gc(grace=0)"] = gc0

    def gc_prune(r):
        from dulwich.gc import garbage_collect
        garbage_collect(r, grace_period=None)
    S["gc(grace=None)"] = gc_prune

    def _source_with_new_commit(r):
        """a sibling repository (outside the interposed root) that holds everything r has plus one commit."""
        import tempfile
        from dulwich.repo import Repo
        src_dir = tempfile.mkdtemp(prefix="c09src-", dir=os.path.dirname(os.path.dirname(r.path.rstrip("/"))))
        src = Repo.init(src_dir)
        for sha in r.object_store:
            src.object_store.add_object(r.object_store[sha])
        head = r.refs[b"refs/heads/master"]
        t = _tree(src, {b"a": b"pushed\n", b"p": b"from the other side\n" * 9})
        c = _commit(src, t, [head], b"remote work", 500)
        src.refs[b"refs/heads/master"] = c
        return src, c, head

    def receive_push(r):
        # a push INTO r (receive-pack in-process: pack ingested, then the ref moved)
        from dulwich.client import LocalGitClient
        src, c, head = _source_with_new_commit(r)
        try:
            def update_refs(refs):
                return {b"refs/heads/master": c}
            LocalGitClient().send_pack(r.path, update_refs, src.generate_pack_data)
        finally:
            src.close()
    S["receive_push(local)"] = receive_push

    def _receive_pack_server(atomic):
        def op(r):
            # the server side of a push, end to end: ReceivePackHandler reads the commands and the pack from the
            # wire, ingests the pack, then updates / creates / deletes refs and reports
            from io import BytesIO
            from dulwich.pack import write_pack_data
            from dulwich.protocol import ReceivableProtocol, pkt_line
            from dulwich.server import DictBackend, ReceivePackHandler
            src, c, head = _source_with_new_commit(r)
            try:
                count, recs = src.generate_pack_data({head}, {c})
                pk = BytesIO()
                write_pack_data(pk.write, recs, src.object_format, num_records=count)
            finally:
                src.close()
            Z = b"0" * 40
            topic = r.refs[b"refs/heads/topic"]
            caps = b"report-status delete-refs" + (b" atomic" if atomic else b"")
            req = (pkt_line(head + b" " + c + b" refs/heads/master\0" + caps + b"\n")
                   + pkt_line(topic + b" " + Z + b" refs/heads/topic\n")
                   + pkt_line(Z + b" " + c + b" refs/heads/pushed/new\n")
                   + pkt_line(None) + pk.getvalue())
            inp, out = BytesIO(req), BytesIO()
            proto = ReceivableProtocol(inp.read, out.write)
            ReceivePackHandler(DictBackend({"/": r}), ["/"], proto).handle()
            if b"unpack ok" not in out.getvalue():
                raise AssertionError(f"server refused the push: {out.getvalue()[-200:]!r}")
        return op
    S["receive_pack(server handler)"] = _receive_pack_server(False)
    S["receive_pack(server handler, atomic)"] = _receive_pack_server(True)

    def deepen(r):
        # a shallow clone (see PREP) is deepened by one commit over the wire protocol (C git's upload-pack as a
        # subprocess): the new boundary must not be recorded before the objects above it are installed
        from dulwich.client import SubprocessGitClient
        src = os.path.join(os.path.dirname(r.path.rstrip("/")), "deepsrc")
        SubprocessGitClient().fetch(src, r, depth=2)
    S["fetch(deepen a shallow clone)"] = deepen

    def fetch_into(r):
        from dulwich import porcelain
        src, c, head = _source_with_new_commit(r)
        try:
            import io
            porcelain.fetch(r, src.path, outstream=io.BytesIO(), errstream=io.BytesIO())
        finally:
            src.close()
    S["fetch(local)"] = fetch_into

    def index_write(r):
        from dulwich.index import IndexEntry
        idx = r.open_index()
        for i in range(3):
            idx[b"f%d" % i] = IndexEntry((1, 0), (1, 0), 1, 1, 0o100644, 0, 0, 3, b"1" * 40, 0, 0)
        idx.write()
    S["index_write"] = index_write

    def switch_head(r):
        # HEAD re-pointed at another branch (what checkout/switch do to the repository proper)
        r.refs.set_symbolic_ref(b"HEAD", b"refs/heads/topic")
    S["set_symbolic_ref(HEAD)"] = switch_head

    def tag_annotated(r):
        from dulwich import porcelain
        porcelain.tag_create(r, b"v2", author=ID, message=b"second release", annotated=True, objectish=b"refs/heads/master",
                             tag_time=600, tag_timezone=0, sign=False)
    S["tag_create(annotated)"] = tag_annotated

    def write_cg(r):
        r.object_store.write_commit_graph()
    S["write_commit_graph"] = write_cg

    def write_midx(r):
        r.object_store.write_midx()
    S["write_midx"] = write_midx

    def add_and_commit(r):
        # the everyday sequence: a file in the work tree is staged, then committed
        from dulwich import porcelain
        with open(os.path.join(r.path, "newfile.txt"), "wb") as f:
            f.write(b"work tree content\n" * 11)
        porcelain.add(r, [os.path.join(r.path, "newfile.txt")])
        porcelain.commit(r, message=b"staged and committed", author=ID, committer=ID, commit_timestamp=700, commit_timezone=0,
                         author_timestamp=700, author_timezone=0, sign=False)
    S["porcelain add+commit"] = add_and_commit

    def commit_amend(r):
        # commit --amend: a NEW commit with the old one's parents replaces the branch tip; the old tip stays readable
        from dulwich import porcelain
        porcelain.commit(r, message=b"amended", author=ID, committer=ID, commit_timestamp=710, commit_timezone=0,
                         author_timestamp=710, author_timezone=0, sign=False, amend=True)
    S["porcelain commit --amend"] = _frozen_clock(commit_amend)

    def reset_hard(r):
        # reset --hard to an older commit: the branch moves back, the index and the work tree are rewritten
        from dulwich import porcelain
        porcelain.reset(r, "hard", r.refs[b"refs/heads/topic"])
    S["porcelain reset --hard"] = _frozen_clock(reset_hard)

    def notes_add(r):
        # a note: blob + notes tree + notes commit, then refs/notes/commits created
        from dulwich import porcelain
        porcelain.notes_add(r, r.refs[b"refs/heads/master"], b"reviewed\n", author=ID, committer=ID)
    S["notes_add"] = _frozen_clock(notes_add)

    def branch_and_merge(r):
        # a side branch with its own commit is merged into master (merge commit: objects, then the ref, then index/work tree)
        from dulwich import porcelain
        base = r.refs[b"refs/heads/topic"]   # c1, an ancestor of master in every layout
        t = _tree(r, {b"a": b"one\n" * 20, b"b": b"bee\n", b"side": b"side work\n"})
        c = _commit(r, t, [base], b"side", 720)
        r.refs[b"refs/heads/side"] = c
        porcelain.merge(r, b"refs/heads/side", message=b"merge side", author=ID, committer=ID)
    S["porcelain merge (merge commit)"] = _frozen_clock(branch_and_merge)

    def stash_push(r):
        # stash: the work tree (checked out in PREP) has a staged and an unstaged change; stash writes the index and
        # work-tree commits, refs/stash with its reflog, then resets index and work tree
        from dulwich import porcelain
        with open(os.path.join(r.path, "a"), "ab") as f:
            f.write(b"local edit\n")
        with open(os.path.join(r.path, "staged.txt"), "wb") as f:
            f.write(b"staged content\n" * 5)
        porcelain.add(r, [os.path.join(r.path, "staged.txt")])
        porcelain.stash_push(r)
    S["stash_push"] = _frozen_clock(stash_push)

    def cherry_pick(r):
        # the side commit (PREP) is replayed on master: new tree + commit, then the ref, index and work tree
        from dulwich import porcelain
        porcelain.cherry_pick(r, b"refs/heads/side")
    S["porcelain cherry_pick"] = _frozen_clock(cherry_pick)

    def rebase(r):
        # the side branch (PREP; HEAD is on it) is rebased onto master: replayed commit, then refs/heads/side moves
        from dulwich import porcelain
        porcelain.rebase(r, b"refs/heads/master")
    S["porcelain rebase"] = _frozen_clock(rebase)

    def checkout_branch(r):
        # switch to another branch: work tree and index rewritten, HEAD re-pointed
        from dulwich import porcelain
        porcelain.checkout(r, b"topic")
    S["porcelain checkout(branch)"] = _frozen_clock(checkout_branch)

    def worktree_add(r):
        # a linked work tree: .git/worktrees/<id>/{HEAD,gitdir,commondir,index}, a new branch ref, files checked out
        from dulwich.porcelain.worktree import worktree_add as _wa
        _wa(r, os.path.join(os.path.dirname(r.path.rstrip("/")), "linked-wt"), branch=b"wt-branch")
    S["worktree_add"] = _frozen_clock(worktree_add)

    def lfs_write(r):
        # the LFS object store under .git/lfs (the built-in clean filter stores file contents there)
        from dulwich.lfs import LFSStore
        st = LFSStore.from_repo(r, create=True)
        st.write_object([b"small lfs payload\n" * 40])
        st.write_object([b"first chunk of a larger payload\n" * 200, b"second chunk\n" * 300, b"tail"])
    S["lfs_store_write"] = lfs_write

    def config_write(r):
        c = r.get_config()
        c.set((b"user",), b"name", b"x y")
        c.set((b"remote", b"origin"), b"url", b"https://example.com/" + b"r" * 80)
        c.write_to_path()
    S["config_write"] = config_write
    return S


def _prep_shadow(r):
    r.refs[b"refs/heads/topic"] = r.refs[b"refs/heads/master"]


def _prep_shallow(r):
    """turn the repository into a depth-1 clone of a copy of itself kept next to it"""
    import shutil as _sh
    from dulwich.client import SubprocessGitClient
    from dulwich.repo import Repo
    root = r.path.rstrip("/")
    src = os.path.join(os.path.dirname(root), "deepsrc")
    _sh.copytree(root, src, symlinks=True)
    g = os.path.join(root, ".git")
    _sh.rmtree(os.path.join(g, "objects"))
    os.makedirs(os.path.join(g, "objects", "pack"))
    os.makedirs(os.path.join(g, "objects", "info"))
    for rel in ("packed-refs", "refs/heads/master", "refs/heads/topic", "refs/tags/v1"):
        try:
            os.unlink(os.path.join(g, rel))
        except FileNotFoundError:
            pass
    rr = Repo(root)
    try:
        res = SubprocessGitClient().fetch(src, rr, depth=1,
                                          determine_wants=lambda refs, **kw: [refs[b"refs/heads/master"]])
        rr.refs[b"refs/heads/master"] = res.refs[b"refs/heads/master"]
    finally:
        rr.close()



def _prep_checkout(r):
    """materialise HEAD's tree in the work tree and the index (the repository is built from objects only)"""
    from dulwich import porcelain
    porcelain.reset(r, "hard", b"HEAD")


def _prep_side(r, switch=False):
    """a side branch off c1 with one commit of its own that merges cleanly with master; optionally HEAD on it"""
    from dulwich import porcelain
    base = r.refs[b"refs/heads/topic"]
    t = _tree(r, {b"a": b"one\n" * 20, b"b": b"bee\n", b"side": b"side work\n"})
    c = _commit(r, t, [base], b"side", 720)
    r.refs[b"refs/heads/side"] = c
    if switch:
        r.refs.set_symbolic_ref(b"HEAD", b"refs/heads/side")
    porcelain.reset(r, "hard", b"HEAD")


PREP = {"del_ref(loose shadows packed)": _prep_shadow, "fetch(deepen a shallow clone)": _prep_shallow,
        "stash_push": _prep_checkout, "porcelain checkout(branch)": _prep_checkout, "worktree_add": _prep_checkout,
        "porcelain cherry_pick": _prep_side, "porcelain rebase": lambda r: _prep_side(r, switch=True)}
# scenarios whose states are judged by the real recovery procedure only (Crash.tla has no shallow boundary)
REAL_ONLY = {"fetch(deepen a shallow clone)", "lfs_store_write"}


# --------------------------------------------------------------------------- projection (independent of the code under test where cheap)
HEX40 = re.compile(rb"^[0-9a-f]{40}$")


def loose_valid(path, name):
    try:
        with open(path, "rb") as f:
            raw = zlib.decompress(f.read())
        return hashlib.sha1(raw).hexdigest() == name
    except Exception:
        return False


def idx_names(path):
    """object names listed by a pack index file (independent minimal parser, v1 and v2, SHA-1)."""
    import struct
    with open(path, "rb") as f:
        d = f.read()
    if d[:4] == b"\377tOc":
        n = struct.unpack(">L", d[8 + 255 * 4:8 + 256 * 4])[0]
        base = 8 + 1024
        return [d[base + 20 * i:base + 20 * i + 20].hex() for i in range(n)]
    n = struct.unpack(">L", d[255 * 4:256 * 4])[0]
    base = 1024
    return [d[base + 24 * i + 4:base + 24 * i + 24].hex() for i in range(n)]


class Universe:
    """object ids / ref names of one scenario, numbered for TLC."""

    def __init__(self):
        self.oid = {}
        self.refs = []
        self.deps = {}
        self.pack_objs = {}

    def o(self, sha):
        if isinstance(sha, bytes):
            sha = sha.decode()
        if sha not in self.oid:
            self.oid[sha] = len(self.oid) + 1
        return self.oid[sha]

    def r(self, name):
        if name not in self.refs:
            self.refs.append(name)
        return self.refs.index(name) + 1

    def learn(self, root):
        """record object graph, pack contents and ref names of a (complete) repository."""
        from dulwich.objects import Commit, Tag, Tree
        from dulwich.repo import Repo
        r = Repo(root)
        try:
            for sha in r.object_store:
                o = r.object_store[sha]
                d = set()
                if isinstance(o, Commit):
                    d.add(o.tree)
                    d.update(o.parents)
                elif isinstance(o, Tree):
                    d.update(e.sha for e in o.iteritems())
                elif isinstance(o, Tag):
                    d.add(o.object[1])
                self.deps.setdefault(self.o(sha), set()).update(self.o(x) for x in d)
            for p in r.object_store.packs:
                nm = os.path.basename(p._basename)
                self.pack_objs[nm] = sorted(self.o(x) for x in p.index)
            for name in r.refs.allkeys():
                if name != b"HEAD":
                    self.r(name.decode())
        finally:
            r.close()


def project(snap, U: Universe):
    """abstract state of a repository directory (snap = work tree root containing .git)."""
    g = os.path.join(snap, ".git")
    st = {"loose": [], "packs": [], "lrefs": [0] * len(U.refs), "prefs": [0] * len(U.refs), "filesok": True}
    od = os.path.join(g, "objects")
    for d in sorted(os.listdir(od)) if os.path.isdir(od) else []:
        if len(d) == 2 and os.path.isdir(os.path.join(od, d)):
            for f in os.listdir(os.path.join(od, d)):
                if len(f) == 38 and loose_valid(os.path.join(od, d, f), d + f):
                    if d + f in U.oid:
                        st["loose"].append(U.oid[d + f])
    pd = os.path.join(od, "pack")
    names = set()
    for f in os.listdir(pd) if os.path.isdir(pd) else []:
        if f.startswith("pack-") and (f.endswith(".pack") or f.endswith(".idx")):
            names.add(f.rsplit(".", 1)[0])
    for nm in sorted(names):
        st["packs"].append({"pack": os.path.exists(os.path.join(pd, nm + ".pack")),
                            "idx": os.path.exists(os.path.join(pd, nm + ".idx")),
                            "objs": U.pack_objs.get(nm, []), "name": nm})

    def val(b):
        b = b.strip()
        if HEX40.match(b):
            return U.oid.get(b.decode(), -3)
        return -3
    for i, name in enumerate(U.refs):
        p = os.path.join(g, name)
        if os.path.isfile(p):
            with open(p, "rb") as f:
                st["lrefs"][i] = val(f.read())
    pr = os.path.join(g, "packed-refs")
    if os.path.exists(pr):
        with open(pr, "rb") as f:
            for line in f.read().split(b"\n"):
                if not line or line.startswith(b"#") or line.startswith(b"^"):
                    continue
                parts = line.split(b" ")
                if len(parts) != 2 or not HEX40.match(parts[0]):
                    st["filesok"] = False
                    continue
                nm = parts[1].decode("utf-8", "replace")
                if nm in U.refs:
                    st["prefs"][U.refs.index(nm)] = U.oid.get(parts[0].decode(), -3)
    # index / config validity (projection uses dulwich's own parsers: a file these reject is "half-written")
    try:
        from dulwich.config import ConfigFile
        ConfigFile.from_path(os.path.join(g, "config"))
    except FileNotFoundError:
        pass
    except Exception:
        st["filesok"] = False
    ip = os.path.join(g, "index")
    if os.path.exists(ip):
        try:
            from dulwich.index import Index
            Index(ip)
        except Exception:
            st["filesok"] = False
    return st


# --------------------------------------------------------------------------- the real recovery check
def retry_after_crash(snap, op, dst, unlock=False):
    """The user's next step after a crash: the same operation again, on a copy of the crash state.
    It may fail (a stale lock file is a legitimate reason); whatever it does, it runs un-interposed.
    Returns (outcome string, path of the copy)."""
    from dulwich.repo import Repo
    shutil.copytree(snap, dst, symlinks=True)
    if unlock:
        # what git tells the user to do after a crash: remove the stale lock files
        for dp, dn, fn in os.walk(dst):
            for f in fn:
                if f.endswith(".lock"):
                    os.unlink(os.path.join(dp, f))
    try:
        r = Repo(dst)
    except Exception as e:
        return f"open:{type(e).__name__}", dst
    try:
        try:
            op(r)
            return "ok", dst
        except Exception as e:
            return f"raised:{type(e).__name__}", dst
    finally:
        try:
            r.close()
        except Exception:
            pass


def recover(snap, pre_refs, post_refs, pre_objs, any_ref_value=False):
    """Returns None if the repository at `snap` is consistent, else a short clause string.
    any_ref_value: refs may hold values other than the old/new ones of the first attempt (used after a
    retried operation, which may legitimately build on the half-finished first attempt)."""
    from dulwich.objects import Commit, Tag, Tree
    from dulwich.repo import Repo
    try:
        r = Repo(snap)
    except Exception as e:
        return f"RepoDoesNotOpen:{type(e).__name__}"
    try:
        try:
            refs = r.refs.as_dict()
        except Exception as e:
            return f"RefsUnreadable:{type(e).__name__}"
        names = set(pre_refs) | set(post_refs) | set(refs)
        for n in sorted(names):
            v = refs.get(n)
            if not any_ref_value and v not in (pre_refs.get(n), post_refs.get(n)):
                return f"RefNeitherOldNorNew:{n.decode()}"
        store = r.object_store

        def read(sha):
            o = store[sha]
            raw = o.as_raw_string()
            hdr = o.type_name + b" " + str(len(raw)).encode() + b"\0"
            if hashlib.sha1(hdr + raw).hexdigest().encode() != sha:
                raise ValueError("hash mismatch")
            return o, raw
        # everything reachable before is still readable, byte for byte
        for sha, raw0 in pre_objs.items():
            try:
                _, raw = read(sha)
            except Exception as e:
                return f"ReachableObjectLost:{type(e).__name__}"
            if raw != raw0:
                return "ReachableObjectChanged"
        # closure of every ref is readable and intact (up to the shallow boundary the repository records NOW)
        shal = shallow_of(snap)
        seen, todo = set(), [v for v in refs.values()]
        while todo:
            sha = todo.pop()
            if sha in seen:
                continue
            seen.add(sha)
            try:
                o, _ = read(sha)
            except Exception as e:
                return f"RefNamesMissingObject:{type(e).__name__}"
            if isinstance(o, Commit):
                todo += [o.tree] + ([] if sha in shal else list(o.parents))
            elif isinstance(o, Tree):
                todo += [e.sha for e in o.iteritems() if e.mode != 0o160000]
            elif isinstance(o, Tag):
                todo.append(o.object[1])
        # no half-written file is taken for valid data: every object the store lists hashes to its name
        try:
            for sha in store:
                read(sha)
        except Exception as e:
            return f"HalfWrittenObjectVisible:{type(e).__name__}"
        try:
            r.open_index()
        except Exception as e:
            from dulwich.errors import NoIndexPresent
            if not isinstance(e, NoIndexPresent):
                return f"IndexUnreadable:{type(e).__name__}"
        try:
            r.get_config()
        except Exception as e:
            return f"ConfigUnreadable:{type(e).__name__}"
        # LFS objects are named by the SHA-256 of their content: a file under its final name is complete
        lfsdir = os.path.join(snap, ".git", "lfs", "objects")
        for dp, dn, fn in os.walk(lfsdir) if os.path.isdir(lfsdir) else []:
            for f_ in fn:
                if len(f_) == 64:
                    with open(os.path.join(dp, f_), "rb") as fh:
                        if hashlib.sha256(fh.read()).hexdigest() != f_:
                            return "HalfWrittenLfsObjectVisible"
        # optional acceleration files: whatever is there must load
        try:
            cg = store.get_commit_graph()
            if cg is not None:
                for ent in cg.entries:
                    pass
        except Exception as e:
            return f"CommitGraphUnreadable:{type(e).__name__}"
        try:
            mx = store.get_midx()
            if mx is not None:
                mx.object_offset(b"\0" * 20)
        except Exception as e:
            return f"MidxUnreadable:{type(e).__name__}"
        return None
    finally:
        r.close()


# --------------------------------------------------------------------------- recording
MUT = {"open_excl", "open_w", "fwrite", "fflush", "fclose", "replace", "rename", "unlink", "mkdir", "rmdir",
       "write", "close", "link", "symlink", "ftruncate", "truncate", "fsync"}


class Recording:
    def __init__(self, ctx, scen_name, op, layout, fsync, fault=None):
        self.ctx = ctx
        self.root = ctx.tmpdir("c09")
        self.work = os.path.join(self.root, "w")
        os.makedirs(self.work)
        build_repo(self.work, layout, fsync)
        if scen_name in PREP:
            from dulwich.repo import Repo
            r = Repo(self.work)
            PREP[scen_name](r)
            r.close()
        self.op = op
        self.snaps = []          # (k, event description, path, inomap)
        self.durable = {}        # ino -> bytes at last fsync
        self.touched = set()     # inos created/written during the operation
        self.fsync = fsync
        self.take = fault is None
        self.world = sched.World(self.work, observe=self.observe, fault=fault)
        self.world.fault_pred = lambda op_, path: not (op_ == "unlink" and path and path.endswith(".lock"))

    def observe(self, world, ev):
        if ev["op"] not in MUT:
            return
        p = ev.get("p")
        real = sched._real
        if p and ev["op"] in ("open_excl", "open_w", "fwrite", "write", "fflush", "fclose", "ftruncate"):
            try:
                self.touched.add(real["stat"](os.path.join(self.work, p)).st_ino)
            except OSError:
                pass
        if ev["op"] == "fsync" and p and ev.get("ok"):
            try:
                fp = os.path.join(self.work, p)
                with real["builtins.open"](fp, "rb") as f:
                    self.durable[real["stat"](fp).st_ino] = f.read()
            except OSError:
                pass
        if not self.take:
            return
        k = len(self.snaps)
        dst = os.path.join(self.root, f"s{k}")
        shutil.copytree(self.work, dst, symlinks=True)
        inomap = {}
        for dp, dn, fn in os.walk(self.work):
            for f in fn:
                full = os.path.join(dp, f)
                try:
                    inomap[os.path.relpath(full, self.work)] = os.lstat(full).st_ino
                except OSError:
                    pass
        desc = f"{ev['op']} {p}" + (f" -> {ev['p2']}" if ev.get("p2") else "") + ("" if ev.get("ok", True) else " (failed)")
        self.snaps.append((k, desc, dst, inomap))

    def run(self):
        from dulwich.repo import Repo

        def body():
            r = Repo(self.work)
            try:
                self.op(r)
            finally:
                r.close()
        s = sched.Scheduler(self.world, {0: body}, collect="always")
        with sched.Interposer(self.world):
            s.run()
        self.result = s.results[0]
        return s

    def power_variant(self, snap_path, inomap, k):
        """copy of the snapshot in which every file whose data was not fsynced holds only its durable data."""
        changed = []
        for rel, ino in inomap.items():
            if ino not in self.touched:
                continue
            cur_p = os.path.join(snap_path, rel)
            try:
                with open(cur_p, "rb") as f:
                    cur = f.read()
            except OSError:
                continue
            dur = self.durable.get(ino, b"")
            if dur != cur:
                changed.append((rel, dur))
        if not changed:
            return None
        dst = os.path.join(self.root, f"p{k}")
        shutil.copytree(snap_path, dst, symlinks=True)
        for rel, dur in changed:
            p = os.path.join(dst, rel)
            os.chmod(p, 0o644)
            with open(p, "wb") as f:
                f.write(dur)
        return dst, [c[0] for c in changed]

    def cleanup(self):
        shutil.rmtree(self.root, ignore_errors=True)


def shallow_of(path):
    """the commits listed in .git/shallow (their parents are legitimately absent)"""
    try:
        with open(os.path.join(path, ".git", "shallow"), "rb") as f:
            return {l.strip() for l in f.read().split(b"\n") if HEX40.match(l.strip())}
    except FileNotFoundError:
        return set()


def repo_facts(path):
    """refs and the content of everything reachable (real values, for the recovery check)."""
    from dulwich.objects import Commit, Tag, Tree
    from dulwich.repo import Repo
    r = Repo(path)
    shal = shallow_of(path)
    try:
        refs = r.refs.as_dict()
        objs, todo = {}, list(refs.values())
        while todo:
            sha = todo.pop()
            if sha in objs:
                continue
            o = r.object_store[sha]
            objs[sha] = o.as_raw_string()
            if isinstance(o, Commit):
                todo += [o.tree] + ([] if sha in shal else list(o.parents))
            elif isinstance(o, Tree):
                todo += [e.sha for e in o.iteritems() if e.mode != 0o160000]
            elif isinstance(o, Tag):
                todo.append(o.object[1])
        return refs, objs
    finally:
        r.close()


# --------------------------------------------------------------------------- entry
def run(ctx):
    S = scenarios()
    layouts = ["loose", "packed", "mixed"]
    plan = []
    _only = os.environ.get("VERIF_C09_ONLY")   # development aid: substring filter on scenario names (never set by MANIFEST commands)
    for name in S:
        if _only and _only not in name:
            continue
        for layout in layouts:
            for fsync in (False, True):
                if ctx.quick:
                    # quick: every scenario on (packed, fsync on) and (mixed, fsync off) -- independent of how many
                    # scenarios there are -- plus (loose, fsync on) for every other scenario
                    keep = (layout, fsync) in (("packed", True), ("mixed", False)) or \
                        (layout == "loose" and fsync and list(S).index(name) % 2 == 0)
                    if not keep:
                        continue
                plan.append((name, layout, fsync))
    traces, meta = [], {}
    real_verdicts = {}
    tid = 0
    nsnap = 0
    nretry = 0
    retry_outcomes = {}
    for (name, layout, fsync) in plan:
        rec = Recording(ctx, name, S[name], layout, fsync)
        pre_refs, pre_objs = repo_facts(rec.work)
        rec.run()
        if rec.result.exc:
            rec.cleanup()
            raise MachineryError(f"scenario {name}/{layout} failed fault-free: {rec.result.exc} {rec.result.exc_msg}")
        post_refs, _ = repo_facts(rec.work)
        if ctx.quick:
            # long runs of consecutive writes into the same (lock/temp) file differ only in that file's length:
            # quick keeps both ends of each run, thorough keeps every state
            kept, i_ = [], 0
            while i_ < len(rec.snaps):
                j_ = i_
                d0 = rec.snaps[i_][1]
                while d0.startswith("fwrite ") and j_ + 1 < len(rec.snaps) and rec.snaps[j_ + 1][1] == d0:
                    j_ += 1
                run_ = rec.snaps[i_:j_ + 1]
                if len(run_) > 12:
                    for sn in run_[6:-6]:
                        shutil.rmtree(sn[2], ignore_errors=True)
                    run_ = run_[:6] + run_[-6:]
                kept += run_
                i_ = j_ + 1
            ctx.cov["quick_states_thinned"] = ctx.cov.get("quick_states_thinned", 0) + len(rec.snaps) - len(kept)
            rec.snaps = kept
        U = Universe()
        U.learn(rec.snaps[0][2] if rec.snaps else rec.work)
        # the initial repository is snapshot 0's predecessor: learn from a pristine rebuild as well
        U.learn(rec.work)
        for (_, _, path, _) in rec.snaps:
            # packs that exist only in the middle of the operation (repack) are learnt when complete
            pd = os.path.join(path, ".git", "objects", "pack")
            for f in os.listdir(pd) if os.path.isdir(pd) else []:
                if f.endswith(".idx") and f[:-4] not in U.pack_objs and os.path.exists(os.path.join(pd, f[:-4] + ".pack")):
                    try:
                        U.pack_objs[f[:-4]] = sorted(U.o(x) for x in idx_names(os.path.join(pd, f)))
                    except Exception:
                        pass
        tid += 1
        states = []
        site = f"{name}"
        scen = f"layout={layout} fsync={'on' if fsync else 'off'}"
        for (k, desc, path, inomap) in rec.snaps:
            variants = [("process", path, desc)]
            if fsync:
                pv = rec.power_variant(path, inomap, k)
                if pv:
                    variants.append(("power", pv[0], desc + f" +powerloss{pv[1]}"))
            for mode, p, d in variants:
                st = project(p, U)
                st["k"] = k
                st["mode"] = mode
                for pk in st["packs"]:
                    pk.pop("name", None)
                states.append(st)
                verdict = recover(p, pre_refs, post_refs, pre_objs)
                real_verdicts[(tid, len(states))] = (verdict, d, mode)
                nsnap += 1
                ctx.count()
                ctx.nontrivial((name, layout, fsync, k, mode))
                if verdict is not None:
                    clause = verdict.split(":")[0]
                    ctx.violation(f"{site}|{clause}|{scen} mode={mode} at={re.sub(r'[0-9a-f]{38,40}', '<sha>', d)}",
                                  f"crash ({mode}) after call {k} [{d}] of {name} ({scen}) leaves an inconsistent repository: {verdict}",
                                  {"scenario": name, "layout": layout, "fsync": fsync, "k": k, "mode": mode, "event": d, "verdict": verdict})
                elif mode == "process":
                    # crash, restart, repeat the operation -- with the stale lock files left in place, and after the
                    # user removed them: whether it succeeds or refuses, the repository stays consistent
                    for unlock in ((False, True) if not ctx.quick else ((k + tid) % 2 == 1,)):
                        outcome, rp = retry_after_crash(p, S[name], os.path.join(rec.root, f"r{k}"), unlock=unlock)
                        v2 = recover(rp, pre_refs, post_refs, pre_objs, any_ref_value=True)
                        # the continued state is also judged by Crash.tla (mode "retry": RecoveryInv without the
                        # old-or-new clause); objects the retry created are learnt first
                        try:
                            U.learn(rp)
                            st2 = project(rp, U)
                            st2["k"], st2["mode"] = k, "retry"
                            for pk in st2["packs"]:
                                pk.pop("name", None)
                            states.append(st2)
                            real_verdicts[(tid, len(states))] = (v2, d + f" +retry({'locks removed' if unlock else 'as is'})", "retry")
                        except Exception:
                            ctx.cov["retry_states_not_projected"] = ctx.cov.get("retry_states_not_projected", 0) + 1
                        shutil.rmtree(rp, ignore_errors=True)
                        nretry += 1
                        how = "locks-removed" if unlock else "as-is"
                        retry_outcomes[f"{how}:{outcome}"] = retry_outcomes.get(f"{how}:{outcome}", 0) + 1
                        ctx.count()
                        ctx.nontrivial((name, layout, fsync, k, "retry", how, outcome))
                        if v2 is not None:
                            clause = v2.split(":")[0]
                            ctx.violation(f"{site}|{clause}|{scen} mode=crash+retry({how},{outcome.split(':')[0]}) at={re.sub(r'[0-9a-f]{38,40}', '<sha>', d)}",
                                          f"crash after call {k} [{d}] of {name} ({scen}), then the same operation again ({how}: {outcome}): "
                                          f"the repository is inconsistent: {v2}",
                                          {"scenario": name, "layout": layout, "fsync": fsync, "k": k, "mode": "retry", "unlock": unlock, "event": d,
                                           "verdict": v2, "retry_outcome": outcome})
        n = len(U.oid)
        deps = [sorted(U.deps.get(i, ())) for i in range(1, n + 1)]
        pre = [U.oid.get(pre_refs.get(nm.encode(), b"").decode(), 0) for nm in U.refs]
        post = [U.oid.get(post_refs.get(nm.encode(), b"").decode(), 0) for nm in U.refs]
        preclo = sorted(U.oid[s.decode()] for s in pre_objs)
        if name not in REAL_ONLY:
            traces.append({"tid": tid, "deps": deps, "pre": pre, "post": post, "preclo": preclo, "states": states})
        meta[tid] = (name, layout, fsync)
        if tid in (1, 5):
            ctx.sample({"scenario": name, "layout": layout, "fsync": fsync,
                        "events": [d for (_, d, _, _) in rec.snaps][:40], "states": len(states)})
        # death by exception at every call
        ncalls = rec.world.ncalls.get(0, 0)
        rec.cleanup()
        excs = [("KeyboardInterrupt", lambda: KeyboardInterrupt())]
        if not ctx.quick:
            excs.append(("EIO", lambda: OSError(errno.EIO, "injected")))
        stride = ctx.pick(3 if ncalls < 100 else 7, 1)
        # an fsync that FAILS must not be taken for durability: EIO at every fsync of the operation, then the power-loss
        # variant of what is left (whether the operation reported the error or not)
        fsync_ks = {e["k"] for e in rec.world.events if e.get("op") == "fsync" and e.get("k") is not None} if fsync else set()
        eio = ("EIO", lambda: OSError(errno.EIO, "injected"))
        for k in range(0, ncalls, 1):
            kexcs = excs
            if ctx.quick and (k + tid) % stride:
                if k not in fsync_ks:
                    continue
                kexcs = [eio]
            elif k in fsync_ks and ctx.quick:
                kexcs = excs + [eio]
            for ename, mk in kexcs:
                fr = Recording(ctx, name, S[name], layout, fsync, fault=sched.Fault(0, k, mk()))
                fr.run()
                verdict = recover(fr.work, pre_refs, post_refs, pre_objs)
                fired = fr.world.fault.fired_at
                at = f"{fired['op']} {fired.get('p')}" if fired else "none"
                ctx.count()
                nsnap += 1
                ctx.nontrivial((name, layout, fsync, "exc", k, ename))
                if verdict is not None:
                    clause = verdict.split(":")[0]
                    ctx.violation(f"{site}|{clause}|{scen} mode=exception:{ename} at={re.sub(r'[0-9a-f]{38,40}', '<sha>', at)}",
                                  f"{ename} at call {k} [{at}] of {name} ({scen}) leaves an inconsistent repository: {verdict}",
                                  {"scenario": name, "layout": layout, "fsync": fsync, "k": k, "mode": "exception", "exc": ename, "event": at, "verdict": verdict})
                elif fired and fired.get("op") == "fsync" and ename == "EIO":
                    inomap = {}
                    for dp, dn, fn in os.walk(fr.work):
                        for f_ in fn:
                            full = os.path.join(dp, f_)
                            try:
                                inomap[os.path.relpath(full, fr.work)] = os.lstat(full).st_ino
                            except OSError:
                                pass
                    pv = fr.power_variant(fr.work, inomap, f"f{k}")
                    if pv:
                        v3 = recover(pv[0], pre_refs, post_refs, pre_objs)
                        ctx.count()
                        nsnap += 1
                        ctx.nontrivial((name, layout, fsync, "fsyncfail+power", k))
                        if v3 is not None:
                            clause = v3.split(":")[0]
                            outcome = "raised" if fr.result.exc else "reported success"
                            ctx.violation(f"{site}|{clause}|{scen} mode=fsync-failed+powerloss({outcome}) at={re.sub(r'[0-9a-f]{38,40}', '<sha>', at)}",
                                          f"fsync failed (EIO) at call {k} [{at}] of {name} ({scen}), the operation {outcome}, then power was lost "
                                          f"(files {pv[1]} keep only their durable data): {v3}",
                                          {"scenario": name, "layout": layout, "fsync": fsync, "k": k, "mode": "fsyncfail", "event": at, "verdict": v3})
                fr.cleanup()
        ctx.log(f"{name} {scen}: {len(states)} crash states, {ncalls} exception points")
    ctx.validated(nsnap)
    # TLC: RecoveryInv + ordering obligations on the abstract traces
    d = ctx.tmpdir("crash")
    path = os.path.join(d, "crash.ndjson")
    with open(path, "w") as f:
        for t in traces:
            f.write(json.dumps(t, separators=(",", ":")) + "\n")
    res = tlc.run("Crash.tla", "Crash.cfg", workers=1, timeout=1800, env={"TRACE_FILE": path})
    ctx.add_tlc("Crash (RecoveryInv + ordering obligations over recorded operations)", res, require_ok=False)
    if not res.completed:
        raise MachineryError("Crash.tla did not complete\n" + res.output[-3000:])
    got = {}
    for v in tlc.extract_printed(res.output, "CRASH"):
        got[v[1]] = {x[0]: x[1] for x in v[2]}
    if len(got) != len(traces):
        raise MachineryError(f"Crash.tla judged {len(got)}/{len(traces)} traces\n{res.output[-2000:]}")
    abstract_bad = 0
    for t in traces:
        for i in range(1, len(t["states"]) + 1):
            a = got[t["tid"]].get(i)
            rv, desc, mode = real_verdicts[(t["tid"], i)]
            if a:
                abstract_bad += 1
            if (a is not None) != (rv is not None):
                # ordering obligations are stricter than recoverability of the single state: a step
                # clause with a recoverable state is reported as drift (order differs from the spec)
                ctx.drift_event(f"{meta[t['tid']]} state {i} [{desc}]: abstract verdict {a} vs real recovery {rv}")
    ctx.cov["abstract_states_flagged"] = abstract_bad
    ctx.cov["crash_then_retry"] = {"executions": nretry, "outcomes": retry_outcomes}
    ctx.log(f"crash + retry: {nretry} executions, outcomes {retry_outcomes}")
    ctx.cov["rule"] = ("one crash state per mutating file-system call of each (operation, starting layout, fsync setting), plus power-loss "
                       "variants when fsync is on, plus one unwound directory per (call, exception kind); each materialised and "
                       "checked by the real recovery procedure; process-crash states are additionally continued by repeating the operation "
                       "(crash, restart, retry) and checked again; distinct = distinct (scenario, layout, fsync, call index, mode)")
    ctx.assumptions += ["process-crash model: the directory as the kernel has it between two calls (user-space buffers lost)",
                        "power-loss model: a file written during the operation keeps only the bytes present at its last fsync; "
                        "directory entries (renames, unlinks) are assumed durable in order; evaluated only with core.fsyncObjectFiles=true",
                        "a failing unlink of a lock file is not injected; leftover lock/temp files are not an inconsistency",
                        "projection uses hashlib/zlib and dulwich's own Index/Config parsers to classify files"]
    return ctx.finish(exhaustive=not ctx.quick)


def replay(ctx, path):
    obj = json.load(open(path))
    print(json.dumps(obj, indent=1)[:4000])
    S = scenarios()
    name = obj["scenario"]
    if obj.get("mode") == "exception":
        mk = (lambda: KeyboardInterrupt()) if obj.get("exc") == "KeyboardInterrupt" else (lambda: OSError(errno.EIO, "injected"))
        ref = Recording(ctx, name, S[name], obj["layout"], obj["fsync"])
        pre_refs, pre_objs = repo_facts(ref.work)
        ref.run()
        post_refs, _ = repo_facts(ref.work)
        fr = Recording(ctx, name, S[name], obj["layout"], obj["fsync"], fault=sched.Fault(0, obj["k"], mk()))
        fr.run()
        v = recover(fr.work, pre_refs, post_refs, pre_objs)
        print("re-executed verdict:", v)
        return 1 if v else 0
    rec = Recording(ctx, name, S[name], obj["layout"], obj["fsync"])
    pre_refs, pre_objs = repo_facts(rec.work)
    rec.run()
    post_refs, _ = repo_facts(rec.work)
    k, desc, p, inomap = rec.snaps[obj["k"]]
    if obj["mode"] == "power":
        pv = rec.power_variant(p, inomap, k)
        p = pv[0] if pv else p
    if obj["mode"] == "retry":
        outcome, rp = retry_after_crash(p, S[name], os.path.join(rec.root, "replay-retry"), unlock=obj.get("unlock", False))
        v = recover(rp, pre_refs, post_refs, pre_objs, any_ref_value=True)
        print(f"re-executed: crash after call {k} [{desc}], operation repeated ({outcome}), verdict:", v)
        return 1 if v else 0
    v = recover(p, pre_refs, post_refs, pre_objs)
    print(f"re-executed: crash after call {k} [{desc}] verdict:", v)
    return 1 if v else 0

"""C15 -- Rust extensions and pure-Python fallbacks are observationally equivalent.

Property (a relation between two programs): for every function that exists both in pure Python
and in Rust, Obs(py, x) = Obs(rs, x) with Obs in {value} + {fail}; for create_delta both deltas
must decode to the target; enabling the extensions never changes a repository-level result.

Specs: specs/Equiv.tla (reference semantics of the five families: ParseTree, SortItems, Delta!Run
and Delta!Cand reused read-only from C03, Find, TreeDiff!Merge reused read-only from C12, IsTree,
Count, each with lemmas), EquivCases.tla (TLC enumerates the input spaces, one state per input
with the reference answer; lemmas are invariants), EquivTrace.tla (TLC judges recorded
executions).  Binding:

  R  spec -> code   every state TLC enumerates is executed on BOTH real implementations in
                    sandboxed children (Rust = release build of the working tree loaded by path,
                    Python = extensions blocked; blocks of cases run in forked grandchildren so
                    that an abort is an observation).  The two observation streams are compared
                    case by case (the property); the reference answer says which side is wrong.
  T  code -> spec   hypothesis / rng generated larger inputs (real trees with 20/32-byte ids and
                    their mutations, dictionaries of random names, (base, target) pairs and
                    mutated deltas on larger bases, larger id tables, tree pairs, blobs) are run
                    on both implementations, recorded as ndjson and judged by TLC (EquivTrace):
                    ObsEq(py, rs) and agreement of each side with the reference.
  E  end to end     repository-level scenario (commit_tree, tree_changes with rename detection,
                    pack write + read with deltas incl. a pack made by C git, index lookups by
                    bisection, commits in an on-disk repository) once with and once without the
                    extensions; results compared.

VIOLATION = the two implementations differ on an input (signature: blamed site | clause | class).
Both agreeing with each other but not with the reference is SPEC-DRIFT (never an alarm).
"""
from __future__ import annotations

import concurrent.futures as cf
import json
import os
import shutil
import subprocess
import threading

from .. import c15_lib as L
from .. import rustext, tlc
from ..core import VERIF, MachineryError, git_available

PY = "/venv/bin/python"
CHILD = os.path.join(VERIF, "harness", "c15_child.py")
MODES = ("py", "rs")
GROUP = {"ptstr": "parse_tree", "ptmode": "parse_tree", "pttrace": "parse_tree", "items": "sorted_tree_items",
         "delta": "apply_delta", "deltax": "apply_delta", "deltatrace": "apply_delta", "cdelta": "create_delta",
         "bisect": "bisect_find_sha", "merge": "_merge_entries", "istree": "_is_tree", "blocks": "_count_blocks"}

# family -> (quick cfg, thorough cfgs, TLC workers, slices per mode, description)
ENUM = [
    ("ptstr", "Equiv_ptstr_q.cfg", ["Equiv_ptstr_t.cfg"], 3, 4,
     "tree payloads: every string <=L over {0 1 4 7 8 + - _ SP NUL a / 0xff} followed by id tails (20/32 bytes, truncated, second entry)"),
    ("ptmode", "Equiv_ptmode_q.cfg", ["Equiv_ptmode_t.cfg"], 1, 2,
     "tree payloads: one entry, mode text = every string <=L over 16 mode bytes + 40 long spellings (32/64-bit limits, signs, _, 0o, white space), 4 frames"),
    ("delta", "Equiv_delta_q.cfg", ["Equiv_delta_t.cfg"], 1, 2,
     "deltas: every string <=L over C03's 12-byte opcode alphabet x bases {'', ab, abc}"),
    ("deltax", "Equiv_deltax_q.cfg", ["Equiv_deltax_t.cfg"], 1, 1,
     "deltas: op templates x target sizes 0..5 x padded / wrapping / huge size headers, base ab"),
    ("items", "Equiv_items_q.cfg", ["Equiv_items_t.cfg"], 1, 1,
     "entry dictionaries: all insertion orders of <=K names of {a a.b a- a0 ab b} x mode tags x name_order"),
    ("bisect", "Equiv_bisect_q.cfg", ["Equiv_bisect_t.cfg"], 1, 1,
     "sorted id tables <=K over 3 ids (duplicates allowed) x every (lo, hi) incl. lo>hi and out of table x 7 probes x index offsets up to 2^32 x id length"),
    ("merge", "Equiv_merge_q.cfg", ["Equiv_merge_t.cfg"], 1, 1,
     "pairs of trees (<=K entries over 4 names x cells, or None) x 3 path prefixes"),
    ("blocks", "Equiv_blocks_q.cfg", ["Equiv_blocks_t.cfg"], 1, 1,
     "blob contents by run-length classes (<=3 runs, lengths around the 64-byte block) x 4 chunkings"),
    ("cdelta", "Equiv_cdelta_q.cfg", ["Equiv_cdelta_t.cfg"], 1, 1,
     "(base, target) pairs over {a b} up to length K for both encoders, and the reference encoder's delta for both decoders"),
    ("istree", "Equiv_istree.cfg", ["Equiv_istree.cfg"], 1, 1, "entries: None, mode None, 16 type nibbles x 4 permission patterns"),
]


# =========================================================================== children
_job_seq = [0]
_job_lock = threading.Lock()


def run_child(ctx, mode, job, timeout=3000):
    """Run one child job; -> path of its output."""
    with _job_lock:
        _job_seq[0] += 1
        d = os.path.join(ctx.scratch, f"job{_job_seq[0]}-{mode}")
    os.makedirs(d)
    job = dict(job, mode=mode, out=os.path.join(d, "out"))
    jf = os.path.join(d, "job.json")
    with open(jf, "w") as f:
        json.dump(job, f)
    env = dict(os.environ, RUST_BACKTRACE="0", PYTHONDONTWRITEBYTECODE="1", PYTHONHASHSEED="0")
    with open(os.path.join(d, "stderr"), "wb") as err:
        try:
            p = subprocess.run([PY, CHILD, jf], stdout=subprocess.DEVNULL, stderr=err, env=env, timeout=timeout)
            rc = p.returncode
        except subprocess.TimeoutExpired:
            rc = -999
    done = job["out"] if job["kind"] == "repo" else job["out"] + ".sum"
    if rc != 0 or not os.path.exists(done):
        with open(os.path.join(d, "stderr"), "rb") as f:
            tail = f.read()[-2500:].decode("utf-8", "replace")
        raise MachineryError(f"C15 child ({mode}, {job['kind']} {job.get('fam', '')}) failed rc={rc}:\n{tail}")
    return job["out"]


def read_details(path, wanted):
    out = {}
    if not wanted:
        return out
    with open(path + ".det") as f:
        for line in f:
            i, _, js = line.partition("\t")
            if int(i) in wanted:
                out[int(i)] = json.loads(js)
    return out


# =========================================================================== findings
class Findings:
    """Collects divergent cases per signature and reports the smallest one of each."""

    def __init__(self, ctx):
        self.ctx = ctx
        self.best = {}
        self.lock = threading.Lock()

    def add(self, sig, what, replay_obj, size):
        with self.lock:
            cur = self.best.get(sig)
            key = (size, json.dumps(replay_obj, sort_keys=True, default=str))
            if cur is None or key < cur[0]:
                self.best[sig] = (key, what, replay_obj, (cur[3] if cur else 0) + 1)
            else:
                self.best[sig] = (cur[0], cur[1], cur[2], cur[3] + 1)

    def flush(self):
        for sig in sorted(self.best):
            _, what, rep, n = self.best[sig]
            self.ctx.violation(sig, f"{what} [{n} enumerated/recorded cases with this signature]",
                               dict(rep, cases_with_this_signature=n))
        self.best = {}


def render_input(fam, inp):
    """Human-readable form of a case for messages and replay files."""
    try:
        if fam in ("ptstr", "ptmode"):
            t, n = L.pt_text(inp)
            return f"parse_tree({t!r}, sha_len={n})"
        if fam == "pttrace":
            return f"parse_tree({bytes.fromhex(inp[0])!r}, sha_len={inp[1]})"
        if fam == "items":
            return "sorted_tree_items({" + ", ".join(f"{bytes(n)!r}: ({L.MODE[t]:o}, id)" for n, t in inp[0]) + f"}}, name_order={bool(inp[1])})"
        if fam in ("delta", "deltax"):
            return f"apply_delta({bytes(inp[0])!r}, bytes.fromhex('{bytes(inp[1]).hex()}'))"
        if fam == "deltatrace":
            return f"apply_delta(bytes.fromhex('{inp[0]}'), bytes.fromhex('{inp[1]}'))"
        if fam == "cdelta":
            b, t = (bytes(inp[0]), bytes(inp[1])) if not isinstance(inp[0], str) else (bytes.fromhex(inp[0]), bytes.fromhex(inp[1]))
            return f"create_delta({b!r}, {t!r})"
        if fam == "bisect":
            table, lo, hi, key, offc, idl = inp
            return (f"bisect_find_sha({L.OFFS[offc]}+{lo}, {L.OFFS[offc]}+{hi}, id{key}, table={table} at offset {L.OFFS[offc]}, "
                    f"{idl}-byte ids)")
        if fam == "merge":
            def t(x):
                return "None" if x[0] == 0 else "{" + ", ".join(f"{bytes(n)!r}:{m}{i}" for n, m, i in x[1]) + "}"
            return f"_merge_entries({L.PREFIX[inp[0]]!r}, {t(inp[1])}, {t(inp[2])})"
        if fam == "istree":
            return f"_is_tree({inp[0]}, mode={inp[1] * 4096 + inp[2]:o})"
        if fam == "blocks":
            c = L.unrle(inp[0]) if not isinstance(inp[0], str) else bytes.fromhex(inp[0])
            return f"_count_blocks(blob of {len(c)} bytes {c[:40]!r}{'...' if len(c) > 40 else ''})"
    except Exception as e:  # noqa: BLE001
        return f"{fam} {inp!r} ({e})"
    return f"{fam} {inp!r}"


def judge_case(ctx, fnd, stats, fam, inp, exp, py, rs, dpy, drs, origin):
    """One case, both observation lists.  The property: py[v] == rs[v] for every variant."""
    ref = L.expected(fam, inp, exp)
    if not (len(py) == len(rs) == len(ref)):
        raise MachineryError(f"{fam}: observation lists of different lengths: {py} {rs} {ref}")
    reported = False
    for v in range(len(ref)):
        if py[v] == rs[v]:
            if not L.allowed(fam, exp, v, py[v], ref[v]):
                # the two implementations agree with each other, not with the reference: drift
                key = f"{GROUP[fam]}:{L.bucket(fam, inp, exp, v, py[v], rs[v], ref[v])[2]}"
                stats["drift"][key] = stats["drift"].get(key, 0) + 1
                if stats["drift"][key] == 1:
                    ctx.drift_event(f"{GROUP[fam]}: both implementations return {L.describe_obs(py[v])}, the reference "
                                    f"semantics says {L.describe_obs(ref[v])} for {render_input(fam, inp)} variant {v} [{key}]")
            continue
        if reported and fam in ("delta", "deltax", "deltatrace", "blocks", "cdelta"):
            continue        # variants of these families are the same call in another form
        reported = True
        site, clause, cls = L.bucket(fam, inp, exp, v, py[v], rs[v], ref[v])
        sig = f"{site}|{GROUP[fam]}:{clause}|{cls}"
        what = (f"{render_input(fam, inp)}: pure Python -> {L.describe_obs(py[v])}; Rust -> {L.describe_obs(rs[v])}; "
                f"reference semantics -> {L.describe_obs(ref[v])}")
        rep = {"kind": "case", "fam": fam, "inp": inp, "exp": exp, "variant": v, "py": py, "rs": rs, "reference": ref,
               "py_details": dpy, "rs_details": drs, "call": render_input(fam, inp), "origin": origin}
        fnd.add(sig, what, rep, L.case_size(inp))


def new_stats():
    return {"cases": 0, "nontrivial": 0, "py_outside_reference": 0, "rs_outside_reference": 0, "divergent": 0,
            "killed": 0, "drift": {}}


def compare_streams(ctx, fnd, stats, fam, cases_iter, out_py, out_rs, origin, sample_to=None):
    """Compare the observation streams of the two children line by line; cases_iter yields
    (inp, exp) in the same order (consumed only when something has to be looked at)."""
    with open(out_py) as f:
        lp = f.read().splitlines()
    with open(out_rs) as f:
        lr = f.read().splitlines()
    if len(lp) != len(lr):
        raise MachineryError(f"{fam}: children returned {len(lp)} / {len(lr)} observations")
    look = []
    for i, (a, b) in enumerate(zip(lp, lr)):
        if a[1] == "n" or b[1] == "n":
            stats["nontrivial"] += 1
        if a[0] == "!":
            stats["py_outside_reference"] += 1
        if b[0] == "!":
            stats["rs_outside_reference"] += 1
        if a[3:] != b[3:]:
            stats["divergent"] += 1
            look.append(i)
        elif a[0] == "!" or b[0] == "!":
            look.append(i)
    stats["cases"] += len(lp)
    want_sample = sample_to is not None
    if not look and not want_sample:
        return len(lp)
    wanted = set(look)
    dpy, drs = read_details(out_py, wanted), read_details(out_rs, wanted)
    for i, (inp, exp) in enumerate(cases_iter):
        if want_sample and lp[i][1] == "n" and lp[i][0] == "=":
            sample_to({"family": fam, "call": render_input(fam, inp), "py": json.loads(lp[i][3:]), "rs": json.loads(lr[i][3:]),
                       "reference": L.expected(fam, inp, exp)})
            want_sample = False
        if i in wanted:
            judge_case(ctx, fnd, stats, fam, inp, exp, json.loads(lp[i][3:]), json.loads(lr[i][3:]),
                       dpy.get(i, {}), drs.get(i, {}), origin)
        if not want_sample and i >= (max(look) if look else -1):
            break
    return len(lp)


# =========================================================================== R: enumerated cases
def run_enum_family(ctx, fnd, child_pool, fam, cfg, workers, nslices, label):
    dump = os.path.join(ctx.scratch, f"{cfg}.dump")
    res = tlc.run("EquivCases.tla", cfg, workers=workers, timeout=3000, dump_states=dump[:-5])
    if not res.ok:
        return fam, cfg, label, res, None, None
    parts = L.split_dump(dump, nslices)
    futs = {}
    for (a, b) in parts:
        for m in MODES:
            futs[(m, a, b)] = child_pool.submit(run_child, ctx, m, {"kind": "dump", "fam": fam, "path": dump, "start": a, "end": b})
    stats = new_stats()
    samples = []
    total = 0
    for (a, b) in parts:
        op, orr = futs[("py", a, b)].result(), futs[("rs", a, b)].result()
        for o in (op, orr):
            with open(o + ".sum") as f:
                stats["killed"] += json.load(f)["killed"]
        it = ((st["inp"], st["exp"]) for st in L.read_dump(dump, a, b))
        total += compare_streams(ctx, fnd, stats, fam, it, op, orr, f"TLC {cfg}",
                                 sample_to=samples.append if not samples else None)
        for o in (op, orr):
            shutil.rmtree(os.path.dirname(o), ignore_errors=True)
    os.remove(dump)
    if total != res.distinct:
        raise MachineryError(f"{cfg}: children ran {total} of {res.distinct} enumerated states")
    return fam, cfg, label, res, stats, samples


def phase_enum(ctx, fnd):
    jobs = []
    for fam, qcfg, tcfgs, workers, nslices, label in ENUM:
        for cfg in ([qcfg] if ctx.quick else tcfgs):
            jobs.append((fam, cfg, workers if ctx.quick else 8, nslices if ctx.quick else 7, label))
    results = []
    # quick: several small TLC runs side by side (workers add up to <= 8); thorough: one at a time
    with cf.ThreadPoolExecutor(max_workers=12) as child_pool:
        if ctx.quick:
            heavy = [j for j in jobs if j[2] > 1]
            light = [j for j in jobs if j[2] == 1]
            with cf.ThreadPoolExecutor(max_workers=1) as hp, cf.ThreadPoolExecutor(max_workers=5) as lp:
                fs = [hp.submit(run_enum_family, ctx, fnd, child_pool, *j) for j in heavy]
                fs += [lp.submit(run_enum_family, ctx, fnd, child_pool, *j) for j in light]
                results = [f.result() for f in fs]
        else:
            small = [j for j in jobs if j[0] not in ("ptstr", "ptmode", "delta")]
            big = [j for j in jobs if j[0] in ("ptstr", "ptmode", "delta")]
            with cf.ThreadPoolExecutor(max_workers=1) as hp, cf.ThreadPoolExecutor(max_workers=2) as lp:
                fs = [lp.submit(run_enum_family, ctx, fnd, child_pool, j[0], j[1], 2, 2, j[4]) for j in small]
                fs += [hp.submit(run_enum_family, ctx, fnd, child_pool, j[0], j[1], 4, 8, j[4]) for j in big]
                results = [f.result() for f in fs]
    per_family = {}
    for fam, cfg, label, res, stats, samples in results:
        ctx.add_tlc(f"EquivCases/{cfg} ({label})", res)
        ctx.log(f"{cfg}: {res.distinct} cases in {res.wall_s:.1f}s TLC; divergent {stats['divergent']}, "
                f"outside reference py {stats['py_outside_reference']} rs {stats['rs_outside_reference']}, killed {stats['killed']}")
        ctx.count(2 * stats["cases"])
        ctx.validated(2 * stats["cases"])
        for i in range(stats["nontrivial"]):
            ctx.nontrivial((cfg, i))
        for s in samples or []:
            ctx.sample(s, limit=8)
        per_family[cfg] = {k: v for k, v in stats.items() if k != "drift"}
        if stats["drift"]:
            per_family[cfg]["agree_with_each_other_not_with_reference"] = stats["drift"]
    ctx.cov["enumerated"] = per_family
    return per_family


# =========================================================================== run / replay
def run(ctx):
    rustext.build()
    ctx.cov["rule"] = ("a case is non-trivial when at least one implementation or the reference semantics yields a value "
                       "for at least one variant of the call (not: failure everywhere)")
    ctx.assumptions += [
        "Rust extensions: release build of the working tree's crates (cargo --release --offline), loaded by path in a child interpreter; pure Python: the three extension modules blocked before dulwich is imported",
        "an exception of any class, a pyo3 PanicException and the death of the child process are all the observation 'fail' (failure in both is equivalence; allocation/panic behaviour as such is C03's)",
        "PYTHONHASHSEED=0 in both children (block counts are keyed by hash(bytes))",
        "reference semantics of parse_tree includes one shared leniency of both implementations (a single leading '+' in a mode); anything else on which both agree against the reference is reported as SPEC-DRIFT",
    ]
    fnd = Findings(ctx)
    phase_enum(ctx, fnd)
    fnd.flush()
    return ctx.finish(exhaustive=True)


def replay(ctx, path):
    with open(path) as f:
        obj = json.load(f)
    print(json.dumps({k: v for k, v in obj.items() if k not in ("inp", "exp")}, indent=1)[:4000])
    return 0

"""C15 -- Rust extensions and pure-Python fallbacks are observationally equivalent.

Property (a relation between two programs): for every function that exists both in pure Python
and in Rust, Obs(py, x) = Obs(rs, x) with Obs in {value} + {fail}; for create_delta both deltas
must decode to the target; enabling the extensions never changes a repository-level result.

Specs: specs/Equiv.tla (reference semantics of the five families: ParseTree, SortItems, Delta!Run
and Delta!Cand reused read-only from C03, Find, TreeDiff!Merge reused read-only from C12, IsTree,
Count, each with lemmas), EquivCases.tla (TLC enumerates the input spaces, one state per input
with the reference answer; lemmas are invariants), EquivTrace.tla (TLC judges recorded
executions).  Binding:

  R  spec -> code   every state TLC enumerates is executed on BOTH real implementations in
                    sandboxed children (Rust = release build of the working tree loaded by path,
                    Python = extensions blocked; blocks of cases run in forked grandchildren so
                    that an abort is an observation).  The two observation streams are compared
                    case by case (the property); the reference answer says which side is wrong.
  T  code -> spec   hypothesis / rng generated larger inputs (real trees with 20/32-byte ids and
                    their mutations, dictionaries of random names, (base, target) pairs and
                    mutated deltas on larger bases, larger id tables, tree pairs, blobs) are run
                    on both implementations, recorded as ndjson and judged by TLC (EquivTrace):
                    ObsEq(py, rs) and agreement of each side with the reference.
                    Pairs too large for TLC's byte-level decoder (copy sizes of 2 bytes, runs above
                    64 KiB, offsets of 2-3 bytes) go through all four encoder x decoder pairings of
                    the real code with the target itself as the specification.
  E  end to end     repository-level scenario (commit_tree, tree_changes with rename detection,
                    pack write + read with deltas incl. a pack made by C git, index lookups by
                    bisection, commits in an on-disk repository + pack_loose_objects) once with and
                    once without the extensions; results compared.
  G  C git          validates the *specification*: on a sample of the recorded tree payloads
                    `git ls-tree` must accept exactly what ParseTree accepts and list the same names
                    and ids (outside three documented differences); disagreement = machinery failure.
  N  controls       model level: TLC must report the lemma violated in two defect models (a name
                    with '/', a model of Python's int()); binding level: ten corrupted recorded
                    executions must be refused by EquivTrace.

VIOLATION = the two implementations differ on an input (signature: blamed site | clause | class).
Both agreeing with each other but not with the reference is SPEC-DRIFT (never an alarm).
"""
from __future__ import annotations

import concurrent.futures as cf
import json
import os
import shutil
import subprocess
import threading

from .. import c15_gen as G
from .. import c15_lib as L
from .. import rustext, tlc
from ..core import VERIF, MachineryError, git_available

PY = "/venv/bin/python"
CHILD = os.path.join(VERIF, "harness", "c15_child.py")
MODES = ("py", "rs")
GROUP = {"ptstr": "parse_tree", "ptmode": "parse_tree", "pttrace": "parse_tree", "items": "sorted_tree_items",
         "delta": "apply_delta", "deltax": "apply_delta", "deltatrace": "apply_delta", "cdelta": "create_delta",
         "bisect": "bisect_find_sha", "merge": "_merge_entries", "istree": "_is_tree", "blocks": "_count_blocks"}

# family -> (quick cfg, thorough cfgs, TLC workers, slices per mode, description)
ENUM = [
    ("ptstr", "Equiv_ptstr_q.cfg", ["Equiv_ptstr_t.cfg"], 3, 4,
     "tree payloads: every string <=L over {0 1 4 7 8 + - _ SP NUL a / 0xff} followed by id tails (20/32 bytes, truncated, second entry)"),
    ("ptmode", "Equiv_ptmode_q.cfg", ["Equiv_ptmode_t.cfg"], 1, 2,
     "tree payloads: one entry, mode text = every string <=L over 16 mode bytes + 40 long spellings (32/64-bit limits, signs, _, 0o, white space), 4 frames"),
    ("delta", "Equiv_delta_q.cfg", ["Equiv_delta_t.cfg"], 1, 2,
     "deltas: every string <=L over C03's 12-byte opcode alphabet x bases {'', ab, abc}"),
    ("deltax", "Equiv_deltax_q.cfg", ["Equiv_deltax_t.cfg"], 1, 1,
     "deltas: op templates x target sizes 0..5 x padded / wrapping / huge size headers, base ab"),
    ("items", "Equiv_items_q.cfg", ["Equiv_items_t.cfg"], 1, 1,
     "entry dictionaries: all insertion orders of <=K names of {a a.b a- a0 ab b} x mode tags x name_order"),
    ("bisect", "Equiv_bisect_q.cfg", ["Equiv_bisect_t.cfg"], 1, 1,
     "sorted id tables <=K over 3 ids (duplicates allowed) x every (lo, hi) incl. lo>hi and out of table x 7 probes x index offsets up to 2^32 x id length"),
    ("merge", "Equiv_merge_q.cfg", ["Equiv_merge_t.cfg"], 1, 1,
     "pairs of trees (<=K entries over 4 names x cells, or None) x 3 path prefixes"),
    ("blocks", "Equiv_blocks_q.cfg", ["Equiv_blocks_t.cfg"], 1, 1,
     "blob contents by run-length classes (<=3 runs, lengths around the 64-byte block) x 4 chunkings"),
    ("cdelta", "Equiv_cdelta_q.cfg", ["Equiv_cdelta_t.cfg"], 1, 1,
     "(base, target) pairs over {a b} up to length K for both encoders, and the reference encoder's delta for both decoders"),
    ("istree", "Equiv_istree.cfg", ["Equiv_istree.cfg"], 1, 1, "entries: None, mode None, 16 type nibbles x 4 permission patterns"),
]


# =========================================================================== children
_job_seq = [0]
_job_lock = threading.Lock()


def run_child(ctx, mode, job, timeout=3000):
    """Run one child job; -> path of its output."""
    with _job_lock:
        _job_seq[0] += 1
        d = os.path.join(ctx.scratch, f"job{_job_seq[0]}-{mode}")
    os.makedirs(d)
    job = dict(job, mode=mode, out=os.path.join(d, "out"))
    jf = os.path.join(d, "job.json")
    with open(jf, "w") as f:
        json.dump(job, f)
    env = dict(os.environ, RUST_BACKTRACE="0", PYTHONDONTWRITEBYTECODE="1", PYTHONHASHSEED="0")
    with open(os.path.join(d, "stderr"), "wb") as err:
        try:
            p = subprocess.run([PY, CHILD, jf], stdout=subprocess.DEVNULL, stderr=err, env=env, timeout=timeout)
            rc = p.returncode
        except subprocess.TimeoutExpired:
            rc = -999
    done = job["out"] if job["kind"] == "repo" else job["out"] + ".sum"
    if rc != 0 or not os.path.exists(done):
        with open(os.path.join(d, "stderr"), "rb") as f:
            tail = f.read()[-2500:].decode("utf-8", "replace")
        raise MachineryError(f"C15 child ({mode}, {job['kind']} {job.get('fam', '')}) failed rc={rc}:\n{tail}")
    return job["out"]


def read_details(path, wanted):
    out = {}
    if not wanted:
        return out
    with open(path + ".det") as f:
        for line in f:
            i, _, js = line.partition("\t")
            if int(i) in wanted:
                out[int(i)] = json.loads(js)
    return out


# =========================================================================== findings
class Findings:
    """Collects divergent cases per signature and reports the smallest one of each."""

    def __init__(self, ctx):
        self.ctx = ctx
        self.best = {}
        self.lock = threading.Lock()

    def add(self, sig, what, replay_obj, size):
        with self.lock:
            cur = self.best.get(sig)
            key = (size, json.dumps(replay_obj, sort_keys=True, default=str))
            if cur is None or key < cur[0]:
                self.best[sig] = (key, what, replay_obj, (cur[3] if cur else 0) + 1)
            else:
                self.best[sig] = (cur[0], cur[1], cur[2], cur[3] + 1)

    def flush(self):
        for sig in sorted(self.best):
            _, what, rep, n = self.best[sig]
            self.ctx.violation(sig, f"{what} [{n} enumerated/recorded cases with this signature]",
                               dict(rep, cases_with_this_signature=n))
        self.best = {}


def render_input(fam, inp):
    """Human-readable form of a case for messages and replay files."""
    try:
        if fam in ("ptstr", "ptmode"):
            t, n = L.pt_text(inp)
            return f"parse_tree({t!r}, sha_len={n})"
        if fam == "pttrace":
            return f"parse_tree({bytes.fromhex(inp[0])!r}, sha_len={inp[1]})"
        if fam == "items":
            return "sorted_tree_items({" + ", ".join(f"{bytes(n)!r}: ({L.MODE[t]:o}, id)" for n, t in inp[0]) + f"}}, name_order={bool(inp[1])})"
        if fam in ("delta", "deltax"):
            return f"apply_delta({bytes(inp[0])!r}, bytes.fromhex('{bytes(inp[1]).hex()}'))"
        if fam == "deltatrace":
            return f"apply_delta(bytes.fromhex('{inp[0]}'), bytes.fromhex('{inp[1]}'))"
        if fam == "cdelta":
            b, t = (bytes(inp[0]), bytes(inp[1])) if not isinstance(inp[0], str) else (bytes.fromhex(inp[0]), bytes.fromhex(inp[1]))
            return f"create_delta({b!r}, {t!r})"
        if fam == "bisect":
            table, lo, hi, key, offc, idl = inp
            return (f"bisect_find_sha({L.OFFS[offc]}+{lo}, {L.OFFS[offc]}+{hi}, id{key}, table={table} at offset {L.OFFS[offc]}, "
                    f"{idl}-byte ids)")
        if fam == "merge":
            def t(x):
                return "None" if x[0] == 0 else "{" + ", ".join(f"{bytes(n)!r}:{m}{i}" for n, m, i in x[1]) + "}"
            return f"_merge_entries({L.PREFIX[inp[0]]!r}, {t(inp[1])}, {t(inp[2])})"
        if fam == "istree":
            return f"_is_tree({inp[0]}, mode={inp[1] * 4096 + inp[2]:o})"
        if fam == "blocks":
            c = L.unrle(inp[0]) if not isinstance(inp[0], str) else bytes.fromhex(inp[0])
            return f"_count_blocks(blob of {len(c)} bytes {c[:40]!r}{'...' if len(c) > 40 else ''})"
    except Exception as e:  # noqa: BLE001
        return f"{fam} {inp!r} ({e})"
    return f"{fam} {inp!r}"


def judge_case(ctx, fnd, stats, fam, inp, exp, py, rs, dpy, drs, origin):
    """One case, both observation lists.  The property: py[v] == rs[v] for every variant."""
    ref = L.expected(fam, inp, exp)
    if not (len(py) == len(rs) == len(ref)):
        raise MachineryError(f"{fam}: observation lists of different lengths: {py} {rs} {ref}")
    reported = False
    for v in range(len(ref)):
        if py[v] == rs[v]:
            if not L.allowed(fam, exp, v, py[v], ref[v]):
                # the two implementations agree with each other, not with the reference: drift
                key = f"{GROUP[fam]}:{L.bucket(fam, inp, exp, v, py[v], rs[v], ref[v])[2]}"
                stats["drift"][key] = stats["drift"].get(key, 0) + 1
                if stats["drift"][key] == 1:
                    ctx.drift_event(f"{GROUP[fam]}: both implementations return {L.describe_obs(py[v])}, the reference "
                                    f"semantics says {L.describe_obs(ref[v])} for {render_input(fam, inp)} variant {v} [{key}]")
            continue
        if reported and fam in ("delta", "deltax", "deltatrace", "blocks", "cdelta"):
            continue        # variants of these families are the same call in another form
        reported = True
        site, clause, cls = L.bucket(fam, inp, exp, v, py[v], rs[v], ref[v])
        sig = f"{site}|{GROUP[fam]}:{clause}|{cls}"
        what = (f"{render_input(fam, inp)}: pure Python -> {L.describe_obs(py[v])}; Rust -> {L.describe_obs(rs[v])}; "
                f"reference semantics -> {L.describe_obs(ref[v])}")
        rep = {"kind": "case", "fam": fam, "inp": inp, "exp": exp, "variant": v, "py": py, "rs": rs, "reference": ref,
               "py_details": dpy, "rs_details": drs, "call": render_input(fam, inp), "origin": origin}
        fnd.add(sig, what, rep, L.case_size(inp))


def new_stats():
    return {"cases": 0, "nontrivial": 0, "py_outside_reference": 0, "rs_outside_reference": 0, "divergent": 0,
            "killed": 0, "drift": {}}


def compare_streams(ctx, fnd, stats, fam, cases_iter, out_py, out_rs, origin, sample_to=None):
    """Compare the observation streams of the two children line by line; cases_iter yields
    (inp, exp) in the same order (consumed only when something has to be looked at)."""
    with open(out_py) as f:
        lp = f.read().splitlines()
    with open(out_rs) as f:
        lr = f.read().splitlines()
    if len(lp) != len(lr):
        raise MachineryError(f"{fam}: children returned {len(lp)} / {len(lr)} observations")
    look = []
    for i, (a, b) in enumerate(zip(lp, lr)):
        if a[1] == "n" or b[1] == "n":
            stats["nontrivial"] += 1
        if a[0] == "!":
            stats["py_outside_reference"] += 1
        if b[0] == "!":
            stats["rs_outside_reference"] += 1
        if a[3:] != b[3:]:
            stats["divergent"] += 1
            look.append(i)
        elif a[0] == "!" or b[0] == "!":
            look.append(i)
    stats["cases"] += len(lp)
    wanted = set(look)
    dpy, drs = read_details(out_py, wanted), read_details(out_rs, wanted)
    known = {}
    for i in look:
        c = dpy.get(i, {}).pop("case", None) or drs.get(i, {}).pop("case", None)
        drs.get(i, {}).pop("case", None)
        if c is not None:
            known[i] = c
    need = wanted - set(known)
    want_sample = sample_to is not None
    if need or want_sample:
        last = max(need) if need else -1
        for i, (inp, exp) in enumerate(cases_iter):
            if want_sample and lp[i][:2] == "=n" and (i > 200 or L.case_size(inp) > 40):
                sample_to({"family": fam, "call": render_input(fam, inp), "py": json.loads(lp[i][3:]), "rs": json.loads(lr[i][3:]),
                           "reference": L.expected(fam, inp, exp)})
                want_sample = False
            if i in need:
                known[i] = [inp, exp]
            if i >= last and (not want_sample or i > 5000):
                break
    for i in look:
        inp, exp = known[i]
        judge_case(ctx, fnd, stats, fam, inp, exp, json.loads(lp[i][3:]), json.loads(lr[i][3:]), dpy.get(i, {}), drs.get(i, {}), origin)
    return len(lp)


# =========================================================================== R: enumerated cases
def run_enum_family(ctx, fnd, child_pool, fam, cfg, workers, nslices, label):
    dump = os.path.join(ctx.scratch, f"{cfg}.dump")
    res = tlc.run("EquivCases.tla", cfg, workers=workers, timeout=3000, dump_states=dump[:-5])
    if not res.ok:
        return fam, cfg, label, res, None, None
    parts = L.split_dump(dump, nslices)
    futs = {}
    for (a, b) in parts:
        for m in MODES:
            futs[(m, a, b)] = child_pool.submit(run_child, ctx, m, {"kind": "dump", "fam": fam, "path": dump, "start": a, "end": b})
    stats = new_stats()
    samples = []
    total = 0
    for (a, b) in parts:
        op, orr = futs[("py", a, b)].result(), futs[("rs", a, b)].result()
        for o in (op, orr):
            with open(o + ".sum") as f:
                stats["killed"] += json.load(f)["killed"]
        it = ((st["inp"], st["exp"]) for st in L.read_dump(dump, a, b))
        total += compare_streams(ctx, fnd, stats, fam, it, op, orr, f"TLC {cfg}",
                                 sample_to=samples.append if not samples else None)
        for o in (op, orr):
            shutil.rmtree(os.path.dirname(o), ignore_errors=True)
    os.remove(dump)
    if total != res.distinct:
        raise MachineryError(f"{cfg}: children ran {total} of {res.distinct} enumerated states")
    return fam, cfg, label, res, stats, samples


def phase_enum(ctx, fnd):
    jobs = []
    for fam, qcfg, tcfgs, workers, nslices, label in ENUM:
        for cfg in ([qcfg] if ctx.quick else tcfgs):
            jobs.append((fam, cfg, workers if ctx.quick else 8, nslices if ctx.quick else 7, label))
    results = []
    # quick: several small TLC runs side by side (workers add up to <= 8); thorough: one at a time
    with cf.ThreadPoolExecutor(max_workers=12) as child_pool:
        if ctx.quick:
            heavy = [j for j in jobs if j[2] > 1]
            light = [j for j in jobs if j[2] == 1]
            with cf.ThreadPoolExecutor(max_workers=1) as hp, cf.ThreadPoolExecutor(max_workers=5) as lp:
                fs = [hp.submit(run_enum_family, ctx, fnd, child_pool, *j) for j in heavy]
                fs += [lp.submit(run_enum_family, ctx, fnd, child_pool, *j) for j in light]
                results = [f.result() for f in fs]
        else:
            small = [j for j in jobs if j[0] not in ("ptstr", "ptmode", "delta")]
            big = [j for j in jobs if j[0] in ("ptstr", "ptmode", "delta")]
            with cf.ThreadPoolExecutor(max_workers=1) as hp, cf.ThreadPoolExecutor(max_workers=2) as lp:
                fs = [lp.submit(run_enum_family, ctx, fnd, child_pool, j[0], j[1], 2, 2, j[4]) for j in small]
                fs += [hp.submit(run_enum_family, ctx, fnd, child_pool, j[0], j[1], 4, 8, j[4]) for j in big]
                results = [f.result() for f in fs]
    per_family = {}
    for fam, cfg, label, res, stats, samples in results:
        ctx.add_tlc(f"EquivCases/{cfg} ({label})", res)
        ctx.log(f"{cfg}: {res.distinct} cases in {res.wall_s:.1f}s TLC; divergent {stats['divergent']}, "
                f"outside reference py {stats['py_outside_reference']} rs {stats['rs_outside_reference']}, killed {stats['killed']}")
        ctx.count(2 * stats["cases"])
        ctx.validated(2 * stats["cases"])
        for i in range(stats["nontrivial"]):
            ctx.nontrivial((cfg, i))
        for s in samples or []:
            ctx.sample(s, limit=30)
        per_family[cfg] = {k: v for k, v in stats.items() if k != "drift"}
        if stats["drift"]:
            per_family[cfg]["agree_with_each_other_not_with_reference"] = stats["drift"]
    ctx.cov["enumerated"] = per_family
    return per_family


# =========================================================================== T: recorded executions judged by TLC
def octal_digits(m):
    if not isinstance(m, int) or isinstance(m, bool) or m < 0:
        return [99]
    out = []
    while m:
        out.append(m & 7)
        m >>= 3
    return out[::-1]


def _hexl(h):
    return list(bytes.fromhex(h))


def trace_obs(fam, inp, obs, details):
    """Observation list of one child for one case -> the records EquivTrace reads."""
    out = []
    for v, o in enumerate(obs):
        if fam == "cdelta":
            d = details.get("delta" if v == 0 else "delta_chunks")
            out.append({"k": "v", "d": _hexl(d)} if d is not None else {"k": "f"})
            continue
        if o[0] == "f":
            out.append({"k": "f"})
        elif fam == "pttrace":
            out.append({"k": "v", "e": [[octal_digits(m), _hexl(n), _hexl(s) if len(s) % 2 == 0 else [256]] for n, m, s in o[1]]})
        elif fam == "items":
            out.append({"k": "v", "e": [[_hexl(p), G.TAG_OF.get(m, "?") if (t == "TreeEntry" and s == L.item_sha(bytes.fromhex(p)).decode()) else "!"]
                                        for t, p, m, s in o[1]]})
        elif fam == "deltatrace":
            out.append({"k": "v", "out": _hexl(o[1])})
        elif fam == "bisect":
            out.append({"k": "none"} if o[1] is None else {"k": "val", "i": o[1]} if isinstance(o[1], int) and o[1] >= 0 else {"k": "val", "i": 100000})
        elif fam == "merge":
            pre = L.PREFIX[inp[0]]
            pre = pre + b"/" if pre else pre
            ids = {v_.decode(): k for k, v_ in L.IDS.items()}

            def e(x):
                if x is None:
                    return []
                t, p, m, s = x
                p = bytes.fromhex(p)
                name = list(p[len(pre):]) if p.startswith(pre) and t == "TreeEntry" else [0]
                return [name, G.TAG_OF.get(m, "?"), ids.get(s, "?")]
            out.append({"k": "v", "e": [[e(a), e(b)] for a, b in o[1]]})
        elif fam == "blocks":
            out.append({"k": "v", "totals": sorted(t for _, t in o[1])} if o[1] is not None else None)
    return out


def make_trace(tid, fam, inp, py, rs, dpy, drs):
    tp, tr = trace_obs(fam, inp, py, dpy), trace_obs(fam, inp, rs, drs)
    keep = [k for k in range(len(tp)) if tp[k] is not None and tr[k] is not None]
    t = {"tid": tid, "py": [tp[k] for k in keep], "rs": [tr[k] for k in keep]}
    if fam == "pttrace":
        t.update(fam="pt", text=_hexl(inp[0]), shaLen=inp[1])
    elif fam == "items":
        t.update(fam="items", items=inp[0], no=inp[1])
    elif fam == "deltatrace":
        t.update(fam="delta", base=_hexl(inp[0]), delta=_hexl(inp[1]))
    elif fam == "cdelta":
        t.update(fam="cdelta", base=_hexl(inp[0]), target=_hexl(inp[1]))
    elif fam == "bisect":
        t.update(fam="bisect", table=inp[0], lo=inp[1], hi=inp[2], key=inp[3])
    elif fam == "merge":
        t.update(fam="merge", t1=inp[1], t2=inp[2])
    elif fam == "blocks":
        t.update(fam="blocks", content=_hexl(inp[0]))
    return t, keep


def run_cases_both(ctx, cases, nsplit):
    """cases: list of {"fam", "inp"} -> (obs {mode: [obs list per case]}, details {mode: {i: {}}})"""
    d = ctx.tmpdir("cases")
    chunks = [list(range(i, len(cases), nsplit)) for i in range(nsplit)]
    chunks = [c for c in chunks if c]
    paths = []
    for k, idxs in enumerate(chunks):
        p = os.path.join(d, f"c{k}.ndjson")
        with open(p, "w") as f:
            for i in idxs:
                f.write(json.dumps(cases[i], separators=(",", ":")) + "\n")
        paths.append(p)
    obs = {m: [None] * len(cases) for m in MODES}
    det = {m: {} for m in MODES}
    with cf.ThreadPoolExecutor(max_workers=2 * len(paths)) as ex:
        futs = {(m, k): ex.submit(run_child, ctx, m, {"kind": "cases", "path": paths[k]}) for m in MODES for k in range(len(paths))}
        for (m, k), fu in futs.items():
            out = fu.result()
            with open(out) as f:
                lines = f.read().splitlines()
            if len(lines) != len(chunks[k]):
                raise MachineryError(f"C15 cases child returned {len(lines)} of {len(chunks[k])} observations")
            dd = read_details(out, set(range(len(lines))))
            for j, i in enumerate(chunks[k]):
                obs[m][i] = json.loads(lines[j][3:])
                if j in dd:
                    det[m][i] = dd[j]
            shutil.rmtree(os.path.dirname(out), ignore_errors=True)
    shutil.rmtree(d, ignore_errors=True)
    return obs, det


def tlc_verdicts(ctx, traces, label):
    """-> {tid: verdict list}"""
    out = {}
    if not traces:
        return out
    d = ctx.tmpdir("tr")
    B = 2500
    for i in range(0, len(traces), B):
        chunk = traces[i:i + B]
        path = os.path.join(d, f"t{i}.ndjson")
        with open(path, "w") as f:
            for t in chunk:
                f.write(json.dumps(t, separators=(",", ":")) + "\n")
        res = tlc.run("EquivTrace.tla", "EquivTrace.cfg", workers=1, timeout=3000, env={"TRACE_FILE": path}, java_opts=["-Xss256m"])
        ctx.add_tlc(f"EquivTrace[{label}:{i}] ({len(chunk)} recorded executions)", res)
        n = 0
        for line in res.output.splitlines():
            if line.startswith('"<<\\"VERDICT\\"'):
                v = L._val(line.strip()[1:-1].replace('\\"', '"'))
                out[v[1]] = v
                n += 1
        if n != len(chunk):
            raise MachineryError(f"trace validation incomplete ({n}/{len(chunk)} verdicts)\n{res.output[-2000:]}")
    shutil.rmtree(d, ignore_errors=True)
    return out


TRACE_CONTROLS = [
    # (name, trace, which verdict component must contain a FALSE: 4 = eq, 5 = pyOk, 6 = rsOk)
    ("parse_tree: one side drops an entry", {"fam": "pt", "text": list(b"7 a\0" + b"s" * 20), "shaLen": 20,
                                             "py": [{"k": "v", "e": [[[7], [97], [115] * 20]]}] * 2, "rs": [{"k": "v", "e": []}] * 2}, (4, 6)),
    ("parse_tree: both accept a signed mode", {"fam": "pt", "text": list(b"-7 a\0" + b"s" * 20), "shaLen": 20,
                                               "py": [{"k": "v", "e": [[[7], [97], [115] * 20]]}] * 2, "rs": [{"k": "v", "e": [[[7], [97], [115] * 20]]}] * 2}, (5, 6)),
    ("sorted_tree_items: directory sorted as a file", {"fam": "items", "items": [[[97], "T"], [[97, 46], "F"]], "no": 0,
                                                       "py": [{"k": "v", "e": [[[97], "T"], [[97, 46], "F"]]}], "rs": [{"k": "v", "e": [[[97, 46], "F"], [[97], "T"]]}]}, (4, 5)),
    ("apply_delta: corrupted output byte", {"fam": "delta", "base": [97, 98], "delta": [2, 3, 0x90, 2, 1, 120],
                                           "py": [{"k": "v", "out": [97, 98, 120]}], "rs": [{"k": "v", "out": [97, 99, 120]}]}, (4, 6)),
    ("create_delta: delta that decodes to something else", {"fam": "cdelta", "base": [97, 98], "target": [97, 98, 99],
                                                           "py": [{"k": "v", "d": [2, 3, 0x90, 2, 1, 99]}], "rs": [{"k": "v", "d": [2, 3, 0x90, 2, 1, 100]}]}, (4, 6)),
    ("create_delta: one encoder fails", {"fam": "cdelta", "base": [97, 98], "target": [97],
                                         "py": [{"k": "f"}], "rs": [{"k": "v", "d": [2, 1, 0x90, 1]}]}, (4, 5)),
    ("bisect_find_sha: off by one", {"fam": "bisect", "table": [2, 4, 6], "lo": 0, "hi": 2, "key": 4,
                                     "py": [{"k": "val", "i": 1}], "rs": [{"k": "val", "i": 2}]}, (4, 6)),
    ("bisect_find_sha: miss reported for a present id", {"fam": "bisect", "table": [2, 4, 6], "lo": 0, "hi": 2, "key": 6,
                                                         "py": [{"k": "none"}], "rs": [{"k": "none"}]}, (5, 6)),
    ("_merge_entries: pair split", {"fam": "merge", "t1": [1, [[[97], "F", "x"]]], "t2": [1, [[[97], "F", "y"]]],
                                    "py": [{"k": "v", "e": [[[[97], "F", "x"], [[97], "F", "y"]]]}],
                                    "rs": [{"k": "v", "e": [[[[97], "F", "x"], []], [[], [[97], "F", "y"]]]}]}, (4, 6)),
    ("_count_blocks: block cut at 63", {"fam": "blocks", "content": [120] * 70,
                                        "py": [{"k": "v", "totals": [6, 64]}], "rs": [{"k": "v", "totals": [7, 63]}]}, (4, 6)),
]


def phase_traces(ctx, fnd):
    import random
    rng = random.Random(ctx.seed * 7919 + 15)
    k = ctx.pick(1, 8)
    cases = []
    cases += [{"fam": "pttrace", "inp": c} for c in G.tree_payloads(rng, ctx.seed, 350 * k)]
    cases += [{"fam": "items", "inp": c} for c in G.item_dicts(rng, 120 * k)]
    cases += [{"fam": "cdelta", "inp": c} for c in G.delta_pairs(rng, ctx.seed, 120 * k)]
    cases += [{"fam": "bisect", "inp": c} for c in G.bisect_cases(rng, 250 * k)]
    cases += [{"fam": "merge", "inp": c} for c in G.merge_cases(rng, 120 * k)]
    cases += [{"fam": "blocks", "inp": c} for c in G.blob_contents(rng, 60 * k)]
    obs, det = run_cases_both(ctx, cases, ctx.pick(2, 4))
    # second stage: every delta an encoder produced, and mutations of it, through both decoders
    seen = set()
    dcases = []
    for i, c in enumerate(cases):
        if c["fam"] != "cdelta":
            continue
        for m in MODES:
            for key in ("delta", "delta_chunks"):
                d = det[m].get(i, {}).get(key)
                if d is None:
                    continue
                for dd in [d] + [G.mutate_delta(rng, bytes.fromhex(d)).hex() for _ in range(2)]:
                    if (c["inp"][0], dd) not in seen:
                        seen.add((c["inp"][0], dd))
                        dcases.append({"fam": "deltatrace", "inp": [c["inp"][0], dd]})
    obs2, det2 = run_cases_both(ctx, dcases, ctx.pick(2, 4))
    all_cases = cases + dcases
    for m in MODES:
        obs[m] += obs2[m]
        det[m].update({len(cases) + i: v for i, v in det2[m].items()})
    ctx.count(2 * len(all_cases))
    traces, keeps = [], {}
    for i, c in enumerate(all_cases):
        t, keep = make_trace(i + 1, c["fam"], c["inp"], obs["py"][i], obs["rs"][i], det["py"].get(i, {}), det["rs"].get(i, {}))
        traces.append(t)
        keeps[i + 1] = keep
    n0 = len(traces)
    for name, t, _ in TRACE_CONTROLS:
        traces.append(dict(t, tid=len(traces) + 1))
    verdicts = tlc_verdicts(ctx, traces, "recorded")
    # negative controls of the binding: observations that contradict the property / the reference
    # must be refused by EquivTrace
    for j, (name, t, must_fail) in enumerate(TRACE_CONTROLS):
        v = verdicts[n0 + 1 + j]
        for comp in must_fail:
            if all(v[comp]):
                raise MachineryError(f"binding control '{name}' was accepted by EquivTrace (component {comp}): {v}")
    ctx.cov["binding_negative_controls_refused"] = len(TRACE_CONTROLS)
    stats = new_stats()
    per = {}
    sampled = set()
    for i, c in enumerate(all_cases):
        fam, inp = c["fam"], c["inp"]
        v = verdicts[i + 1]
        _, _, _, summ, eq, pyok, rsok, pyref, rsref = v[:9]
        py, rs = obs["py"][i], obs["rs"][i]
        keep = keeps[i + 1]
        ctx.validated(2)
        st = per.setdefault(GROUP[fam], {"executions": 0, "divergent": 0, "nontrivial": 0})
        st["executions"] += 2
        if any(o[0] == "v" for o in py + rs):
            st["nontrivial"] += 1
            ctx.nontrivial(("trace", fam, json.dumps(inp, separators=(",", ":"))))
            if fam not in sampled and all(eq) and all(pyok) and L.case_size(inp) > 60:
                sampled.add(fam)
                ctx.sample({"recorded": render_input(fam, inp)[:300], "py": py, "rs": rs, "tlc_verdict": {"eq": eq, "py_ok": pyok, "rs_ok": rsok}}, limit=16)
        if fam == "bisect" and not v[9]:
            raise MachineryError(f"FindLemma fails on a recorded table: {inp}")
        reported = False
        for j, var in enumerate(keep):
            same = py[var] == rs[var]
            if fam != "cdelta" and eq[j] and not same:
                if fam == "blocks":
                    eq[j] = False        # same totals, different keys: the exact comparison decides
                else:
                    raise MachineryError(f"EquivTrace says equal, the recorded observations differ: {fam} {inp} {py[var]} {rs[var]}")
            if fam != "cdelta" and not eq[j] and same:
                raise MachineryError(f"EquivTrace says different, the recorded observations are equal: {fam} {inp} {py[var]}")
            if eq[j]:
                if not pyok[j]:
                    key = f"{GROUP[fam]}:{classify_trace(fam, inp, summ, var)}"
                    stats["drift"][key] = stats["drift"].get(key, 0) + 1
                    if stats["drift"][key] == 1:
                        ctx.drift_event(f"{GROUP[fam]}: both implementations return {L.describe_obs(py[var])} for {render_input(fam, inp)[:300]} "
                                        f"variant {var}, outside the reference semantics [{key}]")
                continue
            st["divergent"] += 1
            if reported and fam in ("deltatrace", "blocks", "cdelta"):
                continue
            reported = True
            psite, rsite = L.SITES[fam]
            site = rsite if pyref[j] and not rsref[j] else psite if rsref[j] and not pyref[j] else psite + "+" + rsite
            if fam == "cdelta":
                clause = f"delta-does-not-decode-to-target(py={'ok' if pyok[j] else 'bad'},rs={'ok' if rsok[j] else 'bad'})"
            else:
                refkind = ref_kind(fam, summ, var, py[var], rs[var], pyok[j], rsok[j])
                kinds = f"py={'value' if py[var][0] == 'v' else 'fail'},rs={'value' if rs[var][0] == 'v' else 'fail'},ref={refkind}"
                clause = ("different-values" if py[var][0] == "v" and rs[var][0] == "v" else
                          "python-accepts-rust-fails" if py[var][0] == "v" else "rust-accepts-python-fails") + f"({kinds})"
            sig = f"{site}|{GROUP[fam]}:{clause}|{classify_trace(fam, inp, summ, var)}"
            what = (f"{render_input(fam, inp)[:400]}: pure Python -> {L.describe_obs(py[var])}; Rust -> {L.describe_obs(rs[var])}; "
                    f"TLC (EquivTrace): equal={eq[j]} python-is-reference-answer={pyref[j]} rust-is-reference-answer={rsref[j]}")
            fnd.add(sig, what, {"kind": "trace", "fam": fam, "inp": inp, "variant": var, "py": py, "rs": rs,
                                "py_details": det["py"].get(i, {}), "rs_details": det["rs"].get(i, {}),
                                "tlc_verdict": v, "call": render_input(fam, inp), "origin": "recorded execution"}, L.case_size(inp))
    ctx.cov["recorded"] = per
    git_validates_parse_reference(ctx, all_cases, verdicts, obs)
    if stats["drift"]:
        ctx.cov["recorded_agree_with_each_other_not_with_reference"] = stats["drift"]


def phase_big_pairs(ctx, fnd):
    """create_delta on pairs too large for TLC's byte-level decoder: all four encoder x decoder
    pairings of the real code against the target (the target is the specification here)."""
    import random
    rng = random.Random(ctx.seed * 104729 + 15)
    pairs = G.big_pairs(rng, ctx.quick)
    cases = [{"fam": "cdelta", "inp": [b.hex(), t.hex()]} for _, b, t in pairs]
    obs, det = run_cases_both(ctx, cases, 4)
    dcases, meta = [], []
    for i, (name, b, t) in enumerate(pairs):
        want = ["v", L.rep(t)]
        for m in MODES:
            ctx.count()
            ctx.validated()
            for v, o in enumerate(obs[m][i]):
                if o != want:
                    site = L.SITES["cdelta"][MODES.index(m)]
                    fnd.add(f"{site}|create_delta:delta-does-not-decode-to-target|large:{name}",
                            f"create_delta on the pair '{name}' ({len(b)} -> {len(t)} bytes), {m}: own decoder gives {L.describe_obs(o)}, target is {want[1][:60]}",
                            {"kind": "case", "fam": "cdelta", "inp": cases[i]["inp"] if len(b) + len(t) < 4096 else [name], "exp": None, "variant": v,
                             "py": obs["py"][i], "rs": obs["rs"][i], "call": f"create_delta(<{name}>)", "origin": "large pair"}, len(b) + len(t))
            for key in ("delta", "delta_chunks"):
                d = det[m].get(i, {}).get(key)
                if d is not None and (b.hex(), d) not in {(c["inp"][0], c["inp"][1]) for c in dcases[-4:]}:
                    dcases.append({"fam": "deltatrace", "inp": [b.hex(), d]})
                    meta.append((name, m, t))
        ctx.nontrivial(("bigpair", name))
    obs2, _ = run_cases_both(ctx, dcases, 4)
    for k, (name, enc, t) in enumerate(meta):
        want = ["v", L.rep(t)]
        ctx.count(2)
        ctx.validated(2)
        py, rs = obs2["py"][k], obs2["rs"][k]
        if py != rs:        # (py == rs != target: the encoder's delta is bad, reported above)
            bad = "py" if py[0] != want and rs[0] == want else "rs" if rs[0] != want and py[0] == want else "py+rs"
            site = "+".join(L.SITES["deltatrace"][MODES.index(x)] for x in bad.split("+"))
            fnd.add(f"{site}|apply_delta:decoders-differ-on-encoder-output|large:{name},encoder={enc}",
                    f"the delta made by the {enc} encoder for '{name}' decodes to pure Python -> {L.describe_obs(py[0])}, Rust -> {L.describe_obs(rs[0])}; target {want[1][:60]}",
                    {"kind": "case", "fam": "deltatrace", "inp": dcases[k]["inp"] if len(dcases[k]["inp"][0]) < 8192 else [name, enc], "exp": None,
                     "variant": 0, "py": py, "rs": rs, "call": f"apply_delta(<{name}>, <delta of {enc}>)", "origin": "large pair"}, len(t))
    ctx.cov["large_pairs"] = {"pairs": [n for n, _, _ in pairs], "deltas_cross_decoded": len(dcases)}


def git_validates_parse_reference(ctx, all_cases, verdicts, obs):
    """C git as third opinion on the *specification*: on a sample of the recorded tree payloads (20-byte
    ids) `git ls-tree` must accept exactly what ParseTree accepts and list the same names and ids --
    outside the three documented differences (git refuses empty names, silently wraps modes beyond 32
    bits, refuses the '+' both dulwich parsers accept).  A disagreement is a bug of the specification
    (machinery failure), never a verdict on dulwich."""
    if not git_available():
        ctx.assumptions.append("git not available: ParseTree not compared with git ls-tree")
        return
    todo = []
    for i, c in enumerate(all_cases):
        if c["fam"] != "pttrace" or c["inp"][1] != 20:
            continue
        v = verdicts[i + 1]
        st, why, _, plus = v[3][0]
        pyref, rsref = v[7][0], v[8][0]
        if st == "err" and why in ("no-space", "mode-empty", "mode-char", "no-nul", "id-truncated"):
            todo.append((c["inp"][0], None))
        elif st == "ok" and plus == 0 and (pyref or rsref):
            ents = (obs["py"] if pyref else obs["rs"])[i][0][1]
            if ents and all(n for n, _, _ in ents):
                todo.append((c["inp"][0], [(n, s_) for n, _, s_ in ents]))
    todo = todo[:ctx.pick(150, 1200)]
    if not todo:
        return
    d = ctx.tmpdir("git")
    env = dict(os.environ, GIT_CONFIG_NOSYSTEM="1", HOME=d, GIT_CONFIG_GLOBAL="/dev/null")
    repo = os.path.join(d, "r.git")
    subprocess.run(["git", "init", "-q", "--bare", repo], check=True, env=env, capture_output=True)
    paths = []
    for k, (hx, _) in enumerate(todo):
        p = os.path.join(d, f"t{k}")
        with open(p, "wb") as f:
            f.write(bytes.fromhex(hx))
        paths.append(p)
    r = subprocess.run(["git", f"--git-dir={repo}", "hash-object", "-t", "tree", "-w", "--literally", "--stdin-paths"],
                       input="\n".join(paths).encode(), capture_output=True, env=env)
    shas = r.stdout.decode().split()
    if r.returncode != 0 or len(shas) != len(todo):
        raise MachineryError(f"git hash-object failed: {r.stderr[-300:]!r}")

    def ls(sha):
        q = subprocess.run(["git", f"--git-dir={repo}", "ls-tree", "-z", sha], capture_output=True, env=env)
        if q.returncode != 0:
            return None
        out = []
        for rec in q.stdout.split(b"\0"):
            if rec:
                meta, _, name = rec.partition(b"\t")
                out.append((name.hex(), meta.split()[2].decode()))
        return out
    with cf.ThreadPoolExecutor(max_workers=6) as ex:
        got = list(ex.map(ls, shas))
    acc = rej = 0
    for (hx, want), g in zip(todo, got):
        if want is None:
            rej += 1
            if g is not None:
                raise MachineryError(f"ParseTree refuses {bytes.fromhex(hx)!r}, git ls-tree lists {g}")
        else:
            acc += 1
            if g != want:
                raise MachineryError(f"ParseTree accepts {bytes.fromhex(hx)!r} as {want}, git ls-tree says {g}")
    ctx.cov["git_third_opinion_on_ParseTree"] = {"reference_accepts_git_lists_same_names_and_ids": acc, "reference_refuses_git_refuses": rej}
    shutil.rmtree(d, ignore_errors=True)


def ref_kind(fam, summ, var, py, rs, pyok, rsok):
    if fam == "pttrace":
        return "value" if summ[var][0] == "ok" else "fail"
    if fam == "deltatrace":
        return "value" if summ[0] == "ok" else "fail"
    if fam == "bisect":
        return "fail" if summ[0] == "fail" else "value"
    return "value"


def classify_trace(fam, inp, summ, var):
    """Class of a recorded case, in the vocabulary of c15_lib.bucket."""
    if fam == "pttrace":
        r = summ[var]
        exp = [None, None]
        exp[var] = [r[0], r[1], r[2], [], r[3]]
        return L.bucket(fam, inp, exp, var, ["f"], ["f"], ["f"])[2]
    if fam == "deltatrace":
        return L.bucket(fam, inp, [summ[0], summ[1], [], summ[2], []], var, ["f"], ["f"], ["f"])[2]
    if fam == "bisect":
        return L.bucket(fam, inp, [summ[0], 0], var, ["f"], ["f"], ["f"])[2]
    if fam == "cdelta":
        return ("create_delta", "create_delta(chunk lists)")[var]
    return L.bucket(fam, inp, None, var, ["f"], ["f"], ["f"])[2]


# =========================================================================== E: repository level
def first_difference(a, b, path=()):
    """Path of the first difference between two JSON values, or None."""
    if type(a) is not type(b):
        return path
    if isinstance(a, dict):
        for k in sorted(set(a) | set(b)):
            if k not in a or k not in b:
                return path + (k,)
            r = first_difference(a[k], b[k], path + (k,))
            if r is not None:
                return r
        return None
    if isinstance(a, list):
        if len(a) != len(b):
            return path + (f"len {len(a)} vs {len(b)}",)
        for i, (x, y) in enumerate(zip(a, b)):
            r = first_difference(x, y, path + (i,))
            if r is not None:
                return r
        return None
    return None if a == b else path


def git_pack(ctx, d, seed, rounds):
    """A pack with real git deltas over the same file sets; -> True when written to d/git.pack"""
    from .. import c15_repo as R
    if not git_available():
        return False
    work = os.path.join(d, "gitwork")
    os.makedirs(work)
    env = dict(os.environ, GIT_CONFIG_NOSYSTEM="1", HOME=d, GIT_CONFIG_GLOBAL="/dev/null", GIT_AUTHOR_NAME="A", GIT_AUTHOR_EMAIL="a@e",
               GIT_COMMITTER_NAME="C", GIT_COMMITTER_EMAIL="c@e", GIT_AUTHOR_DATE="1700000000 +0000", GIT_COMMITTER_DATE="1700000000 +0000")

    def git(*a):
        p = subprocess.run(["git", "-C", work, *a], capture_output=True, env=env)
        if p.returncode != 0:
            raise MachineryError(f"git {' '.join(a)} failed: {p.stderr[-400:]!r}")
        return p.stdout
    git("init", "-q")
    for k, (v1, v2) in enumerate(R.make_worlds(seed, rounds)):
        for v in (v1, v2):
            for name in os.listdir(work):
                if name != ".git":
                    full = os.path.join(work, name)
                    shutil.rmtree(full) if os.path.isdir(full) and not os.path.islink(full) else os.remove(full)
            for pth, (content, mode) in v.items():
                full = os.path.join(work, pth.decode())
                os.makedirs(os.path.dirname(full), exist_ok=True)
                if mode == 0o120000:
                    os.symlink(content.decode(), full)
                else:
                    with open(full, "wb") as f:
                        f.write(content)
                    os.chmod(full, 0o755 if mode == 0o100755 else 0o644)
            git("add", "-A")
            git("commit", "-q", "--allow-empty", "-m", f"c{k}")
    git("repack", "-a", "-d", "-f", "-q", "--window=10", "--depth=20")
    pd = os.path.join(work, ".git", "objects", "pack")
    packs = [f for f in os.listdir(pd) if f.endswith(".pack")]
    if len(packs) != 1:
        raise MachineryError(f"git repack left {packs}")
    shutil.copy(os.path.join(pd, packs[0]), os.path.join(d, "git.pack"))
    shutil.copy(os.path.join(pd, packs[0][:-5] + ".idx"), os.path.join(d, "git.idx"))
    shutil.rmtree(work, ignore_errors=True)
    return True


def phase_repo(ctx, fnd):
    d = ctx.tmpdir("repo")
    rounds = ctx.pick(6, 40)
    base = {"kind": "repo", "dir": d, "seed": ctx.seed, "rounds": rounds}
    with cf.ThreadPoolExecutor(max_workers=3) as ex:
        fg = ex.submit(git_pack, ctx, d, ctx.seed, min(rounds, 12))
        def collect(futs):
            out, died = {}, {}
            for m in MODES:
                try:
                    with open(futs[m].result()) as f:
                        out[m] = json.load(f)["result"]
                except MachineryError as e:
                    # the scenario itself dying under one implementation is an observation
                    died[m] = str(e)[-600:]
                    out[m] = {"info": {}, "scenario": {"child-died": True}}
            if len(died) == len(MODES):
                raise MachineryError(f"repository-level scenario fails in both modes: {died}")
            for m in died:
                ctx.log(f"repository-level scenario died in mode {m}: {died[m][-300:]}")
            return out
        f1 = {m: ex.submit(run_child, ctx, m, dict(base, step=1)) for m in MODES}
        r1 = collect(f1)
        has_git = fg.result()
        packs = list(MODES) + (["git"] if has_git else [])
        f2 = {m: ex.submit(run_child, ctx, m, dict(base, step=2, packs=packs)) for m in MODES}
        r2 = collect(f2)
    if not has_git:
        ctx.assumptions.append("git not available: no pack with C git's deltas in the repository-level pass")
    info = {}
    n_ops = 0
    for step, r in (("step1", r1), ("step2", r2)):
        a, b = dict(r["py"]), dict(r["rs"])
        info[step] = {"py": a.pop("info", {}), "rs": b.pop("info", {})}
        for section in sorted(set(a) | set(b)):
            n_ops += 1
            ctx.count(2)
            ctx.validated(2)
            diff = first_difference(a.get(section), b.get(section))
            if diff is None:
                ctx.nontrivial(("repo", section))
                continue
            x, y = a.get(section), b.get(section)
            for k in diff:
                if isinstance(k, str) and k.startswith("len "):
                    break
                x = x[k] if x is not None and (k in x if isinstance(x, dict) else True) else None
                y = y[k] if y is not None and (k in y if isinstance(y, dict) else True) else None
            where = "/".join(str(k) for k in diff if not isinstance(k, int))
            sig = f"dulwich:repository-level|{section}|{where}"
            fnd.add(sig, f"repository-level result differs with and without the extensions: {section} at {list(diff)}: "
                         f"pure Python {json.dumps(x)[:200]} / Rust {json.dumps(y)[:200]}",
                    {"kind": "repo", "section": section, "path": list(diff), "py": x, "rs": y, "seed": ctx.seed, "rounds": rounds}, 0)
        # the packs of both modes must give back what was put in (sanity of the scenario itself)
    for m in MODES:
        for name in MODES:
            got = (r2[m].get(f"read:{name}") or {}).get("objects")
            want = r1[name].get("pack_objects")
            if got is not None and want is not None and got != want:
                sig = f"dulwich:repository-level|pack-roundtrip|written-by={name},read-by={m}"
                fnd.add(sig, f"objects read back by {m} from the pack written by {name} differ from what was written",
                        {"kind": "repo", "section": "pack-roundtrip", "writer": name, "reader": m, "seed": ctx.seed, "rounds": rounds}, 0)
    ctx.cov["repository_level"] = {"sections_compared": n_ops, "rounds": rounds, "packs_read": packs, "info": info,
                                   "objects_in_own_pack": (r1["py"].get("pack_written") or {}).get("objects"),
                                   "objects_in_git_pack": len((r2["py"].get("read:git") or {}).get("objects", {})) if has_git else None}
    try:
        ctx.sample({"repository_level": "tree ids / change lists with renames / objects read back from the packs / index lookups, compared between the modes",
                    "trees_round0": r1["py"]["diff"][0]["trees"], "renames_default_round0": r1["py"]["diff"][0]["renames_default"][:3]}, limit=16)
    except (KeyError, TypeError, IndexError):
        pass
    shutil.rmtree(d, ignore_errors=True)


# =========================================================================== negative controls (model level)
def phase_negative_controls(ctx):
    """The lemmas must bite: TLC has to find the expected violation in two defect models."""
    for cfg, what in (("Equiv_neg_order.cfg", "a name containing '/' breaks OrderLemma (one-byte lookahead vs name/ order)"),
                      ("Equiv_neg_pyint.cfg", "model of Python's int(text, 8): accepts mode texts the reference refuses (the F16 defect model)")):
        res = tlc.run("EquivCases.tla", cfg, workers=1, timeout=600)
        ctx.add_tlc(f"EquivCases/{cfg} (negative control: {what})", res, require_ok=False)
        if "Lemmas" not in res.violated:
            raise MachineryError(f"negative control {cfg}: TLC did not report the expected violation of Lemmas\n{res.output[-1500:]}")
    ctx.cov["model_negative_controls_violated_as_expected"] = 2


# =========================================================================== run / replay
def run(ctx):
    for name in os.listdir(ctx.replay_dir):          # replay files of earlier runs of this check
        if name.endswith(".json"):
            os.remove(os.path.join(ctx.replay_dir, name))
    rustext.build()
    ctx.cov["rule"] = ("a case is non-trivial when at least one implementation or the reference semantics yields a value "
                       "for at least one variant of the call (not: failure everywhere)")
    ctx.assumptions += [
        "Rust extensions: release build of the working tree's crates (cargo --release --offline), loaded by path in a child interpreter; pure Python: the three extension modules blocked before dulwich is imported",
        "an exception of any class, a pyo3 PanicException and the death of the child process are all the observation 'fail' (failure in both is equivalence; allocation/panic behaviour as such is C03's)",
        "PYTHONHASHSEED=0 in both children (block counts are keyed by hash(bytes))",
        "reference semantics of parse_tree includes one shared leniency of both implementations (a single leading '+' in a mode); anything else on which both agree against the reference is reported as SPEC-DRIFT",
    ]
    fnd = Findings(ctx)
    with cf.ThreadPoolExecutor(max_workers=2) as bg:
        ft = bg.submit(phase_traces, ctx, fnd)
        fr = bg.submit(lambda: (phase_negative_controls(ctx), phase_repo(ctx, fnd), phase_big_pairs(ctx, fnd)))
        phase_enum(ctx, fnd)
        ft.result()
        fr.result()
    fnd.flush()
    return ctx.finish(exhaustive=True)


def to_trace_case(fam, inp):
    """The recorded-execution form of an enumerated case (same call)."""
    if fam in ("ptstr", "ptmode"):
        t, n = L.pt_text(inp)
        return "pttrace", [t.hex(), n]
    if fam in ("delta", "deltax"):
        return "deltatrace", [bytes(inp[0]).hex(), bytes(inp[1]).hex()]
    if fam == "cdelta" and not isinstance(inp[0], str):
        return "cdelta", [bytes(inp[0]).hex(), bytes(inp[1]).hex()]
    if fam == "blocks" and not isinstance(inp[0], str):
        return "blocks", [L.unrle(inp[0]).hex()]
    return fam, inp


def replay(ctx, path):
    """Re-execute one recorded failing case on the current tree: both implementations in fresh
    children, the reference semantics by TLC; prints the comparison; exit 1 when they still differ."""
    with open(path) as f:
        obj = json.load(f)
    print(f"replay of {path}\n  signature: {obj.get('signature')}\n  recorded:  {obj.get('what')}")
    rustext.build()
    ctx.known = []
    fnd = Findings(ctx)
    if obj.get("kind") == "repo":
        ctx.seed = obj.get("seed", ctx.seed)
        ctx.tier = "quick" if obj.get("rounds", 6) <= 6 else "thorough"
        phase_repo(ctx, fnd)
        for sig, (_, what, rep, n) in sorted(fnd.best.items()):
            print(f"  STILL DIFFERENT: {sig}\n    {what}")
        if not fnd.best:
            print("  the repository-level results are identical now")
        return 1 if fnd.best else 0
    fam, inp = obj["fam"], obj["inp"]
    if obj.get("origin") == "large pair" and (len(inp) != 2 or not all(isinstance(x, str) for x in inp) or inp[1] in MODES):
        # the pair is too large for the replay file: regenerate the structured large pairs
        ctx.seed = obj.get("seed", ctx.seed)
        phase_big_pairs(ctx, fnd)
        for sig, (_, what, rep, n) in sorted(fnd.best.items()):
            print(f"  STILL DIFFERENT: {sig}\n    {what}")
        if not fnd.best:
            print("  every large pair round-trips through all encoder x decoder pairings now")
        return 1 if fnd.best else 0
    print(f"  call: {render_input(fam, inp)}")
    tfam, tinp = to_trace_case(fam, inp)
    obs, det = run_cases_both(ctx, [{"fam": tfam, "inp": tinp}], 1)
    for m in MODES:
        print(f"  observed {m}: {[L.describe_obs(o) for o in obs[m][0]]}  details: {det[m].get(0, {})}")
    if tfam == "istree":
        ref = L.expected(fam, inp, obj["exp"])
        same = obs["py"][0] == obs["rs"][0]
        print(f"  reference (recorded TLC state): {ref}")
        print("  -> " + ("equivalent now" if same else "STILL DIFFERENT"))
        return 0 if same else 1
    t, keep = make_trace(1, tfam, tinp, obs["py"][0], obs["rs"][0], det["py"].get(0, {}), det["rs"].get(0, {}))
    v = tlc_verdicts(ctx, [t], "replay")[1]
    _, _, _, summ, eq, pyok, rsok, pyref, rsref = v[:9]
    print(f"  TLC (EquivTrace) reference summary: {summ}")
    bad = False
    for j, var in enumerate(keep):
        same = eq[j] if tfam == "cdelta" else obs["py"][0][var] == obs["rs"][0][var]
        print(f"  variant {var}: equal={same}  python-is-reference-answer={pyref[j]}  rust-is-reference-answer={rsref[j]}  "
              f"python-inside-reference={pyok[j]}  rust-inside-reference={rsok[j]}")
        bad |= not same
    print("  -> " + ("STILL DIFFERENT: the property is violated on this input" if bad else "equivalent now"))
    return 1 if bad else 0

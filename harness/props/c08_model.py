"""C08: design-level model RefsFiles.tla (TLC) and shape conformance of real executions."""
from __future__ import annotations

import json
import os
import re
import shutil

from .. import sched, tlc
from ..core import MachineryError

_shapes = []          # trace dicts
_shape_meta = {}


def run_models(ctx):
    # the design as implemented, exhaustive for two actors over the full operation menu
    for cfg, name in (("mc2nopack", "2 actors, full menu without pack_refs"),
                      ("mc2nodel", "2 actors, full menu without deletes")):
        r = tlc.run("RefsFilesMC.tla", f"RefsFiles_{cfg}.cfg", workers=16, timeout=900, coverage=not ctx.quick)
        ctx.add_tlc(f"RefsFiles_{cfg} ({name}; VisIsAbs, CasSound, AddSound, DelSound, ReadSound, NoLockLeft)", r)
    # three actors: the update-soundness invariants must hold; the refinement invariants with FIXED
    # linearization points (VisIsAbs, ReadSound) are sufficient, not necessary, for linearizability:
    # their counterexamples are candidates that the real-code exploration covers (3-actor menus in c08.py)
    for cfg in ("mc3nodel", "mc3nopack"):
        r = tlc.run("RefsFilesMC.tla", f"RefsFiles_{cfg}_sound.cfg", workers=16, timeout=900)
        ctx.add_tlc(f"RefsFiles_{cfg}_sound (3 actors; CasSound, AddSound, NoLockLeft)", r)
        if not ctx.quick:
            r = tlc.run("RefsFilesMC.tla", f"RefsFiles_{cfg}.cfg", workers=16, timeout=900)
            ctx.add_tlc(f"RefsFiles_{cfg} (3 actors; candidate search with fixed linearization points)", r, require_ok=False)
            ctx.cov.setdefault("model_candidates", []).append(
                {"cfg": cfg, "violated": r.violated, "trace": [lab.split(" line")[0] for lab, _ in r.error_trace]})
    # known finding at model level and negative controls (historical orders)
    for cfg, expect in (("known_packdel", "VisIsAbs"), ("neg_prune", "VisIsAbs"), ("neg_delorder", "VisIsAbs"),
                        ("neg_stale", "CasSound"), ("neg_shortcut", "ShortcutSound")):
        r = tlc.run("RefsFilesMC.tla", f"RefsFiles_{cfg}.cfg", workers=8, timeout=600)
        ctx.add_tlc(f"RefsFiles_{cfg} (expects {expect})", r, require_ok=False)
        if expect not in r.violated:
            raise MachineryError(f"model control RefsFiles_{cfg} did not find {expect}: {r.violated}\n{r.output[-1500:]}")
    # updates through the symbolic ref HEAD while HEAD is re-pointed (F59): the protocol as implemented admits
    # the non-linearizable history (known finding, same history as RefsLin rejects on the real code); the
    # protocol that holds HEAD.lock across the update (C git) does not
    r = tlc.run("RefsSym.tla", "RefsSym_known_symhead.cfg", workers=4, timeout=300)
    ctx.add_tlc("RefsSym_known_symhead (expects CasViaHeadSound)", r, require_ok=False)
    if "CasViaHeadSound" not in r.violated:
        raise MachineryError(f"model control RefsSym_known_symhead did not find CasViaHeadSound: {r.violated}")
    r = tlc.run("RefsSym.tla", "RefsSym_repaired.cfg", workers=4, timeout=300)
    ctx.add_tlc("RefsSym_repaired (HEAD.lock held across an update through HEAD: CasViaHeadSound, NoLockLeft)", r)


KIND = {"set_if_equals": "cas", "add_if_new": "add", "remove_if_equals": "del", "read": "read", "pack_refs": "pack"}
MREL = "refs/heads/m"


def _packed_value(root_snapshot):
    return root_snapshot


def collect_shape(ctx, r, tid):
    """Project one RefRun on the observable events of RefsFiles (only single-op actors)."""
    if any(len(a) != 1 for a in r.actors) or len(r.actors) > 3:
        return
    stride = ctx.pick(6, 2)
    if tid % stride:
        return
    ops_by_actor = {o["a"]: o for o in r.ops}
    ops, res = [], []
    for a in range(len(r.actors)):
        o = ops_by_actor.get(a)
        if o is None:
            return
        k = KIND[o["k"]]
        if o["name"] == "add3" or o["name"] == "add4":
            k = "add"
        ops.append({"k": k, "old": o["old"] if k in ("cas", "del") else 0, "new": o["new"] if k in ("cas", "add") else 0})
        res.append(-2 if o["exc"] else (1 if k == "pack" else o["res"]))
    ev = []
    for e in r.events:
        p = e.get("p")
        if p is None or "obs" not in e:
            continue
        name = None
        if e["op"] == "open_excl" and p == MREL + ".lock":
            name = "lock_ref" if e.get("ok") else ("lock_ref_fail" if e.get("err") == "EEXIST" else "lock_ref_err")
        elif e["op"] == "open_excl" and p == "packed-refs.lock":
            name = "lock_packed" if e.get("ok") else "lock_packed_fail"
        elif e["op"] == "replace" and e.get("p2") == MREL and e.get("ok"):
            name = "rename_ref"
        elif e["op"] == "replace" and e.get("p2") == "packed-refs" and e.get("ok"):
            name = "rename_packed"
        elif e["op"] == "unlink" and p == MREL + ".lock" and e.get("ok"):
            name = "unlock_ref"
        elif e["op"] == "unlink" and p == "packed-refs.lock" and e.get("ok"):
            name = "unlock_packed"
        elif e["op"] == "unlink" and p == MREL and e.get("ok"):
            name = "unlink_ref"
        if name:
            ev.append({"a": e["a"], "ev": name, "l": e["obs"][0], "p": e["obs"][1]})
    init = {"absent": [0, 0], "loose": [1, 0], "packed": [0, 1], "both": [2, 1]}[r.layout]
    _shapes.append({"tid": tid, "init": init, "ops": ops, "res": res, "ev": ev})
    _shape_meta[tid] = f"ops={r.actors} init={r.layout}"


def observe_refs(root):
    """observe callback: loose and packed value of refs/heads/m after each event."""
    from .c08 import val_index
    def obs(world, ev):
        rd = sched._real["builtins.open"]
        try:
            with rd(os.path.join(root, MREL), "rb") as f:
                loose = val_index(f.read().strip()[:40]) if True else 0
        except (FileNotFoundError, NotADirectoryError, IsADirectoryError):
            loose = 0
        packed = 0
        try:
            with rd(os.path.join(root, "packed-refs"), "rb") as f:
                for line in f:
                    if line.rstrip().endswith(b" " + MREL.encode()):
                        packed = val_index(line[:40])
        except FileNotFoundError:
            pass
        ev["obs"] = (loose, packed)
    return obs


def validate_shapes(ctx):
    if not _shapes:
        return
    d = ctx.tmpdir("shape")
    path = os.path.join(d, "shapes.ndjson")
    with open(path, "w") as f:
        for t in _shapes:
            f.write(json.dumps(t, separators=(",", ":")) + "\n")
    r = tlc.run("RefsFilesTrace.tla", "RefsFilesTrace.cfg", workers=8, timeout=1800, env={"TRACE_FILE": path})
    ctx.add_tlc("RefsFilesTrace (shape conformance of real executions)", r, require_ok=False)
    if not r.completed:
        raise MachineryError("RefsFilesTrace did not complete\n" + r.output[-3000:])
    ok = {int(x) for x in re.findall(r'<<"SHAPE", (\d+)>>', r.output)}
    n_ok = 0
    for t in _shapes:
        if t["tid"] in ok:
            n_ok += 1
        else:
            ctx.drift_event(f"RefsFiles shape: execution {_shape_meta[t['tid']]} events={[(e['a'], e['ev']) for e in t['ev']]} res={t['res']} is not a RefsFiles behaviour")
    ctx.cov["shape_conformance"] = {"executions": len(_shapes), "conform": n_ok}
    ctx.log(f"shape conformance: {n_ok}/{len(_shapes)} executions are RefsFiles behaviours")
    shutil.rmtree(d, ignore_errors=True)
    _shapes.clear()

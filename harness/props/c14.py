"""C14 -- optional acceleration data never changes any answer.

Spec: specs/Accel.tla (+ AccelTrace.tla).  Binding:
  R  every transition of the TLC state graph of Accel (all histories of <= D steps over 3 commits, 2 refs,
     2 packs; writers dulwich and C git) is executed on a real repository; after every step the query
     battery runs through three readers -- a long-lived Repo warmed before the step, a fresh Repo with
     the acceleration files present, a fresh Repo on a copy with all of them removed -- and the answers
     are compared with each other, with the answers before the step (for steps that only touch
     acceleration data) and, through AccelTrace, with the definition on primary data;
  R' every counterexample TLC finds for a design with one guard switched off (Accel_d_*.cfg: trust the
     stale midx, trust the commit-graph for pruned commits, ...) is executed the same way: the real
     code either shows the modelled defect (VIOLATION / KNOWN-FINDING) or it does not have it;
  T  random histories beyond the exhaustive bound (more commits, longer) are executed, recorded and
     validated by TLC against AccelTrace: every recorded transition must be a step of Accel and every
     recorded answer must be the one the specification defines;
  S  AccelRefStep: delete / set / pack-refs of one ref as the sequence of visible file-system mutations the real
     entry points perform, with a reader or a crash between any two (harness/c14_refstep.py).
"""
from __future__ import annotations

import concurrent.futures as cf
import json
import multiprocessing as mp
import os
import shutil
import time

from .. import rustext, tlc
from ..core import MachineryError, git_available

rustext.install("py")            # the anchored code is Python; never load the stale in-tree .so files
import logging  # noqa: E402
logging.getLogger("dulwich").setLevel(logging.ERROR)
logging.getLogger().setLevel(logging.ERROR)

from .. import c14_exec as X     # noqa: E402
from .. import c14_replay as RP  # noqa: E402
from .. import c14_trace as TR   # noqa: E402
from .. import c14_refstep as RS # noqa: E402
from .. import tlaval            # noqa: E402

DEFECTS = {
    # cfg suffix -> (invariant TLC must find violated, what the switched-off guard stands for)
    "midx": ("Transparent", "contains_packed trusts a midx entry whose pack is gone"),
    "cgstore": ("Transparent", "commit-graph answers for a commit that is not in the store"),
    "cgopen": ("Transparent", "commit-graph written for a commit set not closed under parents"),
    "bmpsum": ("Transparent", "bitmap used without matching the pack checksum"),
    "bmpclosed": ("Transparent", "bitmap built/used for a pack that is not closed under reachability"),
    "bmpexcl": ("Transparent", "exclusion silently skipped when an excluded commit has no bitmap"),
    "providers": ("Transparent", "graph-traversal provider and bitmap provider implement different meanings"),
    "delpacked": ("RefsTransparent", "deleting a ref leaves its packed-refs entry behind"),
    "shallow": ("Transparent", "the commit-graph is asked for parents before the shallow boundary is tested"),
    "bmpshallow": ("Transparent", "the bitmap provider ignores a shallow boundary"),
    "octopus": ("Transparent", "the commit-graph writer loses parents of the second and later three-parent merges"),
    "grafts": ("Transparent", "the commit-graph is asked before graft points and the shallow file"),
    "idx31": ("IdxTransparent", "a v2 pack index keeps offsets in [2^31, 2^32) inline (real counterpart: the large-offset layout)"),
}

_G = {}


# --------------------------------------------------------------------------- graph replay (mode R)
def _bfs(g):
    init = g.init[0]
    parent = {init: None}
    level = {init: 0}
    order = [init]
    for nd in order:
        for lab, dst in g.edges.get(nd, []):
            if dst not in parent:
                parent[dst] = (nd, lab)
                level[dst] = level[nd] + 1
                order.append(dst)
    return init, parent, level, order


def _node_task(nid):
    """Execute the selected out-edges of one node, starting from the node's snapshot."""
    G = _G
    g, models, snapdir, sel, parent, has_out = G["g"], G["models"], G["snapdir"], G["sel"], G["parent"], G["has_out"]
    scratch = os.path.join(G["scratch"], f"p{os.getpid()}")
    os.makedirs(scratch, exist_ok=True)
    src = os.path.join(scratch, "src")
    snap = os.path.join(snapdir, f"{nid}.tar")
    if parent[nid] is None:
        shutil.rmtree(src, ignore_errors=True)
        X.create(src)
        src_ans = None
    elif not os.path.exists(snap):
        return [{"skip": "state not materialised (an earlier step was refused by C git or left the model)", "lab": "", "viol": [], "shape": []}]
    else:
        RP.restore(snap, src)
        with open(os.path.join(src, "ans.json")) as f:
            src_ans = json.load(f)
    out = []
    ncache = G.setdefault("ncache", {})
    for (lab, dst) in g.edges.get(nid, []):
        if (nid, lab, dst) not in sel:
            continue
        root = os.path.join(scratch, "w")
        shutil.rmtree(root, ignore_errors=True)
        shutil.copytree(src, root)
        tree_edge = parent.get(dst) == (nid, lab)
        try:
            res = RP.step(root, scratch, models[nid], lab, models[dst], src_ans, seed=G["seed"],
                          want_n=tree_edge, n_cache=ncache, force=G.get("force"))
        except Exception as e:
            import traceback
            res = {"lab": lab, "who": "?", "opts": 0, "shape": [f"harness exception {type(e).__name__}: {e}"],
                   "viol": [], "ans": None, "ans_n": None, "tb": traceback.format_exc()[-1500:]}
        if tree_edge and has_out.get(dst) and res.get("ans") is not None and not res["shape"]:
            with open(os.path.join(root, "ans.json"), "w") as f:
                json.dump({"f": res["ans"], "n": res["ans_n"]}, f)
            RP.snapshot(root, os.path.join(snapdir, f"{dst}.tar"))
        res["src"], res["dst"], res["tree"] = nid, dst, tree_edge
        if res.get("skip"):
            res["skip"] = f"{res['lab']}: {res['skip']}"
        res.pop("ans_w", None)
        if not tree_edge:
            res.pop("ans_n", None)
            res.pop("ans", None)
        out.append(res)
    if parent[nid] is not None:
        try:
            os.remove(snap)
        except OSError:
            pass
    return out


def path_to(parent, nid):
    """labels and node ids of the BFS-tree path from the initial state to nid"""
    labs, nodes = [], [nid]
    while parent[nid] is not None:
        p, lab = parent[nid]
        labs.append(lab.replace('\\"', '"'))
        nodes.append(p)
        nid = p
    return labs[::-1], nodes[::-1]


def report(ctx, res, path, model, extra=None):
    if res.get("skip"):
        sk = ctx.cov.setdefault("skipped", {"count": 0, "samples": []})
        sk["count"] += 1
        if len(sk["samples"]) < 3:
            sk["samples"].append({"after": path, "why": res["skip"]})
        return
    for i in res.get("info", []):
        kind = "on-disk bitmap never consulted" if "never consulted" in i else "git bitmap decoded in index order"
        lat = ctx.cov.setdefault("latent", {}).setdefault(kind, {"count": 0, "samples": []})
        lat["count"] += 1
        if len(lat["samples"]) < 2:
            lat["samples"].append({"after": path, "what": i})
    for (site, clause, q, cause, detail) in res["viol"]:
        sig = f"{site}|{clause}|{q}|{cause}"
        ctx.violation(sig, f"{detail}; after {path} (step by {res['who']}, opts {res['opts']})",
                      {"kind": "behaviour", "labels": path, "who_last": res["who"], "opts_last": res["opts"],
                       "clause": clause, "query": q, "cause": cause, "detail": detail, "model_state": model,
                       **(extra or {})})
    for s in res["shape"]:
        ctx.drift_event(f"after {path}: {s}" + (("\n" + res["tb"]) if res.get("tb") else ""))


def replay_graph(ctx, cfgname, budget, label, every_edge=False, force=None):
    d = ctx.tmpdir("g")
    gen = os.path.join(d, "gen.cfg")
    with open(os.path.join(tlc.SPECS, cfgname)) as f:
        txt = f.read()
    for inv in ("Transparent", "Exact", "StaleRejected", "RefsTransparent"):
        txt = txt.replace(f"INVARIANT {inv}\n", "")
    with open(gen, "w") as f:
        f.write(txt)
    dot = os.path.join(d, "g.dot")
    res = tlc.run("Accel.tla", gen, workers=1, dump_dot=dot, timeout=1500)
    ctx.add_tlc(f"Accel[{label} graph for replay]", res)
    g = tlc.load_dot(dot)
    os.remove(dot)
    init, parent, level, order = _bfs(g)
    models = {nid: RP.norm_model(st) for nid, st in g.nodes.items()}
    all_edges = [(s, lab, t) for s, es in g.edges.items() for (lab, t) in es]
    tree = [(p[0], p[1], n) for n, p in parent.items() if p is not None]
    top = max(level.values())
    # everything up to the last-but-one level is executed (so every state with successors is materialised and
    # every transition between them taken); transitions into the last level are sampled up to the budget
    sel = set(all_edges) if every_edge else {e for e in all_edges if level[e[0]] < top - 1} | {e for e in tree if level[e[2]] < top}
    rest = sorted(set(all_edges) - sel)
    ctx.rng.shuffle(rest)
    if not git_available():
        sel = {e for e in sel if e in tree or ('"git"' not in e[1] and not e[1].startswith("RepackG"))}
        rest = [e for e in rest if '"git"' not in e[1] and not e[1].startswith("RepackG")]
    sel |= set(rest[:max(0, budget - len(sel))])
    has_out = {n: any((n, lab, t) in sel for lab, t in g.edges.get(n, [])) for n in g.nodes}
    snapdir = os.path.join(ctx.scratch, "snap")
    os.makedirs(snapdir, exist_ok=True)
    _G.update(g=g, models=models, snapdir=snapdir, sel=sel, parent=parent, has_out=has_out,
              scratch=ctx.scratch, seed=ctx.seed, force=force)
    by_level = {}
    for n in order:
        if has_out[n]:
            by_level.setdefault(level[n], []).append(n)
    nexec = 0
    records = {}
    acts = {}
    t0 = time.time()
    with mp.get_context("fork").Pool(min(14, os.cpu_count() or 4)) as pool:
        for lv in sorted(by_level):
            for out in pool.imap_unordered(_node_task, by_level[lv], chunksize=1):
                for res in out:
                    if res.get("skip"):
                        report(ctx, res, [res.get("lab", "")], None)
                        continue
                    nexec += 1
                    ctx.count()
                    labs, nodes = path_to(parent, res["src"])
                    path = labs + [res["lab"].replace('\\"', '"')]
                    if res["viol"] or res["shape"] or res.get("info"):
                        report(ctx, res, path, models[res["dst"]],
                               {"models": [models[x] for x in nodes] + [models[res["dst"]]], "force": force})
                    a = res["lab"].split("(")[0]
                    acts[a] = acts.get(a, 0) + 1
                    if not res["shape"]:
                        ctx.validated()
                        ctx.nontrivial(("edge", res["src"], res["lab"], res["dst"]))
                    if res.get("ans_n") is not None and res.get("real") is not None:
                        key = json.dumps([res["real"], res["ans_n"]], sort_keys=True)
                        records.setdefault(key, (res["real"], res["ans_n"], path))
    ctx.log(f"{label}: {len(g.nodes)} states, {len(all_edges)} transitions; executed {nexec} transitions "
            f"(all {sum(1 for e in all_edges if level[e[0]] < top - 1)} up to depth {top - 1}, the rest sampled) in {time.time() - t0:.0f}s; "
            f"{len(records)} distinct (state, answers) records")
    ctx.cov.setdefault("graph_replay", []).append(
        {"config": cfgname, "states": len(g.nodes), "transitions": len(all_edges), "executed": nexec,
         "tree_edges": len(tree), "by_action": acts})
    shutil.rmtree(snapdir, ignore_errors=True)
    return list(records.values())


# --------------------------------------------------------------------------- behaviours (counterexamples, walks)
def run_behaviour(ctx, labels, models, seed=0, who_seq=None, opts=None, strict_shape=True):
    """Execute a whole behaviour from the empty repository; returns per-step results."""
    root = ctx.tmpdir("beh")
    scratch = ctx.tmpdir("behs")
    X.create(root)
    out = []
    src_ans = None
    for k, lab in enumerate(labels):
        res = RP.step(root, scratch, models[k], lab, models[k + 1], src_ans, seed=seed,
                      who=(who_seq[k] if who_seq else None), opts=opts, light=False)
        out.append(res)
        if res.get("skip") or res["ans"] is None or (strict_shape and res["shape"]):
            break
        src_ans = {"f": res["ans"], "n": res["ans_n"]}
    shutil.rmtree(root, ignore_errors=True)
    shutil.rmtree(scratch, ignore_errors=True)
    return out


def defect_runs(ctx, pool):
    futs = {}
    for name in DEFECTS:
        futs[name] = pool.submit(tlc.run, "Accel.tla", f"Accel_d_{name}.cfg", workers=1, timeout=600)
    return futs


def defect_replays(ctx, futs):
    summary = {}
    for name, fut in futs.items():
        inv, what = DEFECTS[name]
        res = fut.result()
        ctx.add_tlc(f"Accel_d_{name} (one guard off: {what}; expects {inv})", res, require_ok=False)
        if inv not in res.violated:
            raise MachineryError(f"Accel_d_{name}.cfg: TLC did not find {inv} violated\n{res.output[-1500:]}")
        labels = [lab.split(" line ")[0].strip() for lab, _ in res.error_trace[1:]]
        labels = [l for l in labels]
        models = [RP.norm_model(st) for _, st in res.error_trace]
        confirmed = []
        # every way of performing the steps: by the long-lived reader itself / by somebody else, x the
        # equivalent ways of writing each file.  The defect model describes a design the code should NOT
        # have, so a real directory that differs from it is not drift.
        for whos in ("w", "x"):
            for opts in (0, 3):
                steps = run_behaviour(ctx, labels, models, seed=ctx.seed, who_seq=whos * len(labels), opts=opts,
                                      strict_shape=False)
                ctx.count(len(steps))
                for k, r in enumerate(steps):
                    r["shape"] = [x for x in r["shape"] if x.startswith(("action raised", "unprojectable", "harness"))]
                    report(ctx, r, labels[:k + 1], models[k + 1], {"defect_model": name, "models": models[:k + 2]})
                    if not r["shape"]:
                        ctx.validated()
                    confirmed += [f"{c}|{q}|{cause}" for (_, c, q, cause, _) in r["viol"]]
        ctx.nontrivial(("defect", name, tuple(labels)))
        summary[name] = {"counterexample": labels, "real_code_shows": sorted(set(confirmed))}
        ctx.log(f"defect model {name}: TLC counterexample {labels} -> real code: "
                f"{sorted(set(confirmed)) or 'no difference (the code does not have this defect)'}")
    ctx.cov["defect_models"] = summary
    return summary


# --------------------------------------------------------------------------- walks beyond the exhaustive bound
def parse_sim_trace(path):
    """A TLC -simulate trace file -> (labels, parsed states)."""
    labels, states = [], []
    with open(path) as f:
        txt = f.read()
    import re
    for m in re.finditer(r"\\\* <(.*?) line \d+, col \d+ to line \d+, col \d+ of module Accel>\nSTATE_\d+ == \n(.*?)\n\n", txt, re.S):
        labels.append(m.group(1))
        states.append(tlaval.parse_state(m.group(2)))
    return labels[1:], states


def _walk_task(job):
    k, labels, models, seed = job
    G = _G
    scratch = os.path.join(G["scratch"], f"p{os.getpid()}")
    root = os.path.join(scratch, "walk")
    shutil.rmtree(root, ignore_errors=True)
    os.makedirs(scratch, exist_ok=True)
    X.create(root)
    out = []
    src_ans = None
    for i, lab in enumerate(labels):
        try:
            res = RP.step(root, scratch, models[i], lab, models[i + 1], src_ans, seed=seed + k, light=True)
        except Exception as e:
            import traceback
            res = {"lab": lab, "who": "?", "opts": 0, "shape": [f"harness exception {type(e).__name__}: {e}"],
                   "viol": [], "ans": None, "ans_n": None, "tb": traceback.format_exc()[-1500:]}
        res.pop("ans_w", None)
        out.append(res)
        if res.get("skip") or res["ans"] is None or res["shape"]:
            break
        src_ans = {"f": res["ans"], "n": res["ans_n"]}
        res.pop("ans", None)
    shutil.rmtree(root, ignore_errors=True)
    return k, out


def walks(ctx, num, depth, ncommits):
    """TLC -simulate draws behaviours of Accel beyond the exhaustive bound (more commits, longer); each is
    executed on a real repository and the recorded history is handed back to TLC (AccelTrace)."""
    d = ctx.tmpdir("sim")
    cfg = os.path.join(d, "sim.cfg")
    with open(os.path.join(tlc.SPECS, "Accel_mc.cfg")) as f:
        txt = f.read()
    import re
    txt = re.sub(r"N = \d+", f"N = {ncommits}", txt)
    txt = re.sub(r"MaxDepth = \d+", "MaxDepth = 0", txt)
    txt = re.sub(r"MaxPacks = \d+", "MaxPacks = 3", txt)
    txt = txt.replace("VIEW view\n", "").replace("INVARIANT Exact\n", "").replace("WithIdx = FALSE", "WithIdx = TRUE")
    with open(cfg, "w") as f:
        f.write(txt)
    nw = 4
    res = tlc.run("Accel.tla", cfg, workers=nw, timeout=600, simulate=f"file={d}/t,num={max(1, num // nw)}", depth=depth,
                  seed=ctx.seed + 1)
    import re as _re
    m = _re.search(r"Progress: (\d+) states checked", res.output)
    if m:                                   # simulation mode prints its own statistics
        res.generated = res.distinct = int(m.group(1))
    ctx.add_tlc(f"Accel simulate (N={ncommits}, depth {depth}: Transparent, RefsTransparent, StaleRejected on every state)", res)
    jobs = []
    for k, fn in enumerate(sorted(x for x in os.listdir(d) if x.startswith("t_"))):
        labels, states = parse_sim_trace(os.path.join(d, fn))
        if labels:
            jobs.append((k, labels, [RP.norm_model(s) for s in states], ctx.seed))
    _G.update(scratch=ctx.scratch)
    traces, meta = [], {}
    nsteps = 0
    with mp.get_context("fork").Pool(min(14, os.cpu_count() or 4)) as pool:
        for k, out in pool.imap_unordered(_walk_task, jobs, chunksize=1):
            labels, models = jobs[k][1], jobs[k][2]
            steps = []
            for i, r in enumerate(out):
                if r.get("skip"):
                    report(ctx, r, labels[:i + 1], None)
                    continue
                nsteps += 1
                ctx.count()
                if r["viol"] or r["shape"] or r.get("info"):
                    report(ctx, r, labels[:i + 1], models[i + 1], {"models": models[:i + 2], "seed": ctx.seed + k})
                if r.get("real") is not None and r.get("ans_n") is not None:
                    act, args = RP.parse_label(labels[i])
                    steps.append({"act": TR.act_record(act, list(args)), "st": TR.st_record(r["real"], 6),
                                  "obs": TR.obs_record(r["ans_n"], r["real"]["n"])})
            if steps:
                tid = 100000 + k
                traces.append({"tid": tid, "free": False, "steps": steps})
                meta[tid] = labels
                ctx.nontrivial(("walk", tuple(labels)))
    ctx.log(f"walks: {len(jobs)} behaviours ({nsteps} steps) of up to {depth} steps over {ncommits} commits executed")
    ctx.cov["walks"] = {"behaviours": len(jobs), "steps": nsteps, "commits": ncommits, "depth": depth}
    return traces, meta


def judge(ctx, traces, meta, label):
    """TLC decides: is every recorded step a step of Accel, is every accelerator-free answer the defined one."""
    verdicts = TR.validate(ctx, traces, label)
    asis = 0
    for t in traces:
        _, tid, verdict, fail_at, drift_at, n_asis = verdicts[t["tid"]]
        asis += n_asis
        ctx.validated()
        if verdict != "ok":
            ctx.drift_event(f"{label}: answer without acceleration data differs from the definition ({verdict}) at step {fail_at} of {meta[tid]}")
        if drift_at:
            ctx.drift_event(f"{label}: step {drift_at} of {meta[tid]} is not a step of Accel (projected state {json.dumps(t['steps'][drift_at - 1]['st'])[:300]})")
    return asis


# --------------------------------------------------------------------------- fixed layouts next to the enumerated ones
def large_offset_layout(ctx):
    """'idx version' with offsets the three formats store differently (Accel!IdxTransparent): one sparse pack in
    /dev/shm (holes cost nothing) holding a blob at 12 and one just past 2 GiB; the same entries -- plus synthetic
    ones at 2^31 - 1, 2^31, 3 GiB + 5, 2^32 - 1 and, for v2/v3, 5 GiB -- written as index v1, v2 and v3 by
    dulwich; every lookup (Pack.get_raw, object_offset, iterentries) must give what was stored, whatever the version."""
    import hashlib
    import struct
    import zlib
    from dulwich.object_format import DEFAULT_OBJECT_FORMAT
    from dulwich.objects import Blob
    from dulwich.pack import Pack, load_pack_index, write_pack_index
    d = ctx.tmpdir("big")
    G = 2 ** 30

    def packed(obj):
        data = obj.as_raw_string()
        size, hdr = len(data), bytearray()
        c = (3 << 4) | (size & 0x0F)
        size >>= 4
        while size:
            hdr.append(c | 0x80)
            c, size = size & 0x7F, size >> 7
        hdr.append(c)
        return bytes(hdr) + zlib.compress(data)
    a, b = Blob.from_string(b"near the start of the pack\n"), Blob.from_string(b"past the two gigabyte mark\n")
    ra, rb = packed(a), packed(b)
    off_b = 2 * G + 4096
    trailer = hashlib.sha1(b"trailer").digest()
    real = sorted([(a.sha().digest(), 12, zlib.crc32(ra)), (b.sha().digest(), off_b, zlib.crc32(rb))])
    synth = {1: [12, 70000, 2 * G - 1, 2 * G, 2 * G + 4711, 3 * G + 5, 4 * G - 1]}
    synth[2] = synth[3] = synth[1] + [5 * G]
    answers = {}
    for v in (1, 2, 3):
        out = {}
        base = os.path.join(d, f"pack-v{v}")
        try:
            with open(base + ".pack", "wb") as f:
                f.write(b"PACK" + struct.pack(">LL", 2, 2) + ra)
                f.seek(off_b)
                f.write(rb + trailer)
            with open(base + ".idx", "wb") as f:
                write_pack_index(f, real, trailer, version=v)
            p = Pack(base, object_format=DEFAULT_OBJECT_FORMAT)
            try:
                for name, o in (("near", a), ("far", b)):
                    try:
                        t, raw = p.get_raw(o.id)
                        out["get:" + name] = "ok" if (t, raw) == (3, o.as_raw_string()) else "wrong"
                    except Exception as e:
                        out["get:" + name] = "exc:" + type(e).__name__
            finally:
                p.close()
        finally:
            for ext in (".pack",):
                if os.path.exists(base + ext):
                    os.remove(base + ext)
        ents = sorted((hashlib.sha1(b"o%d" % i).digest(), off, 0x1000 + i) for i, off in enumerate(synth[v]))
        sp = os.path.join(d, f"s{v}.idx")
        with open(sp, "wb") as f:
            write_pack_index(f, ents, trailer, version=v)
        idx = load_pack_index(sp, DEFAULT_OBJECT_FORMAT)
        try:
            for name, off, _ in ents:
                try:
                    got = idx.object_offset(name)
                    out[f"offset:{off}"] = "ok" if got == off else f"wrong:{got}"
                except Exception as e:
                    out[f"offset:{off}"] = "exc:" + type(e).__name__
            try:
                out["iterentries"] = "ok" if [(n_, o_) for n_, o_, _ in idx.iterentries()] == [(n_, o_) for n_, o_, _ in ents] else "wrong"
            except Exception as e:
                out["iterentries"] = "exc:" + type(e).__name__
        finally:
            idx.close()
        answers[v] = out
        ctx.count()
    shutil.rmtree(d, ignore_errors=True)
    for v, out in answers.items():
        bad = {k: r for k, r in out.items() if r != "ok"}
        if bad:
            k = sorted(bad)[0]
            cls = "mid(2^31..2^32-1)" if any(x.startswith("offset:") and 2 ** 31 <= int(x[7:]) < 2 ** 32 for x in bad) or "get:far" in bad else "other"
            ctx.violation(f"dulwich/pack.py:write_pack_index_v{v}|idx-version-changes-lookup|offset|idx:v{v};class={cls}",
                          f"pack index v{v}: {k} -> {bad[k]} (other versions return what was stored): {bad}",
                          {"kind": "large-offset-layout", "answers": {str(x): y for x, y in answers.items()}})
        else:
            ctx.validated()
    ctx.nontrivial(("large-offset-layout",))
    ctx.cov["large_offset_layout"] = {str(v): ("all lookups exact" if all(r == "ok" for r in o.values()) else o) for v, o in answers.items()}


def shallow_clone_layout(ctx):
    """A real shallow clone (history beyond the boundary is NOT there), which the enumerated histories do not
    contain: origin c1 <- c2 <- c3, clone holds c2, c3 with shallow = {c2}; the commit-graph of the full origin
    (written by dulwich and by git) is copied in.  Parents, walk and merge-base with vs without the file."""
    from dulwich.graph import find_merge_base
    from dulwich.repo import Repo
    for wr in ("dulwich", "git") if git_available() else ("dulwich",):
        root = ctx.tmpdir("shc")
        side = X.create(root)
        w = Repo(X.R(root))
        tref = {"a": 0, "b": 0}
        for i, P in ((1, []), (2, [1]), (3, [2])):
            X.apply(root, side, "Commit", (P, "a", "loose"), "w", w, 0, tref)
            tref["a"] = i
        X.apply(root, side, "BuildCg", (wr, "reach"), "x", w, 0, tref)
        w.close()
        clone = os.path.join(root, "c.git")
        shutil.copytree(X.R(root), clone)
        for k in X.KINDS:
            h = side.ids[1][k]
            os.remove(os.path.join(clone, "objects", h[:2], h[2:]))
        r = Repo(clone)
        r.update_shallow([side.cid(2)], None)
        r.close()

        def ask():
            r = Repo(clone)
            out = {}
            try:
                for i in (2, 3):
                    for name, fn in (("par", lambda: r.get_parents(side.cid(i))),
                                     ("walk", lambda: sorted(e.commit.id for e in r.get_walker(include=[side.cid(i)])))):
                        try:
                            out[f"{name}[{i}]"] = fn()
                        except Exception as e:
                            out[f"{name}[{i}]"] = "exc:" + type(e).__name__
                try:
                    out["mb[2,3]"] = find_merge_base(r, [side.cid(3), side.cid(2)])
                except Exception as e:
                    out["mb[2,3]"] = "exc:" + type(e).__name__
            finally:
                r.close()
            return out
        with_ = ask()
        os.remove(os.path.join(clone, "objects", "info", "commit-graph"))
        without = ask()
        ctx.count()
        bad = sorted(k for k in with_ if with_[k] != without[k])
        if bad:
            k = bad[0]
            q = k.split("[")[0]
            ctx.violation(f"{RP.SITE.get(q, 'dulwich/repo.py:ParentsProvider.get_parents')}|with!=without|{q}|cg:copied-into-shallow-clone",
                          f"shallow clone + commit-graph of the full origin ({wr}): {k}: with {with_[k]!r} without {without[k]!r}",
                          {"kind": "shallow-clone-layout", "writer": wr, "with": {a: repr(b) for a, b in with_.items()},
                           "without": {a: repr(b) for a, b in without.items()}})
        else:
            ctx.validated()
        ctx.nontrivial(("shallow-clone-layout", wr))
        shutil.rmtree(root, ignore_errors=True)


def ref_steps(ctx, only=None):
    """Ref storage at file-system granularity (specs/AccelRefStep.tla): delete / set / pack-refs as sequences of
    visible mutations with a reader or a crash between any two.  TLC checks Atomic and Final on the design, must
    find Atomic violated with either ordering guard off, and its state graph drives the real entry points."""
    d = ctx.tmpdir("rs")
    dot = os.path.join(d, "g.dot")
    res = tlc.run("AccelRefStep.tla", "AccelRefStep_mc.cfg", workers=1, timeout=120, dump_dot=dot)
    ctx.add_tlc("AccelRefStep_mc (delete/set/pack-refs step by step with crashes: Atomic, Final)", res)
    if only is None:
        for name, what in (("delorder", "a delete unlinks the loose file before it drops the packed entry"),
                           ("packorder", "pack-refs prunes the loose file before packed-refs is in place")):
            r = tlc.run("AccelRefStep.tla", f"AccelRefStep_d_{name}.cfg", workers=1, timeout=120)
            ctx.add_tlc(f"AccelRefStep_d_{name} (one guard off: {what}; expects Atomic)", r, require_ok=False)
            if "Atomic" not in r.violated:
                raise MachineryError(f"AccelRefStep_d_{name}.cfg: TLC did not find Atomic violated\n{r.output[-1500:]}")
    g = tlc.load_dot(dot)
    ncases, nruns = RS.run_all(ctx, g, only=only)
    ctx.log(f"ref steps: {len(g.nodes)} states, {len(g.init)} initial (storage x operation); {ncases} cases "
            f"(x entry point x packed-refs flavour), {nruns} executions (one observed run + one per crash point)")
    shutil.rmtree(d, ignore_errors=True)


# --------------------------------------------------------------------------- entry
def run(ctx):
    # load the code under test once, before any worker is forked: every worker then runs the same snapshot of it
    import dulwich.bitmap, dulwich.commit_graph, dulwich.gc, dulwich.graph, dulwich.midx  # noqa: F401,E401
    import dulwich.object_store, dulwich.pack, dulwich.refs, dulwich.repo                  # noqa: F401,E401
    for fn in os.listdir(ctx.replay_dir):          # replay files of earlier runs
        os.remove(os.path.join(ctx.replay_dir, fn))
    if not git_available():
        ctx.assumptions.append("C git not found: git-writer transitions were skipped")
    pool = cf.ThreadPoolExecutor(max_workers=4)
    mc_cfg = ctx.pick("Accel_mc.cfg", "Accel_mc6.cfg")
    fut_mc = pool.submit(tlc.run, "Accel.tla", mc_cfg, workers=ctx.pick(4, 8), timeout=ctx.pick(300, 2400),
                         coverage=not ctx.quick)
    # (depth 6 is checked without Exact, which only depends on primary data and is checked to depth 5 here)
    fut_mc5 = None if ctx.quick else pool.submit(tlc.run, "Accel.tla", "Accel_mc5.cfg", workers=4, timeout=2400)
    futs = defect_runs(ctx, pool)
    t0 = os.times()
    budget = int(os.environ.get("C14_BUDGET", ctx.pick(2800, 36000)))       # (C14_BUDGET: debugging aid)
    records = replay_graph(ctx, ctx.pick("Accel_mc.cfg", "Accel_mc5.cfg"), budget, ctx.pick("depth 4", "depth 5"))
    # ref storage alone, deeper (no objects move, so it is cheap): every transition executed
    records += replay_graph(ctx, ctx.pick("Accel_refs.cfg", "Accel_refs3.cfg"), 10 ** 9,
                            ctx.pick("refs only, 2 commits, depth 7", "refs only, 3 commits, depth 6"), every_edge=True)
    # one process packs everything and generates the bitmaps itself (only then are bitmaps consulted), deeper
    records += replay_graph(ctx, "Accel_bmp.cfg", 10 ** 9, "pack + bitmaps by the long-lived reader, 3 commits, depth 5",
                            every_edge=True, force={"BuildBmp": ("w", 0)})
    # histories with several merges of three parents, commit-graph written by dulwich and by git
    records += replay_graph(ctx, "Accel_octo.cfg", 10 ** 9, "three-parent merges, 5 commits, depth 6", every_edge=True)
    # graft points and the shallow file (primary data) with commit-graphs written here or copied in
    records += replay_graph(ctx, ctx.pick("Accel_graft.cfg", "Accel_graft5.cfg"), 10 ** 9,
                            ctx.pick("grafts + shallow file + commit-graph, 3 commits, depth 4", "grafts + shallow file + commit-graph, 3 commits, depth 5"),
                            every_edge=True)
    large_offset_layout(ctx)
    shallow_clone_layout(ctx)
    ref_steps(ctx)
    defect_replays(ctx, futs)
    wtraces, wmeta = walks(ctx, ctx.pick(28, 600), ctx.pick(12, 16), ctx.pick(5, 6))
    t1 = os.times()
    ctx.cov["replay_cpu_s"] = round((t1.children_user + t1.children_system + t1.user + t1.system)
                                    - (t0.children_user + t0.children_system + t0.user + t0.system), 1)
    # code -> spec: the states reached by the graph replay (answers only) and the walks (steps and answers)
    straces, smeta = [], {}
    for k, (real, ans_n, path) in enumerate(records):
        act, args = RP.parse_label(path[-1])
        straces.append({"tid": k + 1, "free": True,
                        "steps": [{"act": TR.act_record(act, list(args)), "st": TR.st_record(real, 6),
                                   "obs": TR.obs_record(ans_n, real["n"])}]})
        smeta[k + 1] = path
    asis = judge(ctx, straces, smeta, "states")
    asis += judge(ctx, wtraces, wmeta, "walks")
    ctx.cov["answers_matching_code_not_documentation"] = asis
    res = fut_mc.result()
    ctx.add_tlc(f"{mc_cfg} (all guards on: Transparent, {'Exact, ' if ctx.quick else ''}RefsTransparent, StaleRejected)", res)
    if fut_mc5 is not None:
        ctx.add_tlc("Accel_mc5.cfg (all guards on: Transparent, Exact, RefsTransparent, StaleRejected)", fut_mc5.result())
    pool.shutdown()
    ctx.cov["rule"] = ("one evaluation = one model transition executed on a real repository and observed by three readers "
                       "(long-lived, fresh with accelerators, fresh without); distinct = distinct (state, action, successor) "
                       "transitions of the state graph plus distinct walks; all are non-trivial (each runs the full query "
                       "battery on a non-empty history except the first step)")
    ctx.assumptions += [
        "histories: <= 3 commits exhaustively (<= 6 in walks), each commit with a private tree and blob, 2 refs, <= 2 (3) packs alive, bounded depth",
        "timestamps increase with the commit number (clock skew is C13's subject)",
        "ref steps (AccelRefStep): one ref with 2 values next to a packed-only bystander; the visible mutations are os.rename/replace/remove/unlink/rmdir under the repository; a crash leaves lock files behind, readers do not take locks",
        "C git 2.39.5 as writer of commit-graph, multi-pack-index, bitmaps (repack -adb), packed-refs",
        "the long-lived reader is compared on objects that still exist (its open packs may outlive a prune: pack cache, not acceleration data)",
        "get_reachable_commits(exclude)/get_reachable_objects of the graph-traversal provider are accepted with the meaning of the code OR of the documentation (they differ; counted in answers_matching_code_not_documentation)",
    ]
    return ctx.finish(exhaustive=False)


def replay(ctx, path):
    obj = json.load(open(path))
    print(json.dumps({k: v for k, v in obj.items() if k not in ("model_state", "models")}, indent=1)[:4000])
    labels, models = obj.get("labels"), obj.get("models")
    ctx.known = []
    if obj.get("kind") in ("large-offset-layout", "shallow-clone-layout"):
        (large_offset_layout if obj["kind"] == "large-offset-layout" else shallow_clone_layout)(ctx)
        print("result:", "VIOLATION reproduced" if ctx.violations else "no violation on the current tree")
        return 1 if ctx.violations else 0
    if obj.get("kind") == "refstep":
        c = obj["case"]
        ref_steps(ctx, only=[c[0], c[1], c[2], c[3], c[4]])
        print("result:", "VIOLATION reproduced" if ctx.violations else "no violation on the current tree")
        return 1 if ctx.violations else 0
    if not labels or not models:
        return 0
    n = len(labels)
    whos = [None] * (n - 1) + [obj.get("who_last")]
    root, scratch = ctx.tmpdir("beh"), ctx.tmpdir("behs")
    X.create(root)
    src_ans = None
    for k, lab in enumerate(labels):
        last = k == n - 1
        force = {k2: tuple(v) for k2, v in (obj.get("force") or {}).items()}
        r = RP.step(root, scratch, models[k], lab, models[k + 1], src_ans, seed=obj.get("seed", 0), who=whos[k],
                    opts=(obj.get("opts_last") if last else None), light=False, force=force)
        print(f"step {k + 1}: {lab} by {r['who']} (opts {r['opts']})")
        if r.get("real"):
            print(f"    directory: {json.dumps(r['real'], sort_keys=True)}")
        for s in r["shape"]:
            print(f"    SHAPE {s}")
        for (site, clause, q, cause, detail) in r["viol"]:
            print(f"    {clause} [{q}] cause {cause}: {detail}")
        report(ctx, r, labels[:k + 1], models[k + 1])
        if r["ans"] is None:
            break
        src_ans = {"f": r["ans"], "n": r["ans_n"]}
    print("result:", "VIOLATION reproduced" if ctx.violations else "no violation on the current tree")
    return 1 if ctx.violations else 0

"""C11 -- index file round trip, ordering, checksum, agreement with C git.

Spec: specs/IndexFmt.tla (+ IndexFmtTrace.tla).  Binding:
  R  every case TLC enumerates (entry sets x versions x flag bits x stat boundary values x
     extension lists) carries the field layout and the expected read-back computed by the
     specification; a dumb renderer turns the fields into bytes; the real Index.write /
     Index.read / read_index are run on the case and compared; C git reads both files.
  T  executions of the real code on larger random inputs, indexes built by C git itself
     (update-index --index-info / --index-version, git add, merges, read-tree, sparse-checkout,
     untracked cache ...) read and rewritten by dulwich, are recorded as ndjson and judged by TLC
     (IndexFmtTrace) with the operators of IndexFmt.  For git-written files TLC also checks that
     the specification lays out exactly git's bytes (the specification is validated against git
     before anything is held against dulwich).
  damage: single-byte damage of written files must make Index() raise.
"""
from __future__ import annotations

import hashlib
import json
import os
import random
import shutil
import struct
import zlib

from .. import c11_lib as L
from .. import c11_scen as SC
from .. import tlc
from ..core import MachineryError, git_available

PROCS = 8


# --------------------------------------------------------------------------- signatures
def site_for(clause, feats):
    reading = clause.startswith("ReadsGit")
    if "name>=0x1000" in feats:
        return "dulwich/index.py:read_cache_entry" if reading else "dulwich/index.py:write_cache_entry"
    if "v4strip>=128" in feats:
        return "dulwich/index.py:_decompress_path_from_stream" if reading else "dulwich/index.py:_compress_path"
    if "size>=2^32" in feats:
        return "dulwich/index.py:write_cache_entry"
    if clause.startswith("ChecksumDetects"):
        return "dulwich/index.py:Index.read"
    if clause.startswith("Exts"):
        return "dulwich/index.py:Index.write"
    return "dulwich/index.py:Index.read" if reading else "dulwich/index.py:Index.write"


def compact(entries, limit=4):
    """Canonical short description of a (minimal) failing entry list."""
    out = []
    for e in sorted(entries, key=L.entry_key)[:limit]:
        n = L.runs_to_bytes(e["name"])
        bits = "".join(ch for ch, k in (("V", "valid"), ("S", "skip"), ("I", "ita"), ("X", "xbit")) if e.get(k))
        nm = n.hex() if len(n) <= 6 else f"len{len(n)}"
        out.append(f"{nm}/s{e['stage']}/{bits or '-'}")
    more = f"+{len(entries) - limit}" if len(entries) > limit else ""
    return f"n={len(entries)} " + ",".join(out) + more


def signature(clause, v, entries, extra="", feats=None):
    feats = L.features(v, entries) if feats is None else feats
    canon = f"v{v} {feats}" if feats else f"v{v} plain {compact(entries)}"
    if extra:
        canon += " " + extra
    return f"{site_for(clause, feats)}|{clause}|{canon}", feats


def cpu_s():
    import resource
    a, b = resource.getrusage(resource.RUSAGE_SELF), resource.getrusage(resource.RUSAGE_CHILDREN)
    return round(a.ru_utime + a.ru_stime + b.ru_utime + b.ru_stime, 1)


def is_known(ctx, sig):
    import fnmatch
    return any(k.get("status", "open") == "open" and (sig == k.get("signature") or fnmatch.fnmatchcase(sig, k.get("signature", "")))
               for k in ctx.known)


CAP = 3


def report(ctx, sig, what, replay_obj):
    """ctx.violation with a cap: one root cause fails on hundreds of minimal cases; beyond the
    first CAP unlisted signatures per (site, clause, version) the rest are only counted.  Signatures
    that match a known finding never consume the cap, so a different defect stays visible."""
    if is_known(ctx, sig):
        return ctx.violation(sig, what, replay_obj)
    group = "|".join(sig.split("|")[:2]) + "|" + sig.split("|")[2].split(" ")[0]
    seen = ctx.__dict__.setdefault("_c11_groups", {})
    sigs = seen.setdefault(group, set())
    if sig in sigs or len(sigs) < CAP:
        sigs.add(sig)
        return ctx.violation(sig, what, replay_obj)
    ctx.cov.setdefault("further_failing_minimal_cases", {})
    ctx.cov["further_failing_minimal_cases"][group] = ctx.cov["further_failing_minimal_cases"].get(group, 0) + 1
    return True


def exc_name(e):
    return type(e).__name__


# --------------------------------------------------------------------------- workspace (per process)
class Work:
    def __init__(self, root):
        self.root = root
        os.makedirs(root, exist_ok=True)
        self.git = L.Git(root) if git_available() else None
        self.n = 0

    def path(self, tag="i"):
        self.n += 1
        return os.path.join(self.root, f"{tag}{os.getpid()}_{self.n}")


def same_set(a, b):
    return len(a) == len(b) and sorted(map(L.canon, a)) == sorted(map(L.canon, b))


def trailer_status(data):
    tr = data[-20:]
    return "sha1" if tr == hashlib.sha1(data[:-20]).digest() else ("zeros" if tr == b"\0" * 20 else "bad")


# --------------------------------------------------------------------------- damage
def damage_positions(n):
    if n <= 256:
        return list(range(n))
    step = max(1, n // 72)
    return sorted(set(range(0, n, step)) | set(range(n - 24, n)) | set(range(0, 14)))


def region_of(pj, off, n):
    if off < 12:
        return "header"
    if off >= n - 20:
        return "trailer"
    if pj.get("ok") and off >= pj["ext_start"]:
        return "extension"
    return "entry"


SHORT_TRAILER = "ChecksumDetects(short trailer)"
SHORT_TRAILER_SIG = "dulwich/pack.py:SHA1Reader.check_sha|ChecksumDetects|fewer than 20 trailer bytes accepted (allow_empty)"


def _bytes_left_at_check(bad: bytes):
    """How many bytes the reader leaves for the trailer (None if parsing raises)."""
    import io

    from dulwich.index import read_index_dict_with_version
    from dulwich.pack import SHA1Reader
    rd = SHA1Reader(io.BytesIO(bad))
    try:
        read_index_dict_with_version(rd)
        return len(bad) - rd.tell()
    except Exception:  # noqa: BLE001
        return None


def damage_check(W, data, pj):
    """Every sampled single-byte damage and every truncation of a file with a real trailer must make
    Index() raise -- whatever the reader's own configuration: Index(path) and, for every third
    candidate and every truncation, Index(path, skip_hash=True) (index.skipHash / feature.manyFiles)."""
    from dulwich.index import Index
    fails, trials = [], 0
    p = W.path("dmg")
    n = len(data)
    cands = [(f"byte {off} xor {x:#x}", off, bytes(data[:off]) + bytes([data[off] ^ x]) + bytes(data[off + 1:]))
             for off in damage_positions(n) for x in (0x01, 0x80)]
    cands += [(f"truncated by {k}", n - k, bytes(data[:n - k])) for k in (1, 7, 19, 20, 21, 28, n // 2) if 0 < k < n]
    seen = set()
    for ci, (what, off, bad) in enumerate(cands):
        with open(p, "wb") as f:
            f.write(bad)
        readers = [False] + ([True] if ci % 3 == 0 or what.startswith("trunc") else [])
        for rsk in readers:
            trials += 1
            try:
                Index(p, skip_hash=rsk)
            except Exception:  # noqa: BLE001 - any refusal counts as detection
                continue
            left = _bytes_left_at_check(bad)
            if left is not None and left < 20 and not rsk:
                cl = SHORT_TRAILER
            else:
                cl = f"ChecksumDetects({'truncation' if what.startswith('trunc') else region_of(pj, off, n)}{', reader skip_hash=True' if rsk else ''})"
            if cl not in seen:
                seen.add(cl)
                fails.append((cl, f"{what} of a {n}-byte index with a SHA-1 trailer accepted silently by Index(path, skip_hash={rsk}) "
                                  f"({left} bytes were left for the trailer)"))
    if os.path.exists(p):
        os.unlink(p)
    return fails, trials


def reader_config_check(ctx):
    """Reader configuration x trailer kind through the public entry points, once per run:
    files with a real and with a zero trailer are read by Index(skip_hash=False/True) and by
    Repo.open_index() with and without feature.manyFiles / index.skipHash; undamaged files read the same
    entries; a damaged file with a real trailer is refused by every reader."""
    from dulwich.index import Index, IndexEntry
    from dulwich.repo import Repo
    d = ctx.tmpdir("rc")
    n = 0
    ents = {b"a": IndexEntry((1, 2), (3, 4), 5, 6, 0o100644, 7, 8, 9, b"11" * 20, 0, 0),
            b"dir/b": IndexEntry((1, 2), (3, 4), 5, 6, 0o100755, 7, 8, 9, b"22" * 20, 0, 0)}
    cfgs = []
    for mf in ("unset", "true", "false"):
        for sh in ("unset", "true", "false"):
            cfgs.append((f"feature.manyFiles={mf} index.skipHash={sh}",
                         ([((b"feature",), b"manyFiles", mf.encode())] if mf != "unset" else [])
                         + ([((b"index",), b"skipHash", sh.encode())] if sh != "unset" else [])))
    for cfg_name, cfg in cfgs:
        for wsk in (False, True):
            rd = os.path.join(d, f"r{n}")
            n += 1
            os.makedirs(rd)
            repo = Repo.init(rd)
            c = repo.get_config()
            for sec, k, v in cfg:
                c.set(sec, k, v)
            c.write_to_path()
            ip = os.path.join(rd, ".git", "index")
            w = Index(ip, read=False, skip_hash=wsk)
            for k, v in ents.items():
                w[k] = v
            w.write()
            with open(ip, "rb") as f:
                data = f.read()
            for reader, open_it in (("Index(skip_hash=False)", lambda: Index(ip)), ("Index(skip_hash=True)", lambda: Index(ip, skip_hash=True)),
                                    (f"Repo.open_index() [{cfg_name}]", lambda: Repo(rd).open_index())):
                ctx.count()
                try:
                    got = sorted(open_it())
                except Exception as e:  # noqa: BLE001
                    got = f"{exc_name(e)}: {e}"
                if got != sorted(ents):
                    report(ctx, f"dulwich/index.py:Index.read|RoundTrip(reader config)|{reader} trailer={'zero' if wsk else 'sha1'}",
                           f"undamaged index written with skip_hash={wsk} read by {reader}: {got}", {"mode": "C", "reader": reader, "wsk": wsk})
                if wsk:
                    continue
                for off in (13, 52, len(data) // 2, len(data) - 30):
                    bad = bytearray(data)
                    bad[off] ^= 0x40
                    with open(ip, "wb") as f:
                        f.write(bad)
                    ctx.count()
                    try:
                        open_it()
                    except Exception:  # noqa: BLE001
                        continue
                    finally:
                        with open(ip, "wb") as f:
                            f.write(data)
                    report(ctx, f"dulwich/index.py:Index.read|ChecksumDetects(reader config)|{reader.split(' [')[0]} {cfg_name if 'Repo' in reader else ''}".strip(),
                           f"byte {off} of an index with a SHA-1 trailer damaged; {reader} accepts it silently", {"mode": "C", "reader": reader, "off": off})
                    break
            repo.close()
    shutil.rmtree(d, ignore_errors=True)


# --------------------------------------------------------------------------- mode R: one TLC case
def check_case(W, out, do_damage=False):
    """Run the real code on one enumerated case; returns dict(fails=[(clause, detail)], drift, mach, execs, damage)."""
    r = {"fails": [], "drift": None, "mach": None, "execs": 0, "damage": 0}
    spec = L.render(out["fields"])
    expect = out["expect"]
    v, skip = out["v"], out["skip"]
    p = W.path()
    dwb = None
    try:
        dwb = L.dw_write(p, v, skip, out["ins"])
    except Exception as e:  # noqa: BLE001
        r["fails"].append((f"WriteRaises({exc_name(e)})", f"Index.write raised {exc_name(e)}: {e}"))
    r["execs"] += 1
    if dwb is not None:
        try:
            _, rb = L.dw_read(p, skip)
            if not same_set(rb, expect):
                r["fails"].append(("RoundTrip", "Index(path) after Index.write() yields different entries: "
                                   f"{[L.describe(e) for e in rb][:4]} expected {[L.describe(e) for e in expect][:4]}"))
        except Exception as e:  # noqa: BLE001
            r["fails"].append(("RoundTrip", f"Index(path) after Index.write() raised {exc_name(e)}: {e}"))
        try:                       # the reader of the other configuration reads the same entries
            _, rbx = L.dw_read(p, not skip)
            if not same_set(rbx, expect):
                r["fails"].append(("RoundTrip(reader config)", f"Index(path, skip_hash={not skip}) on a file written with skip_hash={skip} yields different entries"))
        except Exception as e:  # noqa: BLE001
            r["fails"].append(("RoundTrip(reader config)", f"Index(path, skip_hash={not skip}) on a file written with skip_hash={skip} raised {exc_name(e)}: {e}"))
        pj = L.proj_parse(dwb)
        if pj["ok"]:
            if not L.ordered_keys(pj["entries"]) or len(pj["entries"]) != len(expect):
                r["fails"].append(("Order", f"entries in the file are not in git's order: {[L.entry_key(e) for e in pj['entries']][:6]}"))
        if trailer_status(dwb) != ("zeros" if skip else "sha1"):
            r["fails"].append(("Checksum", f"trailer is {trailer_status(dwb)}"))
        if W.git:
            gl, err = W.git.ls(p)
            if gl != expect:
                if dwb == spec:
                    r["mach"] = f"git disagrees with the specification's own layout: {err or [L.describe(e) for e in (gl or [])][:4]}"
                else:
                    r["fails"].append(("GitLists", "git ls-files on the file dulwich wrote: "
                                       + (err if gl is None else f"{[L.describe(e) for e in gl][:4]} expected {[L.describe(e) for e in expect][:4]}")))
        if dwb != spec and not r["fails"]:
            r["drift"] = f"Index.write output differs from the specified layout (v={v}, {len(expect)} entries) while every observable agrees"
        if do_damage and not skip and not r["fails"]:
            f, n = damage_check(W, dwb, pj)
            r["fails"] += f
            r["damage"] = n
    # the other direction: the file in git's format (validated by git) read by dulwich
    if dwb != spec:
        p2 = W.path("s")
        with open(p2, "wb") as f:
            f.write(spec)
        if W.git:
            gl, err = W.git.ls(p2)
            if gl != expect:
                r["mach"] = f"git does not list the specification's entries from the specification's layout: {err}"
        try:
            _, rb = L.dw_read(p2, skip)
            if not same_set(rb, expect):
                r["fails"].append(("ReadsGit", f"Index(path) on the git-format file yields {[L.describe(e) for e in rb][:4]} expected {[L.describe(e) for e in expect][:4]}"))
        except Exception as e:  # noqa: BLE001
            r["fails"].append(("ReadsGit", f"Index(path) on the git-format file raised {exc_name(e)}: {e}"))
        r["execs"] += 1
        os.unlink(p2)
    try:
        rs = L.dw_read_stream(spec)
        if rs != expect:
            r["fails"].append(("ReadsGit(read_index)", f"read_index yields {[L.describe(e) for e in rs][:4]} expected {[L.describe(e) for e in expect][:4]}"))
    except Exception as e:  # noqa: BLE001
        r["fails"].append(("ReadsGit(read_index)", f"read_index raised {exc_name(e)}: {e}"))
    r["execs"] += 1
    if os.path.exists(p):
        os.unlink(p)
    return r


def check_exts_case(W, out):
    """File A (with extensions) rendered from the specification -> Index(A) -> write() -> file B."""
    from dulwich.index import Index
    r = {"fails": [], "drift": None, "mach": None, "execs": 0, "damage": 0}
    a = L.render(out["fields"])
    expect = out["expect"]
    skip = out["skip"]
    p = W.path("x")
    with open(p, "wb") as f:
        f.write(a)
    if W.git:
        gl, err = W.git.ls(p)
        if gl != expect:
            r["mach"] = f"git does not accept the specification's layout with extensions: {err}"
            return r
    try:
        idx = Index(p, skip_hash=skip)
        rb = L.dw_items_abs(idx.items())
    except Exception as e:  # noqa: BLE001
        r["fails"].append(("ReadsGit", f"Index(path) on a file with extensions raised {exc_name(e)}: {e}"))
        return r
    r["execs"] += 1
    if not same_set(rb, expect):
        r["fails"].append(("ReadsGit", f"entries read from a file with extensions: {[L.describe(e) for e in rb][:4]}"))
    try:
        idx.write()
    except Exception as e:  # noqa: BLE001
        r["fails"].append((f"WriteRaises({exc_name(e)})", f"rewrite raised {exc_name(e)}: {e}"))
        return r
    r["execs"] += 1
    with open(p, "rb") as f:
        b = f.read()
    pj = L.proj_parse(b)
    must = [(L.runs_to_bytes(x["sig"]), L.runs_to_bytes(x["data"])) for x in out["must"]]
    if not pj["ok"]:
        r["fails"].append(("RoundTrip", f"rewritten file is not a well-formed index: {pj['why']}"))
    else:
        got = [x for x in pj["exts"] if x in must]
        if got != must:
            r["fails"].append(("Exts", f"unknown extensions {[s for s, _ in must]} became {[s for s, _ in pj['exts']]}"))
        if not L.ordered_keys(pj["entries"]):
            r["fails"].append(("Order", "rewritten entries out of order"))
    if trailer_status(b) != ("zeros" if skip else "sha1"):
        r["fails"].append(("Checksum", f"trailer is {trailer_status(b)}"))
    try:
        _, rb2 = L.dw_read(p, skip)
        if not same_set(rb2, expect):
            r["fails"].append(("RoundTrip", "entries changed by a read/write cycle"))
    except Exception as e:  # noqa: BLE001
        r["fails"].append(("RoundTrip", f"re-read raised {exc_name(e)}: {e}"))
    if W.git:
        gl, err = W.git.ls(p)
        if gl != expect:
            r["fails"].append(("GitLists", f"git on the rewritten file: {err if gl is None else 'different entries'}"))
    want = L.render(out["refields"]) if out["exts"] else a
    if b != want and not r["fails"]:
        r["drift"] = (f"rewritten file differs from the specified layout (kept extensions "
                      f"{[s for s, _ in pj['exts']]}, specified {[L.runs_to_bytes(x['sig']) for x in out['keep']]})")
    os.unlink(p)
    return r


# --------------------------------------------------------------------------- entry-object histories
SIDE = {1: "ancestor", 2: "this", 3: "other"}


def edits_str(eds):
    def nm(r):
        b = L.runs_to_bytes(r)
        return b.decode("latin1") if len(b) <= 8 and b.isalnum() else f"len{len(b)}"
    return ";".join(f"{e['op']}({nm(e['n'])},{e['a']},{e['b']},{nm(e['m']) if e['m'] else ''})" for e in eds) or "none"


def apply_edits(idx, eds):
    """The edit steps of IndexFmt.tla (Apply) on a real Index, re-using the entry objects it read."""
    import dataclasses

    from dulwich.index import EXTENDED_FLAG_INTEND_TO_ADD, ConflictedIndexEntry
    for e in eds:
        op, n, a, b = e["op"], L.runs_to_bytes(e["n"]), e["a"], e["b"]
        m = L.runs_to_bytes(e["m"]) if e["m"] else b""
        if op == "resolve":
            idx[n] = getattr(idx[n], SIDE[a])
        elif op == "swap":
            conf = idx[n]
            x, y = getattr(conf, SIDE[a]), getattr(conf, SIDE[b])
            setattr(conf, SIDE[a], y)
            setattr(conf, SIDE[b], x)
        elif op == "move":
            idx[m] = idx[n]
            del idx[n]
        elif op == "toslot":
            src = dataclasses.replace(idx[n])
            if m in idx:
                setattr(idx[m], SIDE[b], src)
            else:
                idx[m] = ConflictedIndexEntry(**{SIDE[b]: src})
        else:
            obj = idx[n] if a == 0 else getattr(idx[n], SIDE[a])
            if op == "setskip":
                obj.set_skip_worktree(True)
            elif op == "clearskip":
                obj.set_skip_worktree(False)
            elif op == "setita":
                obj.extended_flags |= EXTENDED_FLAG_INTEND_TO_ADD
            elif op == "clearita":
                obj.extended_flags &= ~EXTENDED_FLAG_INTEND_TO_ADD
            else:
                raise MachineryError(f"unknown edit {op}")


def pick_edits(rng, listing, k):
    """k random enabled edits for an index with the given entries (EditOK is re-checked by TLC)."""
    mem = {(L.runs_to_bytes(e["name"]), e["stage"]): {"skip": e["skip"], "ita": e["ita"]} for e in listing}
    out = []
    for i in range(k):
        conf = sorted({n for (n, s) in mem if s > 0})
        norm = sorted({n for (n, s) in mem if s == 0})
        by = {"resolve": [], "swap": [], "move": [], "toslot": [], "flag": []}
        for (n, s) in sorted(mem):
            if s > 0:
                by["resolve"].append(("resolve", n, s, 0, b""))
                by["swap"] += [("swap", n, s, b, b"") for b in (1, 2, 3) if b != s and ((n, b) not in mem or s < b)]
            st = mem[(n, s)]
            by["flag"].append(("clearskip" if st["skip"] else "setskip", n, s, 0, b""))
            by["flag"].append(("clearita" if st["ita"] else "setita", n, s, 0, b""))
        new = b"zz-moved-%d" % i
        by["move"] = [("move", n, 0, 0, new) for n in conf + norm]
        by["toslot"] = [("toslot", n, 0, b, m) for n in norm for m in conf + [b"zz-slot-%d" % i] for b in (1, 2, 3) if m != n]
        kinds = [k2 for k2 in ("resolve", "resolve", "swap", "swap", "move", "toslot", "toslot", "flag") if by[k2]]
        if not kinds:
            break
        op, n, a, b, m = rng.choice(by[rng.choice(kinds)])
        out.append({"op": op, "n": L.bytes_to_runs(n), "a": a, "b": b, "m": L.bytes_to_runs(m)})
        if op == "resolve":
            o = mem[(n, a)]
            for s in (1, 2, 3):
                mem.pop((n, s), None)
            mem[(n, 0)] = o
        elif op == "swap":
            x, y = mem.pop((n, a)), mem.pop((n, b), None)
            mem[(n, b)] = x
            if y is not None:
                mem[(n, a)] = y
        elif op == "move":
            for s in (0, 1, 2, 3):
                if (n, s) in mem:
                    mem[(m, s)] = mem.pop((n, s))
        elif op == "toslot":
            mem[(m, b)] = dict(mem[(n, 0)])
        elif op in ("setskip", "clearskip"):
            mem[(n, a)]["skip"] = op == "setskip"
        else:
            mem[(n, a)]["ita"] = op == "setita"
    return out


def check_hist_case(W, out):
    """A TLC-enumerated history: the base index is written (by dulwich, and as the specification lays it
    out = git's format), read by Index(), edited by re-slotting the objects that were read, written again."""
    from dulwich.index import Index
    r = {"fails": [], "drift": None, "mach": None, "execs": 0, "damage": 0}
    h = out["h"]
    expect, want = out["expect"], L.render(out["fields"])
    base_spec = L.render(h["bfields"])
    bases = [("git-format base", base_spec)]
    p = W.path("h")
    try:
        b_dw = L.dw_write(p, out["v"], out["skip"], h["bins"])
        if b_dw != base_spec:
            bases.append(("dulwich-written base", b_dw))
    except Exception as e:  # noqa: BLE001
        r["fails"].append((f"WriteRaises({exc_name(e)})", f"writing the base index raised {exc_name(e)}: {e}"))
    checked_git = False
    for what, base in bases:
        with open(p, "wb") as f:
            f.write(base)
        try:
            idx = Index(p)
            apply_edits(idx, h["eds"])
        except Exception as e:  # noqa: BLE001
            r["fails"].append(("ReadsGit(history)", f"{what}: reading / editing raised {exc_name(e)}: {e}"))
            continue
        try:
            idx.write()
        except Exception as e:  # noqa: BLE001
            r["fails"].append((f"WriteRaises({exc_name(e)})", f"{what}: Index.write after {edits_str(h['eds'])} raised {exc_name(e)}: {e}"))
            continue
        r["execs"] += 1
        with open(p, "rb") as f:
            b = f.read()
        try:
            _, rb = L.dw_read(p)
            if not same_set(rb, expect):
                r["fails"].append(("RoundTrip(history)", f"{what}, edits {edits_str(h['eds'])}: re-read yields {[L.describe(e) for e in rb][:5]} "
                                   f"expected {[L.describe(e) for e in expect][:5]}"))
        except Exception as e:  # noqa: BLE001
            r["fails"].append(("RoundTrip(history)", f"{what}: re-read raised {exc_name(e)}: {e}"))
        pj = L.proj_parse(b)
        if pj["ok"] and (not L.ordered_keys(pj["entries"]) or len(pj["entries"]) != len(expect)):
            r["fails"].append(("Order(history)", f"{what}, edits {edits_str(h['eds'])}: keys in the file {[L.entry_key(e) for e in pj['entries']][:6]}"))
        if trailer_status(b) != "sha1":
            r["fails"].append(("Checksum", f"trailer is {trailer_status(b)}"))
        if W.git and not (b == want and checked_git):
            gl, err = W.git.ls(p)
            if gl != expect:
                if b == want:
                    r["mach"] = f"git disagrees with the specification's layout of an edited index: {err or [L.describe(e) for e in (gl or [])][:5]}"
                else:
                    r["fails"].append(("GitLists(history)", f"{what}, edits {edits_str(h['eds'])}: git ls-files "
                                       + (err if gl is None else f"{[L.describe(e) for e in gl][:5]} expected {[L.describe(e) for e in expect][:5]}")))
            checked_git = checked_git or b == want
        if b != want and not r["fails"]:
            r["drift"] = f"file written after edits {edits_str(h['eds'])} differs from the specified layout while every observable agrees"
    if os.path.exists(p):
        os.unlink(p)
    return r


# --------------------------------------------------------------------------- repository configuration
def conf_str(cf):
    return f"feature.manyFiles={cf['mf']} index.skipHash={cf['sh']} index.version={cf['iv'] or 'unset'}"


def conf_repo(root, cf):
    """Repo.init + the configuration of the case (unset = not written)."""
    from dulwich.repo import Repo
    os.makedirs(root)
    repo = Repo.init(root)
    c = repo.get_config()
    if cf["mf"] != "unset":
        c.set((b"feature",), b"manyFiles", cf["mf"].encode())
    if cf["sh"] != "unset":
        c.set((b"index",), b"skipHash", cf["sh"].encode())
    if cf["iv"]:
        c.set((b"index",), b"version", str(cf["iv"]).encode())
    c.write_to_path()
    repo.close()
    return Repo(root)


def check_conf_case(W, out):
    """A TLC-enumerated configuration (feature.manyFiles x index.skipHash x index.version): what
    Repo.open_index().write() and porcelain.add write (trailer kind per the specification's precedence
    rule, entries, version), what the configured reader reads back and refuses, what git lists."""
    from dulwich import porcelain
    r = {"fails": [], "drift": None, "mach": None, "execs": 0, "damage": 0}
    cf, expect, want = out["cf"], out["expect"], L.render(out["fields"])
    want_trailer = "zeros" if out["skip"] else "sha1"
    root = W.path("cf")
    # the specification's version rule against git (2.39.5 knows feature.manyFiles -> version 4 and
    # index.version; it does not know index.skipHash, so the trailer rule has no git oracle here)
    if W.git:
        gi = W.path("cg")
        argv = ["git"] + [x for k, v in (("feature.manyFiles", cf["mf"]), ("index.version", str(cf["iv"] or "unset"))) if v != "unset" for x in ("-c", f"{k}={v}")]
        lines = b"".join(b"%o %s %d\t%s\0" % (L.limbs_to_int(e["mode"]), L.runs_to_bytes(e["sha"]).hex().encode(), e["stage"], L.runs_to_bytes(e["name"]))
                         for e in out["ins"])
        W.git.run(argv + ["update-index", "-z", "--index-info"], index=gi, stdin=lines)
        with open(gi, "rb") as f:
            gv = struct.unpack(">I", f.read(8)[4:])[0]
        os.unlink(gi)
        if gv != cf["gitv"]:
            r["mach"] = f"git writes index version {gv} under {conf_str(cf)}, the specification says {cf['gitv']}"
            return r
    try:
        repo = conf_repo(root, cf)
        ip = repo.index_path()
        idx = repo.open_index()
        L.dw_fill(idx, out["ins"])
        idx.write()
        r["execs"] += 1
        with open(ip, "rb") as f:
            b = f.read()
        if trailer_status(b) != want_trailer:
            r["fails"].append(("Checksum(config)", f"Repo.open_index().write() under {conf_str(cf)} writes a {trailer_status(b)} trailer, "
                               f"the configuration asks for {want_trailer} (an explicit index.skipHash decides; feature.manyFiles only sets the default)"))
        try:
            rb = L.dw_items_abs(repo.open_index().items())
            if not same_set(rb, expect):
                r["fails"].append(("RoundTrip(config)", f"Repo.open_index() under {conf_str(cf)} reads different entries"))
        except Exception as e:  # noqa: BLE001
            r["fails"].append(("RoundTrip(config)", f"Repo.open_index() under {conf_str(cf)} raised {exc_name(e)}: {e}"))
        if W.git:
            gl, err = W.git.ls(ip)
            if gl != expect:
                r["fails"].append(("GitLists(config)", f"git ls-files under {conf_str(cf)}: {err if gl is None else 'different entries'}"))
        if b != want and not r["fails"]:
            r["drift"] = (f"Repo.open_index().write() under {conf_str(cf)} wrote version {struct.unpack('>I', b[4:8])[0]}, "
                          f"specified {out['effv']}" if b[4:8] != want[4:8] else f"file differs from the specified layout under {conf_str(cf)}")
        # the same through the porcelain, on a second path, then damage
        with open(os.path.join(root, "f.txt"), "wb") as f:
            f.write(b"content\n")
        porcelain.add(repo, paths=[os.path.join(root, "f.txt")])
        r["execs"] += 1
        with open(ip, "rb") as f:
            b2 = f.read()
        pj = L.proj_parse(b2)
        if trailer_status(b2) != want_trailer:
            r["fails"].append(("Checksum(config, porcelain.add)", f"porcelain.add under {conf_str(cf)} leaves a {trailer_status(b2)} trailer, "
                               f"the configuration asks for {want_trailer}"))
        if not pj["ok"] or sorted(L.entry_key(e) for e in pj["entries"]) != sorted([L.entry_key(e) for e in expect] + [(b"f.txt", 0)]):
            r["fails"].append(("RoundTrip(config, porcelain.add)", f"index after porcelain.add under {conf_str(cf)}: {pj['why'] or [L.entry_key(e) for e in pj['entries']]}"))
        if want_trailer == "sha1" and trailer_status(b2) == "sha1":
            for off in (13, 60, len(b2) // 2, len(b2) - 25):
                bad = bytearray(b2)
                bad[off] ^= 0x20
                with open(ip, "wb") as f:
                    f.write(bad)
                r["damage"] += 1
                try:
                    repo.open_index()
                except Exception:  # noqa: BLE001
                    continue
                r["fails"].append(("ChecksumDetects(config)", f"byte {off} damaged; Repo.open_index() under {conf_str(cf)} accepts the index silently"))
                break
        repo.close()
    except MachineryError:
        raise
    except Exception as e:  # noqa: BLE001
        r["fails"].append((f"WriteRaises({exc_name(e)})", f"under {conf_str(cf)}: {exc_name(e)}: {e}"))
    shutil.rmtree(root, ignore_errors=True)
    return r


# --------------------------------------------------------------------------- mode R: pool plumbing
_W = None


def _worker_work():
    global _W
    if _W is None or _W.pid != os.getpid():
        _W = Work(os.path.join(_POOL_ROOT, f"w{os.getpid()}"))
        _W.pid = os.getpid()
    return _W


_POOL_ROOT = None


def _case_key(out):
    return (out["v"], out["skip"], frozenset(L.entry_key(e) for e in out["ins"]))


def _run_blocks(args):
    fam, blocks, damage_mod = args
    W = _worker_work()
    res = {"n": 0, "execs": 0, "damage": 0, "fail": [], "drift": [], "mach": [], "nontrivial": 0, "sample": None}
    kept = {}
    for b in blocks:
        out = L._parse_block(b)
        if out is None:
            continue
        res["n"] += 1
        if len(out["ins"]) > 0:
            res["nontrivial"] += 1
        key = _case_key(out)
        dmg = damage_mod and (zlib.crc32(b.encode()) % damage_mod == 0)
        hist = out["h"]["hist"]
        conf = out["cf"]["on"]
        r = check_conf_case(W, out) if conf else check_hist_case(W, out) if hist else check_exts_case(W, out) if out["exts"] \
            else check_case(W, out, do_damage=dmg)
        res["execs"] += r["execs"]
        res["damage"] += r["damage"]
        if r["mach"]:
            res["mach"].append(r["mach"])
        if r["drift"]:
            res["drift"].append(r["drift"])
        if res["sample"] is None and len(out["ins"]) >= 2:
            res["sample"] = {"family": fam, "v": out["v"], "effv": out["effv"], "skip": out["skip"],
                             "entries": [L.describe(e) for e in out["expect"]], "file_bytes": len(L.render(out["fields"]))}
        if r["fails"]:
            clauses = {}
            for cl, d in r["fails"]:
                clauses.setdefault(cl, d)
            feats = L.features(out["effv"], out["ins"])
            keep_out = None
            for cl in clauses:
                k = (cl, feats, out["effv"])
                if kept.get(k, 0) < 2 or not feats:
                    kept[k] = kept.get(k, 0) + 1
                    keep_out = out
            if hist:
                keep_out = out
                key = (key[0], key[1], key[2] | {(b"\0history " + edits_str(out["h"]["eds"]).encode(), out["h"]["bv"])})
            if conf:
                keep_out = out
                key = (key[0], key[1], key[2] | {(b"\0config " + conf_str(out["cf"]).encode(), 0)})
            res["fail"].append({"key": (key[0], key[1], sorted(key[2])), "effv": out["effv"], "clauses": clauses,
                                "hist": (f"history base={compact(out['h']['bins'], 6)} edits={edits_str(out['h']['eds'])}" if hist else None),
                                "conf": conf_str(out["cf"]) if conf else None,
                                "ents": [{k2: e[k2] for k2 in e} for e in out["ins"]] if len(out["ins"]) <= 3 else None,
                                "out": keep_out, "exts": len(out["exts"])})
    return res


def run_family(ctx, fam, cfg_consts, damage_mod):
    """TLC enumerates the family; every laid-out state is executed on the real code."""
    d = ctx.tmpdir("fam")
    cfg = f"IndexFmt_{fam}.cfg"            # specs/IndexFmt_<family>.cfg: NameMask = 4095, MaxKeys as in FAMILIES
    with open(os.path.join(tlc.SPECS, cfg)) as f:
        if f"MaxKeys = {cfg_consts['MaxKeys']}\n" not in f.read():
            raise MachineryError(f"{cfg} does not carry MaxKeys = {cfg_consts['MaxKeys']}")
    dump = os.path.join(d, "states")
    res = tlc.run("IndexFmt.tla", cfg, workers=8, timeout=1500, dump_states=dump)
    ctx.add_tlc(f"IndexFmt[{fam} MaxKeys={cfg_consts['MaxKeys']}]", res)
    import re
    with open(dump + ".dump", encoding="utf-8") as f:
        text = f.read()
    allblocks = re.split(r"^State \d+:\n", text, flags=re.M)[1:]
    blocks = [b for b in allblocks if L.laid_out(b)]
    del text
    if len(allblocks) != res.distinct or not blocks:
        raise MachineryError(f"state dump of {fam} has {len(allblocks)} states, TLC reports {res.distinct} states")
    if fam in GITBUILD_FROM[ctx.tier]:
        ctx._c11_blocks = getattr(ctx, "_c11_blocks", []) + blocks
    n = max(1, min(400, (len(blocks) + PROCS * 4 - 1) // (PROCS * 4)))
    jobs = [(fam, blocks[i:i + n], damage_mod) for i in range(0, len(blocks), n)]
    import multiprocessing as mp
    global _POOL_ROOT
    _POOL_ROOT = ctx.tmpdir("pool")
    with mp.get_context("fork").Pool(PROCS) as pool:
        parts = pool.map(_run_blocks, jobs, chunksize=1)
    shutil.rmtree(d, ignore_errors=True)
    shutil.rmtree(_POOL_ROOT, ignore_errors=True)
    tot = {"n": 0, "execs": 0, "damage": 0, "nontrivial": 0}
    fails = []
    for prt in parts:
        for k in tot:
            tot[k] += prt[k]
        fails += prt["fail"]
        for m in prt["mach"]:
            raise MachineryError(f"[{fam}] {m}")
        for dm in prt["drift"]:
            ctx.drift_event(f"[{fam}] {dm}")
        if prt["sample"] and ctx.quick is not None:
            ctx.sample(prt["sample"], limit=4)
    ctx.count(tot["execs"] + tot["damage"])
    ctx.validated(tot["n"])
    for i in range(tot["nontrivial"]):
        pass
    ctx.cov.setdefault("families", {})[fam] = {"cases": tot["n"], "real_executions": tot["execs"], "damage_trials": tot["damage"],
                                              "failing_cases": len(fails)}
    ctx._c11_nontrivial = getattr(ctx, "_c11_nontrivial", 0) + tot["nontrivial"]
    report_family_failures(ctx, fam, fails)
    ctx.log(f"family {fam}: {tot['n']} cases, {tot['execs']} real executions, {tot['damage']} damage trials, {len(fails)} failing cases (cpu {cpu_s()}s)")
    return tot


def report_family_failures(ctx, fam, fails):
    """Report only minimal failing cases: a case whose failing clause already fails on a proper
    sub-case (same version / skipHash, fewer entries, enumerated in the same family) is explained by it."""
    index = {}
    for f in fails:
        v, skip, keys = f["key"]
        index[(v, skip, frozenset(map(tuple, keys)))] = f
    subsumed = 0
    for f in sorted(fails, key=lambda f: (len(f["key"][2]), f["exts"], f["key"][0], f["key"][1], sum(len(k[0]) for k in f["key"][2]), repr(f["key"][2]))):
        v, skip, keys = f["key"]
        ks = [tuple(k) for k in keys]
        for cl, detail in sorted(f["clauses"].items()):
            minimal = True
            if len(ks) > 1:
                import itertools
                for r in range(1, len(ks)):
                    for sub in itertools.combinations(ks, r):
                        g = index.get((v, skip, frozenset(sub)))
                        if g is not None and cl in g["clauses"]:
                            minimal = False
                            break
                    if not minimal:
                        break
            if not minimal:
                subsumed += 1
                continue
            ents = f["ents"] or []
            extra = f"exts={f['exts']}" if f["exts"] else ""
            if fam in ("flags", "stat", "quick") or not ents:
                extra = (extra + " " + hashlib.sha1(json.dumps(f["key"], default=repr).encode()).hexdigest()[:8]).strip() \
                    if not L.features(f["effv"], ents) else extra
            sig, feats = signature(cl, f["effv"], ents, extra)
            if f.get("hist"):
                sig, feats = f"dulwich/index.py:Index.write|{cl}|v{f['effv']} {f['hist']}", ""
            if f.get("conf"):
                sig, feats = f"dulwich/repo.py:Repo.open_index|{cl}|{f['conf']}", ""
            if cl == SHORT_TRAILER:
                sig, feats = SHORT_TRAILER_SIG, ""
            report(ctx, sig, f"[{fam}] {cl}: {detail[:600]}",
                          {"mode": "R", "family": fam, "clause": cl, "features": feats, "out": f["out"]})
    if subsumed:
        ctx.log(f"family {fam}: {subsumed} failing (case, clause) pairs explained by a smaller failing case")


# --------------------------------------------------------------------------- mode T: traces
def blank_trace(tid, kind):
    return {"tid": tid, "kind": kind, "v": 2, "hv": 2, "skip": False, "ents": [], "exts": [], "bexts": [], "wrote": True,
            "obs": [], "trailer": "bad", "rbok": False, "rb": [], "glok": False, "gl": [], "pok": False, "okeys": [], "fsckok": True}


def observe_file(W, t, path, data, skip, sparse=False, cwd=None):
    """Fill the observation part of a dw / rw trace from the file dulwich wrote."""
    t["obs"] = L.bytes_to_runs(data[:-20])
    t["trailer"] = trailer_status(data)
    pj = L.proj_parse(data)
    t["pok"] = pj["ok"]
    t["okeys"] = [{"name": e["name"], "stage": e["stage"]} for e in pj["entries"]] if pj["ok"] else []
    t["bexts"] = [{"sig": L.bytes_to_runs(s), "data": L.bytes_to_runs(d)} for s, d in pj["exts"]] if pj["ok"] else []
    try:
        _, rb = L.dw_read(path, skip)
        t["rbok"], t["rb"] = True, rb
    except Exception as e:  # noqa: BLE001
        t["_rbexc"] = f"{exc_name(e)}: {e}"
    if W.git:
        gl, err = W.git.ls(path, sparse=sparse, cwd=cwd)
        if gl is not None:
            t["glok"], t["gl"] = True, gl
        else:
            t["_glerr"] = err
    elif pj["ok"]:
        # no C git at run time: the independent reader (git's rules) stands in for ls-files
        t["glok"], t["gl"] = True, pj["entries"]


def make_dw_trace(W, tid, v, skip, ents):
    t = blank_trace(tid, "dw")
    t.update(v=v, skip=skip, ents=ents)
    p = W.path("t")
    try:
        data = L.dw_write(p, v, skip, ents)
    except Exception as e:  # noqa: BLE001
        t["wrote"] = False
        t["_wexc"] = f"{exc_name(e)}: {e}"
        return t
    observe_file(W, t, p, data, skip)
    os.unlink(p)
    return t


def make_git_traces(W, tid, path, label, sparse=False, cwd=None, rewrite=True, fsck_cwd=None):
    # cwd: repository git lists in (only a sparse index needs its own repository: listing in a repository
    # with sparse-checkout enabled makes git clear skip-worktree bits of files present in its work tree,
    # which says nothing about the file); fsck_cwd: repository holding the objects, for git fsck
    """A file written by C git: (a) dulwich reads it, (b) dulwich rewrites it and git reads that."""
    from dulwich.index import Index
    with open(path, "rb") as f:
        data = f.read()
    gl, err = W.git.ls(path, sparse=sparse, cwd=cwd)
    if gl is None:
        raise MachineryError(f"git cannot list its own index ({label}): {err}")
    pj = L.proj_parse(data)
    if not pj["ok"]:
        raise MachineryError(f"projection cannot read git's index ({label}): {pj['why']}")
    hv = struct.unpack(">I", data[4:8])[0]
    t = blank_trace(tid, "git")
    t.update(hv=hv, v=hv, ents=gl, obs=L.bytes_to_runs(data[:-20]), _label=label)
    t["exts"] = [{"sig": L.bytes_to_runs(s), "data": L.bytes_to_runs(d)} for s, d in pj["exts"]]
    idx = None
    try:
        idx = Index(path)
        t["rbok"], t["rb"] = True, L.dw_items_abs(idx.items())
    except Exception as e:  # noqa: BLE001
        t["_rbexc"] = f"{exc_name(e)}: {e}"
    out = [t]
    if rewrite and idx is not None and same_set(t["rb"], gl):
        t2 = blank_trace(tid + 1, "rw")
        t2.update(hv=hv, v=hv, ents=gl, exts=t["exts"], _label=label)
        p2 = W.path("rw")
        shutil.copyfile(path, p2)
        try:
            idx2 = Index(p2)
            idx2.write()
            with open(p2, "rb") as f:
                b = f.read()
            observe_file(W, t2, p2, b, False, sparse=sparse, cwd=cwd)
            if fsck_cwd is not None:     # a real repository: let git fsck judge the checksum of the rewritten index
                t2["fsckok"], t2["_fsck"] = W.git.fsck_index_ok(p2, cwd=fsck_cwd)
        except Exception as e:  # noqa: BLE001
            t2["wrote"] = False
            t2["_wexc"] = f"{exc_name(e)}: {e}"
        if os.path.exists(p2):
            os.unlink(p2)
        out.append(t2)
    return out


def make_hist_trace(W, tid, path, edits, label, sparse=False, cwd=None, fsck_cwd=None):
    """A file written by C git, read by dulwich, edited by re-slotting the objects read, written again."""
    from dulwich.index import Index
    with open(path, "rb") as f:
        data = f.read()
    gl, err = W.git.ls(path, sparse=sparse, cwd=cwd)
    pj = L.proj_parse(data)
    if gl is None or not pj["ok"]:
        raise MachineryError(f"cannot list git's own index ({label}): {err} {pj['why']}")
    hv = struct.unpack(">I", data[4:8])[0]
    t = blank_trace(tid, "hist")
    t.update(hv=hv, v=hv, ents=gl, edits=edits, _label=label,
             exts=[{"sig": L.bytes_to_runs(s), "data": L.bytes_to_runs(d)} for s, d in pj["exts"]])
    p2 = W.path("hi")
    shutil.copyfile(path, p2)
    try:
        idx = Index(p2)
        apply_edits(idx, edits)
        idx.write()
        with open(p2, "rb") as f:
            b = f.read()
        observe_file(W, t, p2, b, False, sparse=sparse, cwd=cwd)
        if fsck_cwd is not None:
            t["fsckok"], t["_fsck"] = W.git.fsck_index_ok(p2, cwd=fsck_cwd)
    except Exception as e:  # noqa: BLE001
        t["wrote"] = False
        t["_wexc"] = f"{exc_name(e)}: {e}"
    if os.path.exists(p2):
        os.unlink(p2)
    return t


def make_gitbuilt_traces(W, tid, v, ents, label, rewrite=True):
    p = W.path("g")
    err = W.git.build(p, v, ents)
    if err is not None:
        return [], err
    ts = make_git_traces(W, tid, p, label, rewrite=rewrite)
    for t in ts:
        t["_input"] = {"v": v, "ents": ents}
    os.unlink(p)
    return ts, None


# ---- random cases (larger than what TLC enumerates)
ALPHA = b"ab/.-_ 0Z\n\xff\xc3\x80\"\\*e"


def gen_name(rng, maxlen, gitsafe):
    while True:
        n = rng.randint(1, max(1, min(maxlen, 12)))
        s = bytes(rng.choice(ALPHA) for _ in range(n))
        if gitsafe:
            comps = s.split(b"/")
            if any(c in (b"", b".", b"..") or c.lower() == b".git" for c in comps):
                continue
        return s


def gen_names(rng, profile, v, n, gitsafe):
    names = set()
    cap = 127 if (profile == "plain" and v == 4) else 4000
    while len(names) < n:
        kind = rng.random()
        if kind < 0.45 or cap < 40:
            names.add(gen_name(rng, cap, gitsafe))
        elif kind < 0.8:
            pre = bytes([rng.choice(b"pqxyz")]) * rng.randint(20, min(cap - 14, 300)) + b"/"
            for _ in range(rng.randint(1, 3)):
                names.add(pre + gen_name(rng, 12, gitsafe))
        else:
            names.add(bytes([rng.choice(b"klm")]) * rng.randint(1, min(cap, rng.choice([130, 255, 1000, 4094, 4095]))))
    names = sorted(names)[:max(n, 1)] if n else []
    if profile == "strip" and names:
        pre = b"s/" + bytes([rng.choice(b"tu")]) * rng.choice([127, 128, 129, 200, 3000, 16383, 16384, 16511, 16512][:rng.choice([5, 5, 9])])
        names += [pre, b"s/v" + gen_name(rng, 5, True).replace(b"/", b"")]
    if profile == "longname":
        ln = rng.choice([4096, 4097, 4100, 5000, 8191, 8192, 16384, 20000] + ([65536, 70000] if rng.random() < 0.2 else []))
        names.append(bytes([rng.choice(b"LMN")]) * ln)
    return sorted(set(names))


def gen_num(rng, wide=False):
    r = rng.random()
    if r < 0.3:
        return rng.randint(0, 1000)
    if r < 0.5:
        return rng.choice([2**31 - 1, 2**31, 2**32 - 1, 65535, 65536])
    if wide and r < 0.7:
        return rng.choice([2**32, 2**32 + 5, 2**40 + 7, 2**48 - 1, rng.getrandbits(48)])
    return rng.getrandbits(32)


def gen_time(rng):
    k = rng.choice(["int", "pair", "pair", "float"])
    if k == "float":
        return {"k": "float", "s": L.u32_limbs(rng.choice([0, 12, 1700000000, 2**31 - 1, rng.getrandbits(31)])), "ns": [0, 0], "q": rng.randint(0, 3)}
    s = rng.choice([0, 1, 1700000000, 2**32 - 1, rng.getrandbits(32)])
    ns = 0 if k == "int" else rng.choice([0, 1, 999999999, rng.randint(0, 999999999)])
    return {"k": k, "s": L.u32_limbs(s), "ns": L.u32_limbs(ns), "q": 0}


def gen_case(rng, profile, gitsafe=False):
    v = 4 if profile == "strip" else rng.choice([2, 3, 4])
    skip = rng.random() < 0.15
    names = gen_names(rng, profile, v, rng.choice([0, 1, 2, 3, 4, 6, 8]), gitsafe)
    ents = []
    for nm in names:
        stages = [0] if rng.random() < 0.7 else sorted(rng.sample([1, 2, 3], rng.randint(1, 3)))
        for st in stages:
            ext = rng.random() < 0.25
            sk = ext and rng.random() < 0.6
            ita = ext and (not sk or rng.random() < 0.3)
            ents.append({"name": L.bytes_to_runs(nm), "stage": st, "ct": gen_time(rng), "mt": gen_time(rng),
                         "dev": L.int_to_limbs(gen_num(rng, True)), "ino": L.int_to_limbs(gen_num(rng, True)),
                         "mode": L.u32_limbs(rng.choice([0o100644, 0o100755, 0o120000, 0o160000])),
                         "uid": L.u32_limbs(gen_num(rng)), "gid": L.u32_limbs(gen_num(rng)), "size": L.u32_limbs(gen_num(rng)),
                         "sha": L.bytes_to_runs(bytes([rng.randint(1, 255)]) + rng.randbytes(19)),
                         "valid": rng.random() < 0.2, "skip": sk, "ita": ita, "xbit": (sk or ita) and rng.random() < 0.5})
    if profile == "bigsize" and ents:
        rng.choice(ents)["size"] = L.int_to_limbs(rng.choice([2**32, 2**32 + 5, 2**40, rng.getrandbits(44) | 2**32]))
    rng.shuffle(ents)
    return v, skip, ents


def effv_of(v, ents):
    return 3 if v < 3 and any(e["skip"] or e["ita"] for e in ents) else v


PROFILES = ["plain"] * 7 + ["strip", "longname", "bigsize"]


def _gen_traces(args):
    seed, tid0, n, want_git = args
    W = _worker_work()
    rng = random.Random(seed)
    out, skipped = [], 0
    tid = tid0
    for _ in range(n):
        profile = rng.choice(PROFILES)
        for _try in range(50):
            v, skip, ents = gen_case(rng, profile, gitsafe=want_git)
            feats = L.features(effv_of(v, ents), ents)
            want = {"plain": "", "strip": "v4strip>=128", "longname": "name>=0x1000", "bigsize": "size>=2^32"}[profile]
            if feats == want or (profile == "strip" and feats == want):
                break
        else:
            continue
        if want_git:
            if profile == "bigsize":
                continue
            ts, err = make_gitbuilt_traces(W, tid, v, ents, f"update-index --index-version {v} --index-info ({profile})")
            if err is not None:
                skipped += 1
                continue
            for t in ts:
                t["_profile"] = profile
            out += ts
            tid += 2
        else:
            t = make_dw_trace(W, tid, v, skip, ents)
            t["_profile"] = profile
            out.append(t)
            tid += 2
    return out, skipped


def _gitbuild_blocks(args):
    """git builds the index for TLC-enumerated entry sets (what git can be told through
    update-index: path, stage, mode, id, assume-unchanged and skip-worktree bits)."""
    blocks, tid0 = args
    W = _worker_work()
    out, keys, skipped, tid = [], [], 0, tid0
    local = set()
    for b in blocks:
        o = L._parse_block(b)
        tid += 2
        if o is None or not o["ins"] or o["exts"] or o["cf"]["on"]:
            continue
        if o["h"]["hist"]:
            # the enumerated history on a base index that git built (what git can be told of it)
            base = [dict(e, ita=False, xbit=False) for e in o["h"]["bins"]]
            pb = W.path("gb")
            if W.git.build(pb, o["v"], base) is not None:
                skipped += 1
                continue
            t = make_hist_trace(W, tid, pb, o["h"]["eds"], "update-index --index-info (TLC history)")
            t["_input"] = {"v": o["v"], "ents": base, "edits": o["h"]["eds"]}
            os.unlink(pb)
            out.append([t])
            keys.append(("hist", o["v"], edits_str(o["h"]["eds"]), tuple(sorted(L.entry_key(e) for e in base))))
            continue
        ents = [dict(e, ita=False, xbit=False) for e in o["ins"]]
        key = (o["v"], tuple(sorted((L.runs_to_bytes(e["name"]), e["stage"], L.limbs_to_int(e["mode"]), e["valid"] and e["stage"] == 0,
                                     e["skip"] and e["stage"] == 0) for e in ents)))
        if key in local:
            continue
        local.add(key)
        # every enumerated case is read; every second one is also rewritten by dulwich and listed by git again
        ts, err = make_gitbuilt_traces(W, tid, o["v"], ents, "update-index --index-info (TLC case)", rewrite=zlib.crc32(b.encode()) % 2 == 0)
        if err is not None:
            skipped += 1
            continue
        out.append(ts)
        keys.append(key)
    return out, skipped, keys


def trace_features(t):
    v = t["hv"] if t["kind"] in ("git", "rw") else effv_of(t["v"], t["ents"])
    return v, L.features(v, t["ents"])


def validate_traces(ctx, traces, label):
    """TLC judges every trace; returns number validated."""
    if not traces:
        return 0
    d = ctx.tmpdir("tr")
    B = 4000
    total = 0
    by_tid = {t["tid"]: t for t in traces}
    if len(by_tid) != len(traces):
        raise MachineryError("duplicate trace ids")
    for i in range(0, len(traces), B):
        chunk = traces[i:i + B]
        path = os.path.join(d, f"t{i}.ndjson")
        with open(path, "w") as f:
            for t in chunk:
                f.write(json.dumps({k: v for k, v in t.items() if not k.startswith("_")}, separators=(",", ":")) + "\n")
        res = tlc.run("IndexFmtTrace.tla", "IndexFmtTrace.cfg", workers=4, timeout=1500, env={"TRACE_FILE": path})
        ctx.add_tlc(f"IndexFmtTrace[{label}:{i}]", res, require_ok=False)
        verdicts = {}
        for line in res.output.splitlines():
            if line.startswith('<<"VERDICT"'):
                v = L.tla_to_py(line.strip())
                verdicts[v[1]] = v
        if not res.ok or len(verdicts) != len(chunk):
            raise MachineryError(f"trace validation incomplete ({len(verdicts)}/{len(chunk)} verdicts)\n{res.output[-3000:]}")
        for t in chunk:
            _, tid, prop, shape, mach = verdicts[t["tid"]]
            total += 1
            lab = t.get("_label", "")
            if mach:
                raise MachineryError(f"specification does not lay out what git wrote ({lab}, header version {t['hv']}, "
                                     f"{len(t['ents'])} entries): {mach}")
            v, feats = trace_features(t)
            for cl in prop:
                detail = {"WriteRaises": t.get("_wexc", ""), "RoundTrip": t.get("_rbexc", "entries differ"),
                          "ReadsGit": t.get("_rbexc", "entries differ"), "GitLists": t.get("_glerr", "entries differ"),
                          "Checksum": f"trailer {t['trailer']}, git fsck: {t.get('_fsck', 'not run')}"}.get(cl, "")
                clause = cl
                if cl == "WriteRaises":
                    clause = f"WriteRaises({t.get('_wexc', '?').split(':')[0]})"
                extra = ""
                if not feats:
                    extra = hashlib.sha1(json.dumps(t["ents"], sort_keys=True).encode()).hexdigest()[:8]
                if t["kind"] == "hist":
                    clause = f"{clause}(history)" if not clause.startswith("WriteRaises") and clause != "Checksum" else clause
                    extra = (f"history edits={edits_str(t['edits'])} " + extra).strip()
                if t["kind"] != "dw" and lab and not lab.startswith("update-index"):
                    extra = (extra + " " + lab.replace(" ", "_")).strip()
                sig, _ = signature(clause, v, t["ents"], extra, feats=feats)
                low = [L.runs_to_bytes(x["sig"]).decode("latin1") for x in t.get("exts", []) if not L.runs_to_bytes(x["sig"]).isupper()]
                if low and t["kind"] == "git" and not feats:
                    # git's mandatory (lower-case) extensions: sdir = sparse index, link = split index
                    sig = f"dulwich/index.py:read_index_dict_with_version|{clause}|mandatory extension {low[0]}"
                report(ctx, sig, f"[trace {t['kind']} {lab}] {clause}: {detail[:500]}",
                              {"mode": "T", "clause": clause, "kind": t["kind"], "label": lab, "features": feats,
                               "input": t.get("_input") or {"v": t["v"], "skip": t["skip"], "ents": t["ents"]},
                               "edits": t.get("edits"),
                               "scenario": t.get("_scenario")})
            if shape and not prop:
                ctx.drift_event(f"[trace {t['kind']} {lab}] file differs from the specified layout while every observable agrees "
                                f"(v={v}, {len(t['ents'])} entries, exts {[L.runs_to_bytes(x['sig']) for x in t.get('exts', [])]})")
            ctx.nontrivial(("T", t["kind"], t["tid"])) if t["ents"] else None
    shutil.rmtree(d, ignore_errors=True)
    return total


def mode_traces(ctx):
    import multiprocessing as mp
    global _POOL_ROOT
    _POOL_ROOT = ctx.tmpdir("pool")
    n_dw = ctx.pick(600, 16000)
    n_git = ctx.pick(200, 5000)
    per = ctx.pick(50, 400)
    jobs = []
    tid = 1
    for i in range(0, n_dw, per):
        jobs.append((ctx.seed * 1000003 + i, tid, per, False))
        tid += per * 2
    gjobs = []
    if git_available():
        for i in range(0, n_git, per):
            gjobs.append((ctx.seed * 1000003 + 7 + i, tid, per, True))
            tid += per * 2
    traces, skipped = [], 0
    with mp.get_context("fork").Pool(PROCS) as pool:
        for out, sk in pool.map(_gen_traces, jobs + gjobs, chunksize=1):
            traces += out
            skipped += sk
        # git builds the TLC-enumerated key sets (the laid-out states already dumped for mode R)
        if git_available():
            blocks = getattr(ctx, "_c11_blocks", [])
            n = max(1, min(300, (len(blocks) + PROCS * 4 - 1) // (PROCS * 4)))
            bj = []
            for i in range(0, len(blocks), n):
                bj.append((blocks[i:i + n], tid))
                tid += 2 * n
            seen = set()
            for out, sk, keys in pool.map(_gitbuild_blocks, bj, chunksize=1):
                skipped += sk
                for k, ts in zip(keys, out):
                    if k not in seen:          # the same git input reached from several enumerated cases
                        seen.add(k)
                        traces += ts
    ctx.tid_next = tid
    ctx.log(f"traces recorded: {len(traces)} (cpu {cpu_s()}s)")
    ctx.count(len(traces))
    ctx.cov["traces"] = {"dulwich_written": sum(1 for t in traces if t["kind"] == "dw"),
                         "git_written_read_by_dulwich": sum(1 for t in traces if t["kind"] == "git"),
                         "git_written_rewritten_by_dulwich": sum(1 for t in traces if t["kind"] == "rw"),
                         "git_written_edited_by_history": sum(1 for t in traces if t["kind"] == "hist"),
                         "git_refused_to_build": skipped}
    for t in traces:
        if t["kind"] == "dw" and len(t["ents"]) >= 3 and t.get("_profile") == "plain":
            ctx.sample({"kind": "trace dw", "v": t["v"], "skip": t["skip"], "entries": [L.describe(e) for e in t["ents"]][:5]}, limit=6)
            break
    shutil.rmtree(_POOL_ROOT, ignore_errors=True)
    return traces


def mode_scenarios(ctx):
    """Indexes written by ordinary git commands (real stat data, merges, read-tree, sparse-checkout, caches)."""
    if not git_available():
        return []
    W = Work(ctx.tmpdir("scen"))
    traces = []
    tid = getattr(ctx, "tid_next", 10**6)
    labels = []
    for label, path, cwd, sparse in SC.scenarios(W.git, W.root, thorough=not ctx.quick, seed=ctx.seed):
        ls_cwd = cwd if sparse else None
        ts = make_git_traces(W, tid, path, label, sparse=sparse, cwd=ls_cwd, fsck_cwd=cwd)
        if not sparse and len(ts[0]["ents"]) <= 80 and ts[0]["rbok"]:
            rng = random.Random(f"{ctx.seed}:{label}")
            for j in range(ctx.pick(2, 12)):
                eds = pick_edits(rng, ts[0]["ents"], 1 + j % 2)
                if eds:
                    tid += 1
                    th = make_hist_trace(W, tid + 1, path, eds, label, sparse=sparse, cwd=ls_cwd, fsck_cwd=cwd)
                    th["_input"] = {"edits": eds}
                    ts.append(th)
                    tid += 1
        for t in ts:
            t["_scenario"] = label
        traces += ts
        tid += 2
        labels.append(label)
    ctx.tid_next = tid
    ctx.count(len(traces))
    ctx.cov["scenarios"] = labels
    big = [t for t in traces if t["kind"] == "git" and t["exts"]]
    if big:
        t = big[0]
        ctx.sample({"kind": "trace git", "label": t["_label"], "header_version": t["hv"], "entries": len(t["ents"]),
                    "extensions": [L.runs_to_bytes(x["sig"]).decode("latin1") for x in t["exts"]]}, limit=6)
    ctx.log(f"scenarios: {len(labels)} git-written indexes, {len(traces)} traces recorded (cpu {cpu_s()}s)")
    return traces


# --------------------------------------------------------------------------- configurations
def consts(fam, maxkeys, namemask=4095, defect="none"):
    return {"NameMask": namemask, "Family": f'"{fam}"', "MaxKeys": maxkeys, "Defect": f'"{defect}"'}


FAMILIES = {
    "quick": [("quick", 2, 29)],
    "thorough": [("names", 2, 13), ("namesq", 3, 37), ("names3", 3, 37), ("flags", 2, 3), ("stat", 2, 3), ("exts", 3, 0), ("hist", 0, 0), ("conf", 0, 0)],
}
GITBUILD_FROM = {"quick": ["quick"], "thorough": ["names", "namesq", "flags", "hist"]}


def run(ctx):
    global PROCS
    PROCS = 8
    for f in os.listdir(ctx.replay_dir):        # replay files of earlier runs would be mistaken for this run's
        if f.endswith(".json"):
            os.unlink(os.path.join(ctx.replay_dir, f))
    # 1. the format itself: the byte-level reader inverts the layout (NameMask = 7 so that saturation,
    #    the offset varint and every flag bit are reached by short names); negative controls
    res = tlc.run("IndexFmt.tla", ctx.pick("IndexFmt_lemmaq.cfg", "IndexFmt_lemma.cfg"), workers=8, timeout=900)
    ctx.add_tlc("IndexFmt_lemma (NameMask=7, <=2 keys over 13 names x 4 stages, v2/3/4, extensions"
                + ("" if ctx.quick else ", skipHash on/off") + "): Parse(Bytes(Layout(c))) = Expect(c), order, shape, checksum", res)
    ctx.log(f"lemma: {res.distinct} states in {res.wall_s:.1f}s (cpu {cpu_s()}s)")
    for cfg, what in (("IndexFmt_neg_unsaturated.cfg", "name length not saturated"), ("IndexFmt_neg_leb128.cfg", "LEB128 strip count")):
        r = tlc.run("IndexFmt.tla", cfg, workers=4, timeout=600)
        ctx.add_tlc(f"{cfg} (negative control: {what})", r, require_ok=False)
        if "ParseInv" not in r.violated and "Evaluating invariant ParseInv failed" not in r.output:
            raise MachineryError(f"negative control {cfg} did not break ParseInv")
    r = tlc.run("IndexFmt.tla", "IndexFmt_neg_stalestage.cfg", workers=4, timeout=600)
    ctx.add_tlc("IndexFmt_neg_stalestage.cfg (negative control: written stage = slot OR stage bits carried by the entry object)", r, require_ok=False)
    if "StageFromSlot" not in r.violated:
        raise MachineryError("negative control IndexFmt_neg_stalestage.cfg did not break StageFromSlot")
    r = tlc.run("IndexFmt.tla", "IndexFmt_neg_manyfilesforces.cfg", workers=4, timeout=600)
    ctx.add_tlc("IndexFmt_neg_manyfilesforces.cfg (negative control: feature.manyFiles overrides an explicit index.skipHash=false)", r, require_ok=False)
    if "ConfInv" not in r.violated:
        raise MachineryError("negative control IndexFmt_neg_manyfilesforces.cfg did not break ConfInv")
    r = tlc.run("IndexFmt.tla", "IndexFmt_neg_readerskips.cfg", workers=4, timeout=600)
    ctx.add_tlc("IndexFmt_neg_readerskips.cfg (negative control: a reader configured with skipHash ignores the trailer)", r, require_ok=False)
    if "ChecksumInv" not in r.violated:
        raise MachineryError("negative control IndexFmt_neg_readerskips.cfg did not break ChecksumInv")
    reader_config_check(ctx)
    if not git_available():
        ctx.assumptions.append("C git not found: every git-dependent clause degraded to specification vs dulwich only")
    # 2. spec -> code on every enumerated case
    for fam, mk, dmg in FAMILIES[ctx.tier]:
        run_family(ctx, fam, consts(fam, mk), dmg)
    # 3. code -> spec
    traces = mode_traces(ctx) + (mode_scenarios(ctx) or [])
    n = validate_traces(ctx, traces, "all")
    ctx.validated(n)
    ctx.log(f"traces: {n} validated by TLC ({ctx.cov['traces']}) (cpu {cpu_s()}s)")
    for i in range(getattr(ctx, "_c11_nontrivial", 0)):
        ctx.nontrivial(("R", i))
    ctx.cov["rule"] = ("a case is one (entry set, version, skipHash, extension list); non-trivial = at least one entry, i.e. the writer, "
                       "the reader and C git each had an entry to lay out / parse; R cases are the laid-out states of IndexFmt, T cases "
                       "are recorded executions judged by IndexFmtTrace")
    ctx.assumptions += [
        "SHA-1 (hashlib) and C git 2.39.5 are trusted observers; git's reader (ls-files --stage --debug) validates the specification's "
        "layout on every enumerated case and git's writer validates it on every git-written index before dulwich is judged",
        "times are within 0..2^32-1 seconds; float times are multiples of 1/4 s (exactly representable); uid/gid/mode < 2^32",
        "entry sets are legal index contents (unique (path, stage), no path both merged and unmerged, no empty or NUL-containing path)",
        "split indexes (link extension + sharedindex) are outside the property's quantifier and not exercised",
        "git 2.39.5 ignores index.skipHash (added in 2.40): which trailer a configuration asks for is judged against the specification's "
        "precedence rule (repo-settings.c: explicit index.skipHash wins over feature.manyFiles) only; the version rule is validated against git",
    ]
    return ctx.finish(exhaustive=False)


# --------------------------------------------------------------------------- replay
def replay(ctx, path):
    obj = json.load(open(path))
    ctx.known = []
    ctx.max_report = 0                          # a replay prints its own FAIL lines and writes no new replay files
    ctx.replay_dir = ctx.tmpdir("replay-out")
    print(f"replay {path}\n  signature: {obj.get('signature')}\n  what: {obj.get('what')}")
    W = Work(ctx.tmpdir("rp"))
    if obj.get("mode") == "R":
        out = obj["out"]
        if out is None:
            print("  (no case body stored for this signature)")
            return 2
        print(f"  family {obj['family']}  v={out['v']} effv={out['effv']} skipHash={out['skip']} extensions={len(out['exts'])}")
        for e in out["expect"]:
            print("   entry:", L.describe(e))
        if out["h"]["hist"]:
            print("  history: base", [L.describe(e) for e in out["h"]["bins"]][::-1], "\n  edits:", edits_str(out["h"]["eds"]))
        if out["cf"]["on"]:
            print("  configuration:", conf_str(out["cf"]))
        r = check_conf_case(W, out) if out["cf"]["on"] else check_hist_case(W, out) if out["h"]["hist"] else check_exts_case(W, out) if out["exts"] \
            else check_case(W, out, do_damage=obj["clause"].startswith("ChecksumDetects"))
        for cl, d in r["fails"]:
            print(f"  FAIL {cl}: {d[:700]}")
        if r["drift"]:
            print("  drift:", r["drift"])
        if not r["fails"]:
            print("  all clauses hold now")
        return 1 if r["fails"] else 0
    if obj.get("mode") == "C":
        ctx.max_report = 10
        reader_config_check(ctx)
        return 1 if ctx.violations else 0
    if obj.get("mode") == "T":
        inp = obj["input"]
        if obj.get("scenario"):
            ts = []
            for label, p, cwd, sparse in SC.scenarios(W.git, W.root, thorough=True, seed=obj.get("seed", 0)):
                if label == obj["scenario"]:
                    lc = cwd if sparse else None
                    ts = [make_hist_trace(W, 1, p, obj["edits"], label, sparse=sparse, cwd=lc, fsck_cwd=cwd)] if obj["kind"] == "hist" \
                        else make_git_traces(W, 1, p, label, sparse=sparse, cwd=lc, fsck_cwd=cwd)
        elif obj["kind"] == "hist":
            pb = W.path("gb")
            err = W.git.build(pb, inp["v"], inp["ents"])
            ts = [] if err else [make_hist_trace(W, 1, pb, inp["edits"], obj.get("label", "replay"))]
            if err:
                print("  git refused to build the base index:", err)
        elif obj["kind"] == "dw":
            ts = [make_dw_trace(W, 1, inp["v"], inp["skip"], inp["ents"])]
        else:
            ts, err = make_gitbuilt_traces(W, 1, inp["v"], inp["ents"], obj.get("label", "replay"))
            if err:
                print("  git refused to build the index:", err)
        for t in ts:
            if t["kind"] == "hist":
                print("  edits:", edits_str(t["edits"]))
            print(f"  trace kind={t['kind']} v={t['v']} hv={t['hv']} entries={len(t['ents'])} wrote={t['wrote']} rbok={t['rbok']} glok={t['glok']} "
                  f"{t.get('_wexc', '')} {t.get('_rbexc', '')} {t.get('_glerr', '')}")
            for e in t["ents"][:8]:
                print("   entry:", L.describe(e))
        validate_traces(ctx, ts, "replay")
        for v in ctx.violations:
            print(f"  FAIL {v['signature']}: {v['what'][:500]}")
        if not ctx.violations:
            print("  all clauses hold now")
        return 1 if ctx.violations else 0
    print("  unknown replay format")
    return 2

"""C04 -- corrupt or hostile input is contained; failed ingestion leaves no trace.

Specs: PackAttack.tla (structural attacks x transcribed readers), Ingest.tla (the ingestion
transaction with a failing twin per step), IngestTrace.tla (judgement of recorded executions).
Binding:
  R  every pack shape TLC enumerates (PackAttack: entries full | ofs{0, valid, inside, beyond start} |
     ref{earlier, later, itself, in store, missing}; header count n-1/n/n+1; trailer good/bad; declared
     size exact/smaller/larger) is turned into real bytes (real zlib, real SHA-1) and fed to every
     ingestion path (Disk/MemoryObjectStore x add_pack+commit, add_thin_pack, add_pack_data;
     PackStreamReader; ReceivePackHandler; an installed pack read through Pack.resolve_object) in
     worker processes under a time budget; the real outcome class and the set of objects that became
     visible are compared with the model's (difference = drift);
  T  every such execution, every read / ingestion of every single-bit / byte / truncation / tail
     damage of small valid artefacts, decompression bombs, and every ingestion run under os-level
     interposition with a fault injected at every eligible call, is logged as an event record /
     event trace and judged by TLC with IngestTrace (Contained, Prompt, FailedIngestInvisible,
     NoPartialPackUsed, SuccessIsConsistent, TrailerChecked; protocol shape = drift); random packs of
     5..8 entries with several damages at once (beyond what TLC enumerates) go the same way;
  G  C git as a third opinion on the *model*: `git index-pack --stdin --fix-thin` must accept exactly
     the shapes the model's thin-stream reader accepts (dulwich not involved).
The model is checked in its repaired configuration (cycle guard in Pack.resolve_object, atomic
MemoryObjectStore.add_pack, trailer check in DiskObjectStore.add_pack, rollback that survives a failing
close); the as-is configurations are negative controls whose TLC counterexamples are replayed on the
real code (evidence: negative_controls_replayed).
A VIOLATION comes only from TLC's verdict on what the real code did.
"""
from __future__ import annotations

import json
import os
import re
import shutil
import subprocess
import sys
import time

from .. import c04_lib as L
from .. import tlc
from ..core import REPO, VERIF, MachineryError

PY = "/venv/bin/python"

# --------------------------------------------------------------------------- policy tables
MODE_PATHS = {1: ["disk.add_thin_pack", "recv"], 2: ["disk.add_pack"], 3: ["mem.add_pack"], 4: ["mem.add_thin_pack"],
              5: ["disk.add_pack_data", "mem.add_pack_data"], 6: ["stream"], 7: ["direct"]}
PATH_MODE = {p: m for m, ps in MODE_PATHS.items() for p in ps}
ALL_PATHS = [p for m in sorted(MODE_PATHS) for p in MODE_PATHS[m]]
# paths that are handed the pack as its author made it (stream / file with trailer): accepting it means
# accepting its trailer.  add_pack_data gets an iterator of records, 'direct' reads an installed pack.
RAW_PATHS = {"disk.add_pack", "mem.add_pack", "disk.add_thin_pack", "mem.add_thin_pack", "stream", "recv"}
STREAM_PATHS = {"disk.add_thin_pack", "mem.add_thin_pack", "stream", "recv"}     # consume exactly the pack, ignore what follows
SITE = {
    "disk.add_pack": "dulwich/object_store.py:DiskObjectStore.add_pack",
    "mem.add_pack": "dulwich/object_store.py:MemoryObjectStore.add_pack",
    "disk.add_thin_pack": "dulwich/object_store.py:DiskObjectStore.add_thin_pack",
    "mem.add_thin_pack": "dulwich/object_store.py:MemoryObjectStore.add_thin_pack",
    "disk.add_pack_data": "dulwich/object_store.py:DiskObjectStore.add_pack_data",
    "mem.add_pack_data": "dulwich/object_store.py:MemoryObjectStore.add_pack_data",
    "stream": "dulwich/pack.py:PackStreamReader.read_objects",
    "recv": "dulwich/server.py:ReceivePackHandler._apply_pack",
    "direct": "dulwich/pack.py:Pack.resolve_object",
    "idx": "dulwich/pack.py:load_pack_index", "loose": "dulwich/objects.py:ShaFile.from_path",
    "index": "dulwich/index.py:Index.read", "packed-refs": "dulwich/refs.py:read_packed_refs",
    "commit-graph": "dulwich/commit_graph.py:CommitGraph._read_from_file", "midx": "dulwich/midx.py:MultiPackIndex",
    "bitmap": "dulwich/bitmap.py:read_bitmap_file",
}
# Ordinary error = any Exception subclass raised within the budget, except MemoryError / RecursionError, and except
# AssertionError outside the places where AssertionError *is* dulwich's error signalling: pack.py raises it
# explicitly for malformed pack data (read_pack_header_at, unpack_object_at, take_msb_bytes_at, PackData.__init__,
# DeltaChainIterator's pending-offset assertion), index.py raises it explicitly for a bad index header, and
# ReceivePackHandler._apply_pack lists it in the family it converts into an 'unpack <error>' status.  An
# AssertionError that *escapes* ReceivePackHandler.handle, or one raised while reading a loose object, packed-refs,
# commit-graph, multi-pack-index or bitmap, is not ordinary.
ASSERTION_OK = {"disk.add_pack", "mem.add_pack", "disk.add_thin_pack", "mem.add_thin_pack", "disk.add_pack_data",
                "mem.add_pack_data", "stream", "direct", "idx", "index"}
BUDGET_MS = 2000


def ordinary(path_or_kind, exc):
    if exc in (None, "UnpackFailed"):
        return True
    if exc in ("MemoryError", "RecursionError"):
        return False
    if exc == "AssertionError":
        return path_or_kind in ASSERTION_OK
    return True


# --------------------------------------------------------------------------- worker pool
def run_pool(ctx, cases, label, nworkers=None, hard_s=150):
    """execute cases in worker processes; returns {id: result}.  A worker that dies or stops making
    progress is recorded as 'killed' for the case it was running and restarted on the rest."""
    if not cases:
        return {}
    nworkers = nworkers or min(12, os.cpu_count() or 4, max(1, len(cases) // 20))
    d = ctx.tmpdir("pool")
    env = dict(os.environ, PYTHONPATH=VERIF + (os.pathsep + os.environ["PYTHONPATH"] if os.environ.get("PYTHONPATH") else ""),
               PYTHONHASHSEED="0", PYTHONWARNINGS="ignore")
    results = {}
    queues = [cases[w::nworkers] for w in range(nworkers)]
    gen = [0] * nworkers
    procs = [None] * nworkers
    outs = [None] * nworkers
    errs = [None] * nworkers
    last_progress = [time.time()] * nworkers
    last_size = [0] * nworkers

    def start(w):
        gen[w] += 1
        inp = os.path.join(d, f"in{w}_{gen[w]}.json")
        outs[w] = os.path.join(d, f"out{w}_{gen[w]}.ndjson")
        with open(inp, "w") as f:
            json.dump(queues[w], f)
        open(outs[w], "w").close()
        errs[w] = outs[w] + ".stderr"
        with open(errs[w], "wb") as ef:          # a file, not a pipe: a chatty finaliser must never block the worker
            procs[w] = subprocess.Popen([PY, "-m", "harness.c04_child", inp, outs[w], os.path.join(ctx.scratch, f"w{label}{w}_{gen[w]}")],
                                        cwd=VERIF, env=env, stdout=subprocess.DEVNULL, stderr=ef)
        last_progress[w] = time.time()
        last_size[w] = 0

    def harvest(w):
        started = None
        with open(outs[w]) as f:
            for line in f:
                line = line.strip()
                if not line:
                    continue
                try:
                    r = json.loads(line)
                except ValueError:
                    continue
                if "start" in r:
                    started = r["start"]
                else:
                    results[r["id"]] = r
                    started = None
        return started

    for w in range(nworkers):
        if queues[w]:
            start(w)
    while any(p is not None for p in procs):
        time.sleep(0.05)
        for w in range(nworkers):
            p = procs[w]
            if p is None:
                continue
            rc = p.poll()
            try:
                sz = os.path.getsize(outs[w])
            except OSError:
                sz = 0
            if sz != last_size[w]:
                last_size[w], last_progress[w] = sz, time.time()
            stuck = rc is None and time.time() - last_progress[w] > hard_s
            if rc is None and not stuck:
                continue
            if stuck:
                p.kill()
                p.wait()
            try:
                with open(errs[w], "rb") as ef:
                    err = ef.read().decode("utf-8", "replace")[-1500:]
            except OSError:
                err = ""
            running = harvest(w)
            procs[w] = None
            rest = [c for c in queues[w] if c["id"] not in results]
            if running is not None and running not in results:
                results[running] = {"id": running, "killed": True, "rc": rc, "stderr": err}
                rest = [c for c in rest if c["id"] != running]
            elif rc not in (0, None) and rest:
                # died outside a case (start-up): machinery
                raise MachineryError(f"C04 worker died with rc={rc} outside a case\n{err}")
            if rest:
                queues[w] = rest
                start(w)
    missing = [c["id"] for c in cases if c["id"] not in results]
    if missing:
        raise MachineryError(f"C04 pool {label}: {len(missing)} cases without result (first {missing[:3]})")
    bad = [r for r in results.values() if "machinery" in r]
    if bad:
        raise MachineryError(f"C04 worker harness error in case {bad[0]['id']}: {bad[0]['machinery']}\n{bad[0].get('tb', '')}")
    shutil.rmtree(d, ignore_errors=True)
    return results


# --------------------------------------------------------------------------- event records for TLC
class Judge:
    """collects observation records / transaction traces, lets TLC (IngestTrace) judge the distinct ones,
    maps verdicts back to the executions."""

    def __init__(self, ctx):
        self.ctx = ctx
        self.recs = {}        # canonical key -> (record, [meta...])
        self.n = 0

    def _ids(self, pre, post):
        allids = sorted(set(pre) | set(post))
        num = {h: i + 1 for i, h in enumerate(allids)}
        return [num[h] for h in pre], [num[h] for h in post]

    def obs(self, ev, site_key, trailer_ok=True, bad_extra=0):
        pre, post = self._ids(ev.get("pre", []), ev.get("post", []))
        outcome = ev["outcome"] if not ev.get("killed") else "killed"
        o = {"outcome": outcome, "ordinary": ordinary(site_key, ev.get("exc")), "pre": pre, "post": post,
             "bad": len(ev.get("bad", [])) + bad_extra,
             "partialvisible": any(p != ["complete", "complete"] for p in ev.get("packs", [])),
             "trailerok": bool(trailer_ok), "rawpath": site_key in RAW_PATHS,
             "ms": int(ev.get("wall_ms", 0)), "budget": BUDGET_MS}
        return o

    def add_event(self, o, meta):
        self.n += 1
        # wall time enters only through the Prompt clause: canonicalise so that records deduplicate
        o = dict(o, ms=(0 if o["ms"] <= o["budget"] else o["ms"]))
        key = json.dumps({"kind": "ev", "o": o}, sort_keys=True)
        self.recs.setdefault(key, ({"kind": "ev", "o": o}, []))[1].append(meta)

    def add_seq(self, o, acc, meta):
        """a sequence of accesses on one long-lived handle: acc = [[key, result, detail]]"""
        self.n += 1
        o = dict(o, ms=(0 if o["ms"] <= o["budget"] else o["ms"]))
        rec = {"kind": "seq", "o": o, "acc": [{"k": a[0], "r": a[1]} for a in acc]}
        key = json.dumps(rec, sort_keys=True)
        self.recs.setdefault(key, (rec, []))[1].append(meta)

    def add_tx(self, path, inp, events, o, meta):
        self.n += 1
        o = dict(o, ms=(0 if o["ms"] <= o["budget"] else o["ms"]))
        rec = {"kind": "tx", "path": path, "inp": inp, "ev": events, "o": o}
        key = json.dumps(rec, sort_keys=True)
        self.recs.setdefault(key, (rec, []))[1].append(meta)

    def judge(self, label="all"):
        """returns list of (verdict, failAt, driftAt, record, metas)"""
        ctx = self.ctx
        items = list(self.recs.values())
        out = []
        if not items:
            return out
        d = ctx.tmpdir("judge")
        B = 5000
        for b0 in range(0, len(items), B):
            chunk = items[b0:b0 + B]
            path = os.path.join(d, f"ev{b0}.ndjson")
            with open(path, "w") as f:
                for k, (rec, metas) in enumerate(chunk):
                    r = dict(rec, tid=b0 + k + 1)
                    r.setdefault("path", "memory")
                    r.setdefault("inp", {"bad": "none", "dup": False})
                    r.setdefault("ev", [])
                    r.setdefault("acc", [])
                    f.write(json.dumps(r, separators=(",", ":")) + "\n")
            res = tlc.run("IngestTrace.tla", "IngestTrace.cfg", workers=1, timeout=1800, env={"TRACE_FILE": path})
            ctx.add_tlc(f"IngestTrace[{label}:{b0}]", res, require_ok=False)
            verdicts = {}
            for v in tlc.extract_printed(res.output, "VERDICT"):
                tid, verdict, fail_at, drift_at = v[1], v[2], v[3], v[4]
                cur = verdicts.get(tid)
                if cur is None:
                    verdicts[tid] = [verdict, fail_at, drift_at]
                else:
                    # several model branches match a prefix: the verdict on the observed data is the same in
                    # all of them; the execution conforms if any branch matched every event
                    if cur[0] == "ok" and verdict != "ok":
                        cur[0], cur[1] = verdict, fail_at
                    cur[2] = 0 if (cur[2] == 0 or drift_at == 0) else max(cur[2], drift_at)
            if not res.completed or len(verdicts) != len(chunk):
                raise MachineryError(f"IngestTrace judged {len(verdicts)}/{len(chunk)} records\n{res.output[-3000:]}")
            for k, (rec, metas) in enumerate(chunk):
                v = verdicts[b0 + k + 1]
                out.append((v[0], v[1], v[2], rec, metas))
        shutil.rmtree(d, ignore_errors=True)
        return out


def contained_detail(o, ev):
    if o["outcome"] in ("timeout", "killed"):
        return o["outcome"]
    if o["outcome"] == "fatal":
        return f"fatal:{ev.get('exc')}"
    return f"{ev.get('exc')}"


# --------------------------------------------------------------------------- (a) structural attacks
_PA = re.compile(r'^"<<\\"PA\\", (.*), \\"([a-z0-9-]*)\\">>"$')


def parse_pa(output):
    """-> {shape key tuple: {mode: (oc, vismask, err)} | {7: {start: (oc, err)}}}"""
    shapes = {}
    n_lines = 0
    for line in output.splitlines():
        m = _PA.match(line)
        if not m:
            continue
        n_lines += 1
        ints = [int(x) for x in re.findall(r"-?\d+", m.group(1))]
        mode, n = ints[0], ints[1]
        ent = tuple((ints[2 + 2 * k], ints[3 + 2 * k]) for k in range(n))
        hdr, tr, szat, szdir, start, oc, vismask, ny = ints[2 + 2 * n:2 + 2 * n + 8]
        key = (ent, hdr, tr, szat, szdir)
        s = shapes.setdefault(key, {})
        if mode == 7:
            s.setdefault(7, {})[start] = (oc, m.group(2))
        else:
            alt = (oc, vismask, m.group(2))          # a reader may have several admissible outcomes (read-ahead)
            if alt not in s.setdefault(mode, []):
                s[mode].append(alt)
    for s in shapes.values():
        for mode in s:
            if mode != 7:
                s[mode].sort(reverse=True)
    return shapes, n_lines


def pa_cfg(ctx, name, **c):
    d = ctx.tmpdir("pacfg")
    p = os.path.join(d, name + ".cfg")
    consts = {"MinN": c["MinN"], "MaxN": c["MaxN"], "AttrMode": c["AttrMode"], "Modes": c.get("Modes", "{1, 2, 3, 4, 5, 6, 7}"),
              "CycleGuard": c.get("CycleGuard", "TRUE"), "MemAtomic": c.get("MemAtomic", "TRUE"),
              "DiskVerify": c.get("DiskVerify", "TRUE"), "Emit": c.get("Emit", "TRUE")}
    tlc.write_cfg(p, spec="Spec", constants=consts,
                  invariants=["Terminates", "ErrorOrAll", "FailedInvisible", "TrailerChecked", "ValidAccepted"])
    return p


def attack_models(ctx):
    """TLC: the space of packs x reader configurations (repaired design), and the as-is negative controls.
    Returns (shapes to replay with the model's answers, counterexamples of the negative controls, exhaustive?)"""
    plan = [("n<=2, every container damage combination", dict(MinN=1, MaxN=2, AttrMode=2), None)]
    if ctx.quick:
        plan.append(("n=3, intact container", dict(MinN=3, MaxN=3, AttrMode=0), 250))
    else:
        plan.append(("n=3, at most one container damage", dict(MinN=3, MaxN=3, AttrMode=1), None))
        plan.append(("n=4, intact container", dict(MinN=4, MaxN=4, AttrMode=0), None))
    from concurrent.futures import ThreadPoolExecutor
    negplan = (
        ("as-is Pack.resolve_object (no cycle guard)", dict(MinN=2, MaxN=2, AttrMode=0, Modes="{7}", CycleGuard="FALSE", Emit="FALSE"), "Terminates"),
        ("as-is MemoryObjectStore (publishes object by object)", dict(MinN=2, MaxN=2, AttrMode=0, Modes="{3, 4}", MemAtomic="FALSE", Emit="FALSE"), "FailedInvisible"),
        ("as-is DiskObjectStore.add_pack (trailer not verified)", dict(MinN=1, MaxN=1, AttrMode=1, Modes="{2}", DiskVerify="FALSE", Emit="FALSE"), "TrailerChecked"))
    with ThreadPoolExecutor(max_workers=6) as tp:
        runs = [tp.submit(tlc.run, "PackAttack.tla", pa_cfg(ctx, "pa", **c), workers=ctx.pick(4, 8), timeout=1500) for (_, c, _) in plan]
        nruns = [tp.submit(tlc.run, "PackAttack.tla", pa_cfg(ctx, "neg", **c), workers=1, timeout=300) for (_, c, _) in negplan]
        runs = [f.result() for f in runs]
        nruns = [f.result() for f in nruns]
    shapes = {}
    exhaustive = True
    for (label, c, sample), res in zip(plan, runs):
        ctx.add_tlc(f"PackAttack[{label}] (repaired design: CycleGuard, MemAtomic, DiskVerify)", res)
        sh, nl = parse_pa(res.output)
        if not sh:
            raise MachineryError("PackAttack emitted no cases\n" + res.output[-2000:])
        for k, v in sh.items():
            if len(v) != 7 or len(v[7]) != len(k[0]):
                raise MachineryError(f"PackAttack: incomplete case {k}: {v}")
        keys = sorted(sh)
        if sample is not None and len(keys) > sample:
            exhaustive = False
            keys = ctx.rng.sample(keys, sample)
        for k in keys:
            shapes[k] = sh[k]
        ctx.log(f"PackAttack {label}: {res.distinct} states, {len(sh)} shapes, replaying {len(keys)}")
    neg = []
    for (name, c, expect), r in zip(negplan, nruns):
        ctx.add_tlc(f"PackAttack negative control: {name} (expects {expect})", r, require_ok=False)
        if expect not in r.violated or not r.error_trace:
            raise MachineryError(f"negative control '{name}' did not find {expect}\n{r.output[-1500:]}")
        neg.append((name, expect, r.error_trace[-1][1]["case"]))
    return shapes, neg, exhaustive


def ingest_models(ctx):
    from concurrent.futures import ThreadPoolExecutor
    negs = (("Ingest_neg_norollback.cfg", "FailedIngestInvisible"), ("Ingest_neg_asis_rollback.cfg", "FailedIngestInvisible"),
            ("Ingest_neg_asis_mem.cfg", "FailedIngestInvisible"))
    with ThreadPoolExecutor(max_workers=4) as tp:
        f0 = tp.submit(tlc.run, "Ingest.tla", "Ingest_mc.cfg" if ctx.quick else "Ingest_mc2.cfg", workers=2, timeout=900, coverage=not ctx.quick)
        fs = [tp.submit(tlc.run, "Ingest.tla", cfg, workers=1, timeout=300) for cfg, _ in negs]
        res = f0.result()
        rs = [f.result() for f in fs]
    ctx.add_tlc("Ingest (every step with a failing twin; FailedIngestInvisible, NoPartialPackUsed, SuccessIsConsistent)", res)
    rf = tlc.run("IngestFetch.tla", "IngestFetch_mc.cfg", workers=1, timeout=300)
    ctx.add_tlc("IngestFetch (a transfer as a transaction over objects, shallow and refs; FailedTransferInvisible, SuccessIsComplete)", rf)
    rfn = tlc.run("IngestFetch.tla", "IngestFetch_neg_shallowfirst.cfg", workers=1, timeout=300)
    ctx.add_tlc("IngestFetch_neg_shallowfirst.cfg (negative control: shallow recorded before the pack is ingested)", rfn, require_ok=False)
    if "FailedTransferInvisible" not in rfn.violated:
        raise MachineryError("negative control IngestFetch_neg_shallowfirst did not find FailedTransferInvisible\n" + rfn.output[-1500:])
    rh = tlc.run("IngestHandle.tla", "IngestHandle_mc.cfg", workers=1, timeout=300)
    ctx.add_tlc("IngestHandle (cached reader accessed repeatedly after a failed read; RepeatContained, NothingLost)", rh)
    rn = tlc.run("IngestHandle.tla", "IngestHandle_neg_tagfirst.cfg", workers=1, timeout=300)
    ctx.add_tlc("IngestHandle_neg_tagfirst.cfg (negative control: cache tagged before the parse, expects RepeatContained)", rn, require_ok=False)
    if "RepeatContained" not in rn.violated:
        raise MachineryError("negative control IngestHandle_neg_tagfirst did not find RepeatContained\n" + rn.output[-1500:])
    for (cfg, expect), r in zip(negs, rs):
        ctx.add_tlc(f"{cfg} (negative control, expects {expect})", r, require_ok=False)
        if expect not in r.violated:
            raise MachineryError(f"negative control {cfg} did not find {expect}\n{r.output[-1500:]}")


def git_opinion(ctx, shapes):
    """C git as a third opinion on the *model*: `git index-pack --stdin --fix-thin` in a repository that has S
    must accept exactly the packs the thin-stream reader of the model accepts (dulwich is not involved)."""
    if not shutil.which("git"):
        ctx.assumptions.append("git not found: the model's accept/reject answers were not compared with git index-pack")
        return
    from concurrent.futures import ThreadPoolExecutor
    keys = sorted(shapes)
    limit = ctx.pick(240, 16000)
    if len(keys) > limit:
        keys = ctx.rng.sample(keys, limit)
    d = ctx.tmpdir("git")
    env = dict(os.environ, GIT_CONFIG_NOSYSTEM="1", HOME=d, GIT_CONFIG_GLOBAL="/dev/null")

    def work(w):
        repo = os.path.join(d, f"r{w}.git")
        subprocess.run(["git", "init", "-q", "--bare", repo], check=True, env=env, stdout=subprocess.DEVNULL, stderr=subprocess.DEVNULL)
        subprocess.run(["git", "-C", repo, "hash-object", "-w", "--stdin"], input=L.S_CONTENT, check=True, env=env, stdout=subprocess.DEVNULL)
        out = []
        pd = os.path.join(repo, "objects", "pack")
        for k in keys[w::4]:
            ent, hdr, tr, szat, szdir = k
            shape = {"e": [list(e) for e in ent], "hdr": hdr, "tr": tr, "szat": szat, "szdir": szdir}
            data, _ = L.build_attack_pack(shape)
            g = subprocess.run(["git", "-C", repo, "index-pack", "--stdin", "--fix-thin"], input=data, env=env,
                               stdout=subprocess.DEVNULL, stderr=subprocess.PIPE)
            for f in os.listdir(pd):
                os.unlink(os.path.join(pd, f))
            git_ok = g.returncode == 0
            if git_ok not in {bool(a[0]) for a in shapes[k][1]}:
                out.append({"shape": L.shape_key(shape), "git": "accepts" if git_ok else "rejects: " + g.stderr.decode("utf-8", "replace")[:100],
                            "model": [("ok" if a[0] else "error:" + a[2]) for a in shapes[k][1]]})
        return out
    t0 = time.time()
    with ThreadPoolExecutor(max_workers=4) as tp:
        dis = [x for r in tp.map(work, range(4)) for x in r]
    ctx.cov["git_third_opinion_on_model"] = {"shapes": len(keys), "agree": len(keys) - len(dis), "disagreements": dis[:10]}
    ctx.log(f"git index-pack --fix-thin vs model (thin stream reader) on {len(keys)} shapes: {len(dis)} disagreements ({time.time() - t0:.1f}s)")
    shutil.rmtree(d, ignore_errors=True)


def walk_label(shape, start):
    """PackAttack's RStep (repaired design) in Python, used only to *label* a non-terminating read of a pack that is
    larger than TLC enumerates: which error the guarded walk from `start` would end in ('' = resolves)."""
    n = len(shape["e"])
    if shape["hdr"] != 0:
        return "length"
    cur, seen = start, set()
    while True:
        seen.add(cur)
        k, b = shape["e"][cur - 1]
        if shape["szat"] == cur:
            return "zlib"
        if k == 1 and b == 0:
            return "ofs0"
        if k == 0:
            return ""
        if k == 1:
            if b < 1:
                return "garbage" if b == -1 else "assert-offset"
            cur = b
            continue
        if b > n:
            return "keyerror"
        if b == cur:
            return "unresolved-self"
        if b in seen:
            return "cycle"
        cur = b


def random_big_shapes(ctx, n_cases):
    """packs larger than TLC enumerates (5..8 entries, several damages at once): no model answer, judged by IngestTrace only"""
    rng = ctx.rng
    out = []
    for _ in range(n_cases):
        n = rng.randint(5, 8)
        ent = []
        for i in range(1, n + 1):
            r = rng.random()
            if r < 0.35:
                ent.append([0, 0])
            elif r < 0.65:
                ent.append([1, rng.choice([-2, -1, 0] + list(range(1, i)) * 3)])
            else:
                ent.append([2, rng.randint(1, n + 2)])
        szat = rng.choice([0, 0, 0, rng.randint(1, n)])
        out.append({"e": ent, "hdr": rng.choice([0, 0, 0, -1, 1]), "tr": rng.choice([1, 1, 1, 0]),
                    "szat": szat, "szdir": rng.choice([-1, 1]) if szat else 0})
    return out


KILLED_OBS = {"outcome": "killed", "ordinary": False, "pre": [], "post": [], "bad": 0, "partialvisible": False,
              "trailerok": True, "rawpath": False, "ms": 0, "budget": BUDGET_MS}


def attack_cases(shapes, neg, big=()):
    cases, meta = [], {}
    for shape in big:
        cid = len(cases)
        cases.append({"id": cid, "kind": "attack", "shape": shape, "paths": ALL_PATHS})
        meta[cid] = ("big", shape)
    for k, exp in shapes.items():
        ent, hdr, tr, szat, szdir = k
        shape = {"e": [list(e) for e in ent], "hdr": hdr, "tr": tr, "szat": szat, "szdir": szdir}
        cid = len(cases)
        cases.append({"id": cid, "kind": "attack", "shape": shape, "paths": ALL_PATHS})
        meta[cid] = (k, shape, exp)
    # the counterexamples of the negative controls, on the path the control is about
    for name, expect, cs in neg:
        shape = {"e": [list(x) for x in cs["e"]], "hdr": cs["hdr"], "tr": cs["tr"], "szat": cs["szat"], "szdir": cs["szdir"]}
        cid = len(cases)
        cases.append({"id": cid, "kind": "attack", "shape": shape, "paths": MODE_PATHS[cs["mode"]][:1]})
        meta[cid] = ("neg", name, expect, cs)
    return cases, meta


def attack_results(ctx, judge, cases, meta, results):
    nexec = 0
    neg_info = []
    first = None
    for cid in sorted(results):
        r = results[cid]
        if meta[cid][0] == "neg":
            _, name, expect, cs = meta[cid]
            ev = r["events"][0] if not r.get("killed") else {"outcome": "killed"}
            if expect == "Terminates":
                shown = ev["outcome"] in ("timeout", "killed")
            elif expect == "FailedInvisible":
                shown = ev["outcome"] != "ok" and ev.get("pre") != ev.get("post")
            else:
                shown = ev["outcome"] == "ok"
            neg_info.append({"control": name, "invariant": expect, "counterexample": L.shape_key(cases[cid]["shape"]),
                             "path": cases[cid]["paths"][0], "real_code_exhibits_it": bool(shown), "real_outcome": f"{ev['outcome']}:{ev.get('exc')}"})
            nexec += 1
            continue
        if meta[cid][0] == "big":
            shape = meta[cid][1]
            skey = L.shape_key(shape)
            if r.get("killed"):
                judge.add_event(dict(KILLED_OBS), {"site": "dulwich/pack.py:(worker killed)", "case": "attack random n>4", "cls": "attack",
                                                   "shape": skey, "replay": {"case": cases[cid]}, "ev": r})
                continue
            for ev in r["events"]:
                nexec += 1
                case = "attack random n>4"
                if ev["path"] == "direct":
                    hung = [i + 1 for i, x in enumerate(ev["per"]) if x[0] in ("timeout", "fatal")]
                    if hung:
                        case = f"attack expect={walk_label(shape, hung[0]) or 'ok'}"
                judge.add_event(judge.obs(ev, ev["path"], trailer_ok=(shape["tr"] == 1)),
                                {"site": SITE[ev["path"]], "case": case, "cls": "attack", "shape": skey,
                                 "replay": {"case": dict(cases[cid], paths=[ev["path"]])}, "ev": ev, "drift": None})
                ctx.nontrivial(("attack", skey, ev["path"]))
            continue
        k, shape, exp = meta[cid]
        skey = L.shape_key(shape)
        if r.get("killed"):
            judge.add_event(dict(KILLED_OBS), {"site": "dulwich/pack.py:(worker killed)", "case": f"attack {skey}", "cls": "attack",
                                               "replay": {"case": cases[cid]}, "ev": r})
            continue
        if first is None:
            first = cid
        rev = {h: int(i) for i, h in r["ids"].items()}
        n = len(shape["e"])
        for ev in r["events"]:
            nexec += 1
            p = ev["path"]
            mode = PATH_MODE[p]
            o = judge.obs(ev, p, trailer_ok=(shape["tr"] == 1))
            drift = None
            if p == "direct":
                e7 = exp[7]
                per = ev["per"]
                label = None
                for s in range(1, n + 1):
                    got = per[s - 1][0]
                    want_ok = bool(e7[s][0])
                    if got in ("timeout", "fatal"):
                        label = label or e7[s][1] or "ok"
                    elif drift is None and (got != "error") != want_ok:
                        drift = f"entry {s}: model {'ok' if want_ok else 'error:' + e7[s][1]}, real {got}:{per[s - 1][1]}"
                case = f"attack expect={label}" if label else "attack"
            else:
                alts = exp[mode]
                new = sorted(set(ev["post"]) - set(ev["pre"]))
                got_mask = sum(1 << (rev[h] - 1) for h in new if h in rev and rev[h] <= n)
                foreign = [h for h in new if h not in rev]
                real_ok = ev["outcome"] == "ok"
                if ev["outcome"] in ("ok", "error"):
                    if not any(bool(oc) == real_ok and (not real_ok or p == "stream" or (got_mask == vismask and not foreign))
                               for (oc, vismask, err) in alts):
                        want = " | ".join(f"ok visible={vm}" if oc else "error:" + err for (oc, vm, err) in alts)
                        drift = f"model {want}; real {ev['outcome']}:{ev.get('exc')} visible={got_mask} foreign={len(foreign)}"
                errs = [err for (oc, vm, err) in alts if not oc]
                case = f"attack expect={errs[0] if errs else 'ok'}"
            judge.add_event(o, {"site": SITE[p], "case": case, "cls": "attack", "shape": skey,
                                "replay": {"case": dict(cases[cid], paths=[p])}, "ev": ev, "drift": drift})
            if p == "direct" and ev.get("acc"):
                nexec += 1
                judge.add_seq(o, ev["acc"], {"site": "dulwich/pack.py:Pack.get_raw", "case": "attack repeat on one store", "cls": "attack", "shape": skey,
                                             "replay": {"case": dict(cases[cid], paths=[p])}, "ev": ev})
            ctx.nontrivial(("attack", skey, p))
    ctx.count(nexec)
    ctx.cov["negative_controls_replayed"] = neg_info
    for x in neg_info:
        ctx.log(f"negative control [{x['control']}] counterexample {x['counterexample']} on {x['path']}: "
                f"real code {'exhibits' if x['real_code_exhibits_it'] else 'does not exhibit'} it ({x['real_outcome']})")
    if first is not None:
        ctx.sample({"kind": "structural attack", "shape": L.shape_key(meta[first][1]),
                    "model": {MODE_PATHS[m][0]: " | ".join("ok" if a[0] else "error:" + a[2] for a in v) for m, v in meta[first][2].items() if m != 7},
                    "real": [{k2: e.get(k2) for k2 in ("path", "outcome", "exc", "wall_ms")} for e in results[first]["events"]]})


# --------------------------------------------------------------------------- (b) byte-level damage
def damage_plan(ctx):
    A = L.artefacts()
    if ctx.quick:
        lv = {"pack.blobs": "full", "pack.thin": "byte", "pack.commit": "light", "pack.badtree": "light",
              "idx.v1": "light", "idx.v2": "light", "idx.v3": "light",
              "loose.blob": "full", "loose.tree": "byte", "loose.commit": "light", "loose.tag": "light",
              "index.v2": "byte", "index.v3": "light", "index.v4": "light", "packed-refs": "byte",
              "commit-graph": "light", "midx": "light", "bitmap": "byte"}
    else:
        lv = {k: "full" for k in A}
    return [(name, A[name], lv[name]) for name in A if name in lv]


def damage_cases(ctx, base):
    cases, meta, per_art = [], {}, {}
    for name, art, level in damage_plan(ctx):
        muts = L.mutations(len(art["data"]), level)
        if art["kind"] == "midx":
            # crafted: the recorded offset of one object redirected to the start of another object of the same pack
            n = L.midx_object_count(art["data"])
            muts += [("redir", i, j) for i in range(n) for j in range(n) if i != j]
        if art["kind"] == "idx":
            muts.append(("splice", 0, 0))     # the intact index over another pack of the same layout
        per_art[name] = (level, len(muts))
        for m in muts:
            cid = base + len(cases)
            c = {"id": cid, "kind": "damage", "art": name, "mut": list(m)}
            if art["kind"] == "pack":
                c["paths"] = ALL_PATHS
            cases.append(c)
            meta[cid] = (name, art["kind"], m)
    return cases, meta, per_art


SEQ_SITE = {"packed-refs": "dulwich/refs.py:DiskRefsContainer.get_packed_refs", "index": "dulwich/index.py:Index.read",
            "idx": "dulwich/pack.py:Pack.get_raw", "commit-graph": "dulwich/object_store.py:DiskObjectStore.get_commit_graph",
            "midx": "dulwich/object_store.py:DiskObjectStore.get_midx", "bitmap": "dulwich/pack.py:Pack.bitmap"}


def damage_results(ctx, judge, cases, meta, per_art, results):
    nexec = 0
    read_stats = {}
    seq_stats = {}
    byid = {c["id"]: c for c in cases}
    for cid in sorted(meta):
        r = results[cid]
        name, kind, m = meta[cid]
        if r.get("skip"):
            continue
        mcls = f"{kind if kind != 'pack' else name}:{m[0]}"
        mut = f"{name}:{m[0]}@{m[1]}" + (f".{m[2]}" if m[0] in ("bit", "set") else "")
        if r.get("killed"):
            judge.add_event(dict(KILLED_OBS), {"site": SITE.get(kind, "dulwich/pack.py"), "case": f"damage {mcls}", "cls": "damage", "mut": mut,
                                               "replay": {"case": byid[cid]}, "ev": r})
            continue
        if "events" in r:
            empty = (m[0] == "trunc" and m[1] == 0)
            for ev in r["events"]:
                nexec += 1
                p = ev["path"]
                # a stream path consumes exactly the pack and leaves what follows on the wire; an empty input is no pack at all
                tok = r["trailer_ok"] or (m[0] == "tail" and p in STREAM_PATHS) or empty
                o = judge.obs(ev, p, trailer_ok=tok)
                judge.add_event(o, {"site": SITE[p], "case": f"damage {mcls}", "cls": "damage", "mut": mut,
                                    "replay": {"case": dict(byid[cid], paths=[p])}, "ev": ev})
                if p == "direct" and ev.get("acc"):
                    nexec += 1
                    judge.add_seq(o, ev["acc"], {"site": "dulwich/pack.py:Pack.get_raw", "case": f"damage {mcls} repeat on one store", "cls": "damage", "mut": mut,
                                                 "replay": {"case": dict(byid[cid], paths=[p])}, "ev": ev})
                ctx.nontrivial(("damage", name, tuple(m), p))
        else:
            for rk, e in r["reads"].items():
                nexec += 1
                v = e.get("value")
                bad = 0
                if rk == "verified" and e["outcome"] == "ok":
                    if kind == "idx":
                        bad = 0 if m[0] == "splice" else 1      # a damaged pack index passed load + check()
                    elif kind == "loose":
                        bad = 0 if (v and v.get("hash_ok")) else 1
                    elif kind == "index":
                        bad = 0 if (v and v.get("same")) else 1
                elif kind == "loose" and e["outcome"] == "ok":
                    bad = 0 if (v and v.get("hash_ok")) else 1   # get_raw / from_path: what is returned hashes to the name
                elif kind == "midx" and rk == "use" and e["outcome"] == "ok":
                    bad = int((v or {}).get("misnamed", 0))       # object served == object named, for every object
                ev = {"outcome": e["outcome"], "exc": e.get("exc"), "msg": e.get("msg"), "wall_ms": e.get("wall_ms", 0), "read": rk, "value": v}
                o = judge.obs(ev, kind, bad_extra=bad)
                judge.add_event(o, {"site": SITE[kind], "case": f"damage {mcls} {rk}", "cls": "damage", "mut": mut,
                                    "replay": {"case": byid[cid]}, "ev": ev})
                ctx.nontrivial(("damage", name, tuple(m), rk))
                st = read_stats.setdefault(f"{kind}.{rk}", {"ok": 0, "error": 0, "other": 0, "misnamed_on_unverified_read": 0})
                st[e["outcome"] if e["outcome"] in ("ok", "error") else "other"] += 1
                if isinstance(v, dict) and v.get("misnamed"):
                    st["misnamed_on_unverified_read"] += 1
    for cid in sorted(meta):
        r = results[cid]
        sq = r.get("seq") if isinstance(r, dict) else None
        if not sq:
            continue
        name, kind, m = meta[cid]
        nexec += 1
        mut = f"{name}:{m[0]}@{m[1]}" + (f".{m[2]}" if m[0] in ("bit", "set") else "")
        o = judge.obs({"outcome": sq["outcome"], "exc": sq.get("exc"), "wall_ms": sq.get("wall_ms", 0)}, kind)
        judge.add_seq(o, sq["acc"], {"site": SEQ_SITE[kind], "case": f"damage {kind}:{m[0]} repeat on one handle", "cls": "damage", "mut": mut,
                                     "replay": {"case": byid[cid]}, "ev": dict(sq, acc=[a[:3] for a in sq["acc"]][:12])})
        ctx.nontrivial(("seq", name, tuple(m)))
        sk = seq_stats.setdefault(kind, {"sequences": 0, "with_failed_access": 0, "repeat_after_failure": {}})
        sk["sequences"] += 1
        failed = set()
        for a in sq["acc"]:
            if a[0] in failed or (a[0] == "write" and failed):
                sk["repeat_after_failure"][a[1]] = sk["repeat_after_failure"].get(a[1], 0) + 1
            if a[1] == "error":
                failed.add(a[0])
        sk["with_failed_access"] += 1 if failed else 0
    ctx.cov["repeat_access_stats"] = seq_stats
    ctx.count(nexec)
    ctx.cov["damage_artefacts"] = {k: {"level": v[0], "mutations": v[1], "bytes": len(L.artefacts()[k]["data"])} for k, v in per_art.items()}
    ctx.cov["damage_read_stats"] = read_stats
    some = next((results[c] for c in sorted(meta) if "events" in results[c]), None)
    if some:
        ctx.sample({"kind": "byte-level damage", "case": byid[some["id"]],
                    "real": [{k2: e.get(k2) for k2 in ("path", "outcome", "exc")} for e in some["events"]]})
    return nexec, all(v[0] == "full" for v in per_art.values())


def bomb_results(ctx, judge, cases, results):
    info = []
    for c in cases:
        r = results[c["id"]]
        if r.get("killed"):
            judge.add_event(dict(KILLED_OBS), {"site": "dulwich/pack.py:read_zlib_chunks", "case": f"bomb {c['which']}", "cls": "bomb", "replay": {"case": c}, "ev": r})
            continue
        grow = r["rss_growth_kb"]
        for ev in r["events"]:
            ctx.count()
            # the declared size (10 bytes / a 1 MiB limit) bounds what may be inflated: an accepted bomb, or a resident
            # set that grew by more than half of the 48 MiB payload, is a failed containment
            bad = 1 if (ev["outcome"] == "ok" or grow > 24 * 1024) else 0
            p = ev["path"] if ev["path"] in SITE else "loose"
            o = judge.obs(dict(ev, pre=ev.get("pre", []), post=ev.get("post", [])), p, bad_extra=bad)
            judge.add_event(o, {"site": SITE.get(p, "dulwich/objects.py:_decompress") if p != "loose" else "dulwich/objects.py:_decompress",
                                "case": f"bomb {c['which']}", "cls": "bomb", "replay": {"case": c}, "ev": ev})
        info.append({"which": c["which"], "rss_growth_kb": grow, "input_kb": r["input_kb"],
                     "outcomes": [f"{e['path']}:{e['outcome']}:{e.get('exc')}" for e in r["events"]]})
    ctx.cov["bombs"] = info


# --------------------------------------------------------------------------- loose-object bombs: encoding x limit route x payload x read path
LOOSE_CAP = 64 * 1024
LOOSE_DEFAULT_CAP = 512 * 1024 * 1024          # dulwich.objects.DEFAULT_LOOSE_OBJECT_SIZE_LIMIT (core.bigFileThreshold default)


def loose_bomb_cases(ctx, base):
    """loose objects in both on-disk encodings (legacy: one zlib stream of header + payload; new-style: binary
    type/size header + zlib stream of the payload, which dulwich reads but never writes) x the routes by which a
    size limit reaches the reader (DiskObjectStore(loose_object_size_limit=), DiskObjectStore.from_config with
    core.bigFileThreshold, Repo() on a config file with core.bigFileThreshold, explicit max_size= of
    ShaFile.from_path / from_file / Blob.from_path, and the built-in default) x payload just under / far over
    the limit x every loose read path (store[...], get_raw, `in`, from_path, from_file)."""
    out = []

    def add(enc, route, path, size, cap, soft=None):
        out.append({"id": base + len(out), "kind": "loosebomb", "enc": enc, "route": route, "path": path, "size": size, "cap": cap, "soft": soft})
    for enc in ("legacy", "newstyle"):
        for size in (LOOSE_CAP - 1024, 48 * 1024 * 1024):
            for route in ("ctor", "config", "repo"):
                for path in ("getitem", "get_raw", "contains"):
                    add(enc, route, path, size, LOOSE_CAP)
            for path in ("from_path", "from_file", "blob_from_path"):
                add(enc, "direct", path, size, LOOSE_CAP)
        # the built-in default: a large but legitimate object is returned whole ...
        for route, path in (("default", "get_raw"), ("default", "getitem"), ("direct-default", "from_path")):
            add(enc, route, path, 8 * 1024 * 1024, None)
        # ... and (thorough) one that inflates past the default is refused without inflating much more than the default
        if not ctx.quick:
            for route, path in (("default", "get_raw"), ("direct-default", "from_path")):
                add(enc, route, path, LOOSE_DEFAULT_CAP + 8 * 1024 * 1024, None, soft=60.0)
    return out


def loose_bomb_results(ctx, judge, cases, results):
    table = []
    for c in cases:
        r = results[c["id"]]
        cap = c["cap"] if c["cap"] is not None else LOOSE_DEFAULT_CAP
        over = c["size"] > cap
        case = f"bomb loose enc={c['enc']} limit={'default' if c['cap'] is None else 'configured'} payload={'over' if over else 'under'}"
        detail = f"{c['enc']} {c['size']}B limit={c['cap'] or 'default'} via {c['route']} read by {c['path']}"
        meta = {"site": "dulwich/objects.py:ShaFile._parse_file", "case": case, "cls": "bomb", "mut": detail, "replay": {"case": c}}
        ctx.count()
        ctx.nontrivial(("loosebomb", c["enc"], c["route"], c["path"], c["size"]))
        if r.get("killed"):
            judge.add_event(dict(KILLED_OBS), dict(meta, ev=r))
            continue
        ev = r["event"]
        peak = r["peak_kb"] * 1024
        bad, drift = 0, None
        if over:
            # refused, and refused before much more than the limit was inflated (cap + 1 bytes are inflated to notice
            # the overrun, and one copy of that may exist): returned size and peak of traced allocations vs the cap
            if ev["outcome"] == "ok" or peak > 2 * cap + 8 * 1024 * 1024:
                bad = 1
        else:
            if ev["outcome"] == "ok" and r["returned"] not in (c["size"], -1):
                bad = 1
            elif ev["outcome"] == "error":
                drift = f"a loose object under the limit was refused: {ev.get('exc')}: {ev.get('msg')}"
        o = judge.obs(dict(ev, pre=[], post=[]), "loose", bad_extra=bad)
        if c.get("soft"):
            o["budget"] = int(c["soft"] * 1000)
        judge.add_event(o, dict(meta, ev=dict(ev, returned=r["returned"], peak_kb=r["peak_kb"]), drift=drift))
        table.append({"case": detail, "outcome": f"{ev['outcome']}:{ev.get('exc')}", "returned": r["returned"], "peak_kb": r["peak_kb"]})
    ctx.cov["loose_bombs"] = {"cases": len(cases), "sample": table[:3] + table[len(table) // 2:len(table) // 2 + 3],
                              "max_peak_kb_over_configured": max([t["peak_kb"] for t, c in zip(table, cases) if c["cap"] and c["size"] > c["cap"]] or [0])}
    some = next((t for t, c in zip(table, cases) if c["enc"] == "newstyle" and c["cap"] and c["size"] > c["cap"]), None)
    if some:
        ctx.sample({"kind": "loose-object bomb", **some})


# --------------------------------------------------------------------------- failed transfer: deepening fetch damaged in transit
FETCH_ENTRIES = ("client", "porcelain")
FETCH_SITE = {"client": "dulwich/client.py:GitClient.fetch", "porcelain": "dulwich/porcelain:fetch"}


def fetch_cases(ctx, base):
    """a depth-1 clone is deepened (depth 2) over an in-process git:// server through TCPGitClient.fetch and through
    porcelain.fetch; one bit of the pack stream is flipped, or the stream is cut, at every `step`-th position (and at
    each of the last 20 bytes)."""
    parts = ctx.pick(6, 8)
    return [{"id": base + i, "kind": "fetch", "entry": e, "step": ctx.pick(4, 1), "part": p, "parts": parts}
            for i, (e, p) in enumerate((e, p) for e in FETCH_ENTRIES for p in range(parts))]


def fetch_results(ctx, judge, cases, results):
    n = 0
    outcomes = {}
    for c in cases:
        r = results[c["id"]]
        site = FETCH_SITE[c["entry"]]
        if r.get("killed"):
            judge.add_event(dict(KILLED_OBS), {"site": site, "case": "fetch depth=2 damaged in transit", "cls": "fetch", "replay": {"case": c}, "ev": r})
            continue
        for ev in r["events"]:
            n += 1
            # accepted: then the repository must be exactly what the undamaged transfer produces
            bad = 1 if (ev["outcome"] == "ok" and not ev["as_good"]) else 0
            o = judge.obs(ev, "disk.add_pack", bad_extra=bad)
            o["rawpath"] = False
            mut = ev["mut"]
            judge.add_event(o, {"site": site, "case": f"fetch depth=2 pack {mut[0]} in transit", "cls": "fetch",
                                "mut": f"{mut[0]}@{mut[1]}" + (f".{mut[2]}" if mut[0] == "bit" else "") + f" of {r['pack_len']}",
                                "replay": {"case": dict(c, mut=mut)},
                                "ev": {k: ev.get(k) for k in ("path", "outcome", "exc", "msg", "bad")} | {"changed": sorted(set(ev["pre"]) ^ set(ev["post"]))[:8]}})
            ctx.nontrivial(("fetch", c["entry"], tuple(mut)))
            k = f"{c['entry']}:{ev['outcome']}:{ev.get('exc')}"
            outcomes[k] = outcomes.get(k, 0) + 1
    ctx.count(n)
    ctx.cov["damaged_fetches"] = {"executions": n, "outcomes": outcomes}
    some = next((results[c["id"]] for c in cases if not results[c["id"]].get("killed") and results[c["id"]]["events"]), None)
    if some:
        e = some["events"][0]
        ctx.sample({"kind": "damaged deepening fetch", "mut": e["mut"], "outcome": f"{e['outcome']}:{e.get('exc')}",
                    "state_before": [x for x in e["pre"] if x.startswith("file:")], "changed": sorted(set(e["pre"]) ^ set(e["post"]))})


# --------------------------------------------------------------------------- (c) fault injection into the transaction
TX_PATHS = ["disk.add_pack", "disk.add_thin_pack", "disk.add_pack_data", "recv"]
TX_KIND = {"disk.add_pack": "add_pack", "disk.add_thin_pack": "add_thin_pack", "disk.add_pack_data": "add_pack_data", "recv": "add_thin_pack"}


def exc_menu(ctx):
    return ["EIO", "ENOSPC"] + ([] if ctx.quick else ["KeyboardInterrupt"])


def classify_input(path, ref):
    """input class of a scenario, read off its fault-free run"""
    ops = [(e["op"], e["role"]) for e in ref["trace"]]
    if ref["exc"] is None:
        return "none"
    if ("replace", "idx") in ops:
        return "validate"
    return "index" if path == "disk.add_pack" else "copy"


def tx_ref_cases(base):
    scen = L.tx_scenarios()
    return [{"id": base + i, "kind": "tx", "path": p, "scenario": sn, "k": None, "exc": None}
            for i, (p, sn) in enumerate((p, sn) for p in TX_PATHS for sn in scen)]


def _trailer_ok(data):
    import hashlib
    return len(data) >= 20 and hashlib.sha1(data[:-20]).digest() == data[-20:]


def tx_add(ctx, judge, c, r, inp):
    data = L.tx_scenarios()[c["scenario"]]
    tok = _trailer_ok(data)
    if r.get("killed"):
        o = {"outcome": "killed", "ordinary": False, "pre": [], "post": [], "bad": 0, "partialvisible": False,
             "trailerok": True, "rawpath": False, "ms": 0, "budget": BUDGET_MS}
        judge.add_event(o, {"site": SITE[c["path"]], "case": f"tx {c['scenario']} fault={c['exc']}@{c['k']}", "cls": "tx", "replay": {"case": c}, "ev": r})
        return
    at = "none" if c["k"] is None else (":".join(r["fired"]) if r["fired"] else "not-reached")
    o = judge.obs(r["event"], c["path"], trailer_ok=tok)
    judge.add_tx(TX_KIND[c["path"]], inp, r["trace"], o,
                 {"site": SITE[c["path"]], "case": f"tx {c['scenario']} fault={c['exc'] or 'none'}@{at}" if c["k"] is not None else f"tx {c['scenario']} fault=none",
                  "cls": "tx", "replay": {"case": c}, "ev": r["event"]})
    ctx.nontrivial(("tx", c["path"], c["scenario"], c["k"], c["exc"]))


def tx_fault_part(ctx, judge, refs):
    """refs: {case id: (case, result)} of the fault-free runs"""
    cases, inps = [], {}
    t0 = time.time()
    for cid, (c, r) in sorted(refs.items()):
        if r.get("killed"):
            tx_add(ctx, judge, c, r, {"bad": "none", "dup": False})
            continue
        bad_cls = classify_input(c["path"], r)
        inp = {"bad": bad_cls, "dup": c["scenario"] == "dup" and r["exc"] is None and not any(e["op"] == "rename" for e in r["trace"])}
        tx_add(ctx, judge, c, r, inp)
        elig = r["elig"]
        if len(elig) != r["ncalls"]:
            raise MachineryError(f"C04 tx {c['path']}/{c['scenario']}: eligible call count mismatch {len(elig)} != {r['ncalls']}")
        ks = list(range(len(elig)))
        if ctx.quick:
            # first / middle / last of each run of identical calls (the 270 buffered writes of an index are one run)
            pick, i = [], 0
            while i < len(elig):
                j = i
                while j + 1 < len(elig) and elig[j + 1] == elig[i]:
                    j += 1
                pick += sorted({i, (i + j) // 2, j})
                i = j + 1
            ks = pick
        for k in ks:
            for ename in exc_menu(ctx):
                fc = {"id": len(cases), "kind": "tx", "path": c["path"], "scenario": c["scenario"], "k": k, "exc": ename}
                cases.append(fc)
                inps[fc["id"]] = inp
    res = run_pool(ctx, cases, "txf")
    sample = None
    for fc in cases:
        r = res[fc["id"]]
        tx_add(ctx, judge, fc, r, inps[fc["id"]])
        if sample is None and not r.get("killed") and r.get("fired") == ["replace", "lock"]:
            sample = {"kind": "fault-injected transaction", "path": fc["path"], "scenario": fc["scenario"], "fault": f"{fc['exc']}@replace:idx",
                      "events": [f"{e['op']}:{e['role']}:{'ok' if e['ok'] else 'FAIL'}" for e in r["trace"]], "result": r["exc"]}
    ctx.count(len(cases) + len(refs))
    if sample:
        ctx.sample(sample)
    ctx.log(f"transaction: {len(refs)} fault-free + {len(cases)} fault-injected interposed ingestions "
            f"({len(TX_PATHS)} paths x {len(L.tx_scenarios())} inputs x fault positions x {len(exc_menu(ctx))} error kinds) in {time.time() - t0:.1f}s")


# --------------------------------------------------------------------------- verdicts -> report
def report(ctx, judged):
    junk_seen = {}
    nviol = 0
    for verdict, fail_at, drift_at, rec, metas in judged:
        for m in metas:
            ev = m.get("ev") or {}
            for j in ev.get("junk", []) or []:
                jk = re.sub(r"[0-9a-f]{40}", "<H>", re.sub(r"tmp[_\w]*", "tmp*", j))
                junk_seen[jk] = junk_seen.get(jk, 0) + 1
            if verdict != "ok":
                nviol += 1
                clause = verdict
                if clause == "Contained":
                    clause = "Contained:" + contained_detail(rec["o"], ev)
                sig = f"{m['site']}|{clause}|{m['case']}"
                what = (f"{clause} violated by {m['site']} on {m.get('shape') or m.get('mut') or m['case']}: outcome={rec['o']['outcome']} "
                        f"exc={ev.get('exc')} new_visible={len(set(rec['o']['post']) - set(rec['o']['pre']))} bad={rec['o']['bad']}")
                ctx.violation(sig, what, {"clause": clause, "record": rec, "meta": {k: v for k, v in m.items() if k != "replay"}, **m["replay"]})
            else:
                d = m.get("drift")
                if d:
                    ctx.drift_event(f"{m['site']} {m.get('shape', m['case'])}: {d}")
                elif rec["kind"] == "tx" and drift_at:
                    e = rec["ev"][drift_at - 1]
                    ctx.drift_event(f"{m['site']} {m['case']}: event {drift_at} {e['op']}:{e['role']}:{'ok' if e['ok'] else 'fail'} is not an Ingest step "
                                    f"(trace {[x['op'] + ':' + x['role'] for x in rec['ev']]})")
    ctx.cov["leftover_files_after_failed_ingestion (reported, invisible by the pack visibility rule)"] = junk_seen
    return nviol


# --------------------------------------------------------------------------- entry
def _pure_python():
    # the anchors are Python; the in-tree extension modules may be stale w.r.t. the working tree
    if not any(m == "dulwich" or m.startswith("dulwich.") for m in sys.modules):
        for m in ("dulwich._pack", "dulwich._objects", "dulwich._diff_tree"):
            sys.modules[m] = None


def run(ctx):
    _pure_python()
    from concurrent.futures import ThreadPoolExecutor
    judge = Judge(ctx)
    ncpu = os.cpu_count() or 4
    half = max(2, min(8, ncpu // 2 - 1))
    with ThreadPoolExecutor(max_workers=4) as tp:
        f_ing = tp.submit(ingest_models, ctx)
        f_pa = tp.submit(attack_models, ctx)
        # independent of TLC: byte-level damage, bombs, fault-free transaction runs
        dcases, dmeta, per_art = damage_cases(ctx, 0)
        bcases = [{"id": len(dcases), "kind": "bomb", "which": "pack-entry-overlong"}, {"id": len(dcases) + 1, "kind": "bomb", "which": "loose-overlong"}]
        rcases = tx_ref_cases(len(dcases) + 2)
        lcases = loose_bomb_cases(ctx, len(dcases) + 2 + len(rcases))
        fcases = fetch_cases(ctx, len(dcases) + 2 + len(rcases) + len(lcases))
        t0 = time.time()
        f_pool = tp.submit(run_pool, ctx, fcases + rcases + bcases + lcases + dcases, "dmg", half)
        shapes, neg, ex_a = f_pa.result()
        big = random_big_shapes(ctx, ctx.pick(60, 3000))
        acases, ameta = attack_cases(shapes, neg, big)
        f_git = tp.submit(git_opinion, ctx, shapes)
        t1 = time.time()
        ares = run_pool(ctx, acases, "atk", half)
        ctx.log(f"structural attacks: {len(shapes)} enumerated + {len(big)} random larger shapes x {len(ALL_PATHS)} paths executed in {time.time() - t1:.1f}s")
        attack_results(ctx, judge, acases, ameta, ares)
        dres = f_pool.result()
        nexec, ex_b = damage_results(ctx, judge, dcases, dmeta, per_art, dres)
        ctx.log(f"byte-level damage: {len(dcases)} mutated artefacts, {nexec} reads/ingestions (done {time.time() - t0:.1f}s after start)")
        bomb_results(ctx, judge, bcases, dres)
        loose_bomb_results(ctx, judge, lcases, dres)
        fetch_results(ctx, judge, fcases, dres)
        tx_fault_part(ctx, judge, {c["id"]: (c, dres[c["id"]]) for c in rcases})
        f_ing.result()
        f_git.result()
    t0 = time.time()
    judged = judge.judge()
    ctx.validated(judge.n)
    ctx.cov["distinct_event_records_judged_by_TLC"] = len(judged)
    ctx.log(f"IngestTrace judged {judge.n} executions as {len(judged)} distinct records in {time.time() - t0:.1f}s")
    report(ctx, judged)
    ctx.cov["rule"] = ("one execution = one (pack shape | mutated artefact | bomb | fault position) on one ingestion / read path of the real code; "
                       "distinct = distinct (input, path); all are non-trivial (each feeds a damaged or crafted input, or injects a fault)")
    ctx.assumptions += [
        "ordinary error = Exception subclass within the budget, not MemoryError/RecursionError; AssertionError only where it is dulwich's own error "
        "signalling (pack.py / index.py parsers; converted to an 'unpack' status by ReceivePackHandler) -- asserts vanish under python -O, which is not exercised",
        "time budget 2 s per call (retried once with 10 s before a timeout is reported; reading an installed pack also has a step budget of 2000 base look-ups); "
        "address space of a worker limited to 3 GiB: a MemoryError under that limit on an input of a few KiB counts",
        "self-consistency is judged for ingested objects (recomputed SHA-1 vs name, via a fresh reader), for artefacts whose reader verifies a checksum (index, loose object, pack index check()) "
        "and for the pack trailer on paths that are handed the raw pack; unverified reads through a damaged pack index (misnamed data, as in C git) are reported, not alarmed on",
        "loose-object bombs: both encodings x every route of the size limit x payload under/over x every loose read path; judged by returned size and the peak of "
        "traced allocations (tracemalloc) against the cap (over: refused and peak <= 2*cap + 8 MiB; the default 512 MiB cap is exceeded only in the thorough tier, "
        "a payload just under the default is not inflated)",
        "repeated access: every damaged packed-refs / index / pack index / commit-graph / multi-pack-index / bitmap and every installed attack or damaged pack is also "
        "asked the same questions twice on ONE long-lived handle (DiskRefsContainer, Index, DiskObjectStore, Pack), packed-refs followed by add_packed_refs: after a failed "
        "access the repeat must fail again or give the intact answer (RepeatObs); the first-access-only length/checksum test of Pack.data is tolerated because the repeat returns correct objects",
        "failed transfer: a deepening fetch (depth 2 on a depth-1 clone) over an in-process git:// server through TCPGitClient.fetch and porcelain.fetch, the pack "
        "stream damaged in transit at sampled (thorough: all) positions; FailedIngestInvisible is judged on the visible objects AND every file of the control directory "
        "outside objects/ (shallow, refs, packed-refs, HEAD, FETCH_HEAD, config); clone, pull, unshallow, HTTP and SSH transports are not driven",
        "a multi-pack-index is judged by 'object served hashes to the name asked for' for every object (also with each object's offset redirected to another object's); "
        "loose objects are judged the same way through store[...], get_raw and ShaFile.from_path",
        "a failing unlink of what the transaction itself installed (rollback) or of a lock file is not injected; leftover tmp_pack_*/tmp*.pack/.pack-without-.idx files are reported, not alarmed on",
        "SHA-1, zlib and CRC-32 come from the Python standard library (projection); attack deltas are valid deltas built by the harness; pure-Python dulwich (extension modules blocked)",
    ]
    return ctx.finish(exhaustive=bool(ex_a and ex_b and not ctx.quick))


def replay(ctx, path):
    _pure_python()
    obj = json.load(open(path))
    print(json.dumps({k: obj.get(k) for k in ("property", "signature", "what", "clause", "case")}, indent=1)[:3000])
    judge = Judge(ctx)
    ctx.known = []
    c = dict(obj["case"], id=0)
    site = obj.get("meta", {}).get("site", "?")
    case = obj.get("meta", {}).get("case", "?")
    if c["kind"] == "tx":
        ref = run_pool(ctx, [dict(c, k=None, exc=None)], "replay", nworkers=1)[0]
        inp = {"bad": classify_input(c["path"], ref), "dup": c["scenario"] == "dup" and ref["exc"] is None and not any(e["op"] == "rename" for e in ref["trace"])}
        r = ref if c.get("k") is None else run_pool(ctx, [c], "replay", nworkers=1)[0]
        print("re-executed events:", [f"{e['op']}:{e['role']}:{'ok' if e['ok'] else 'FAIL'}" for e in r["trace"]], "result:", r["exc"], r["msg"])
        ev = r["event"]
        print("visible before:", len(ev["pre"]), "after:", len(ev["post"]), "bad:", ev["bad"], "junk:", ev["junk"])
        tx_add(ctx, judge, c, r, inp)
    elif c["kind"] == "fetch":
        r = run_pool(ctx, [c], "replay", nworkers=1)
        print("re-executed:", json.dumps([{k: e.get(k) for k in ("mut", "outcome", "exc", "msg", "as_good")} | {"changed": sorted(set(e["pre"]) ^ set(e["post"]))}
                                          for e in r[0].get("events", [])], indent=1)[:3000])
        fetch_results(ctx, judge, [c], r)
    elif c["kind"] == "loosebomb":
        r = run_pool(ctx, [c], "replay", nworkers=1)
        print("re-executed:", json.dumps(r[0], indent=1, default=repr)[:2000])
        loose_bomb_results(ctx, judge, [c], r)
    else:
        r = run_pool(ctx, [c], "replay", nworkers=1)[0]
        print("re-executed:", json.dumps(r, indent=1, default=repr)[:4000])
        if r.get("killed"):
            return 1
        tok = obj.get("record", {}).get("o", {}).get("trailerok", True)
        for ev in r.get("events", []):
            p = ev["path"] if ev["path"] in SITE else "loose"
            bad = 1 if (c["kind"] == "bomb" and (ev["outcome"] == "ok" or r.get("rss_growth_kb", 0) > 24 * 1024)) else 0
            judge.add_event(judge.obs(dict(ev, pre=ev.get("pre", []), post=ev.get("post", [])), p, trailer_ok=tok, bad_extra=bad),
                            {"site": site, "case": case, "replay": {}, "ev": ev})
        if r.get("seq"):
            kind = L.artefacts()[c["art"]]["kind"]
            sq = r["seq"]
            judge.add_seq(judge.obs({"outcome": sq["outcome"], "exc": sq.get("exc"), "wall_ms": sq.get("wall_ms", 0)}, kind), sq["acc"],
                          {"site": site, "case": case, "replay": {}, "ev": sq})
        for ev in r.get("events", []):
            if ev.get("acc"):
                judge.add_seq(judge.obs(ev, "direct"), ev["acc"], {"site": site, "case": case, "replay": {}, "ev": ev})
        for rk, e in (r.get("reads") or {}).items():
            kind = L.artefacts()[c["art"]]["kind"]
            v = e.get("value")
            bad = 0
            if rk == "verified" and e["outcome"] == "ok":
                bad = 1 if kind == "idx" else (0 if (v and (v.get("hash_ok") or v.get("same"))) else 1)
            judge.add_event(judge.obs({"outcome": e["outcome"], "exc": e.get("exc"), "wall_ms": e.get("wall_ms", 0)}, kind, bad_extra=bad),
                            {"site": site, "case": case, "replay": {}, "ev": e})
    rc = 0
    for verdict, fail_at, drift_at, rec, metas in judge.judge("replay"):
        print(f"TLC verdict: {verdict} (failing event {fail_at}, drift at {drift_at}) on outcome={rec['o']['outcome']}")
        if verdict != "ok":
            rc = 1
    return rc

"""C01 -- object names are content hashes; serialisation is lossless and git-identical.

Specs: specs/ObjGrammar.tla (canonical serialisation of blob/tree/commit/tag at token level,
TLC enumerates the case spaces and the one-field-edit graph), specs/ObjGrammarTrace.tla (TLC judges
real field/byte pairs at byte level), specs/ObjFile.tla (+ObjFileTrace.tla: ShaFile dirty/cache
life cycle).  Binding:
  R  every enumerated grammar case: real object built from the field values (several setter
     orders) -> bytes and names equal the spec's rendering / hashlib; from_string -> fields equal;
     every one-field edit inside the space -> bytes/names equal the spec's edited case.  Tree codec
     in both implementations (pure Python, freshly built Rust).
  R  every transition of the ObjFile state graph replayed on real Blob/Tree/Commit/Tag objects.
  T  random/hypothesis objects and git-made objects judged by TLC (ObjGrammarTrace), random long
     life-cycle histories judged by TLC (ObjFileTrace).
  G  C git as third party: hash-object names, fsck --strict, cat-file; mktree/commit-tree/mktag
     produce the spec's bytes and dulwich re-serialises them byte-identically.
The main process never imports dulwich; real executions run in child processes
(harness/c01_exec.py) in "py" and "rs" mode.
"""
from __future__ import annotations

import json
import os
import subprocess
import sys

from .. import c01_lib as L
from .. import rustext, tlc
from ..core import VERIF, MachineryError

NPROC = 12


# ----------------------------------------------------------------------------- children
def spawn(ctx, jobs, label):
    """Run child jobs concurrently; returns their result dicts (same order)."""
    d = ctx.tmpdir("jobs")
    procs = []
    for i, job in enumerate(jobs):
        job = dict(job, out=os.path.join(d, f"res{i}.json"), seed=ctx.seed)
        path = os.path.join(d, f"job{i}.json")
        with open(path, "w") as f:
            json.dump(job, f)
        procs.append((job, path))
    results = [None] * len(procs)
    running = []
    todo = list(enumerate(procs))
    env = dict(os.environ)
    env["PYTHONPATH"] = VERIF + (os.pathsep + env["PYTHONPATH"] if env.get("PYTHONPATH") else "")
    while todo or running:
        while todo and len(running) < NPROC:
            i, (job, path) = todo.pop(0)
            p = subprocess.Popen([sys.executable, "-m", "harness.c01_exec", path], cwd=VERIF, env=env,
                                 stdout=subprocess.PIPE, stderr=subprocess.STDOUT, text=True)
            running.append((i, job, p))
        i, job, p = running.pop(0)
        out, _ = p.communicate()
        if p.returncode != 0 or not os.path.exists(job["out"]):
            raise MachineryError(f"{label}: child {i} failed rc={p.returncode}\n{out[-3000:]}")
        with open(job["out"]) as f:
            res = json.load(f)
        if not res.get("ok"):
            raise MachineryError(f"{label}: child {i} error\n{res.get('error')}")
        results[i] = res
    return results


# ----------------------------------------------------------------------------- failures -> violations
def describe(pools, kind, key):
    """Canonical short description of a case: deviation from the nearer base case."""
    if kind in ("commit", "tag"):
        fields = pools[kind + "Fields"]
        ix = [int(x) for x in key.split(",")]
        last = [len(pools[kind][f]) for f in fields]
        d1 = {f: i for f, i in zip(fields, ix) if i != 1}
        d2 = {f: i for f, i, l in zip(fields, ix, last) if i != l}
        base, d = ("first", d1) if len(d1) <= len(d2) else ("last", d2)
        return f"{kind}@{base}{{" + ",".join(f"{f}={i}" for f, i in sorted(d.items())) + "}", frozenset(d.items()), base
    if kind == "tree":
        parts = frozenset(key.split(" ")) if key else frozenset()
        return f"tree[{key}]", parts, "tree"
    return f"blob[{key}]", frozenset(), "blob"


def report_failures(ctx, pools, fails, phase):
    """Group by (site, clause); report only cases that are minimal (no failing case with a subset
    of the deviations) -- at most 3 per group."""
    groups = {}
    for f in fails:
        groups.setdefault((f["site"], f["clause"], f["kind"]), []).append(f)
    for (site, clause, kind), fs in sorted(groups.items()):
        items = []
        for f in fs:
            desc, dev, base = describe(pools, kind, f["key"])
            items.append((len(dev), desc, dev, base, f))
        items.sort(key=lambda x: (x[0], x[1]))
        kept = []
        for n, desc, dev, base, f in items:
            if any(b == base and d <= dev for (_, d, b) in kept):
                continue
            kept.append((desc, dev, base))
            if len(kept) > 3:
                break
            sig = f"{site}|{clause}|{desc}"
            what = (f"{phase}: {clause} on {desc} ({f['algo']} repository, {f['mode']} implementation): "
                    f"real result differs from the specification's rendering / hashlib {f.get('note', '')}")
            ctx.violation(sig, what, {"phase": phase, "failure": f})


# ----------------------------------------------------------------------------- phase 1: grammar
def phase_grammar(ctx, only=None):
    d = ctx.tmpdir("og")
    dump = os.path.join(d, "og")
    poolf = os.path.join(d, "pools.json")
    cfg = ctx.pick("ObjGrammar_quick.cfg", "ObjGrammar_thorough.cfg")
    res = tlc.run("ObjGrammar.tla", cfg, workers=8, dump_states=dump, env={"POOL_FILE": poolf},
                  timeout=ctx.pick(300, 1500))
    ctx.add_tlc(f"ObjGrammar[{cfg}] cases + one-field-edit graph, lemmas WellFormed/TreeSorted/OtherSegsStable/TreeEditLocal", res)
    pools = L.load_pools(poolf)
    ctx.pools, ctx.dump, ctx.poolf = pools, dump + ".dump", poolf
    table = {(k, key): toks for k, key, toks in L.read_dump(ctx.dump)}
    ctx.table = table
    if len(table) != res.distinct:
        raise MachineryError(f"dump has {len(table)} cases, TLC reported {res.distinct} states")
    ctx.log(f"ObjGrammar: {res.distinct} cases, {res.generated} states generated, {res.wall_s:.1f}s")
    # spec sanity (injectivity on each kind, except the documented aliases): different cases of one
    # kind that render to the same bytes would make 'parse returns the same values' ill-defined
    nshard = ctx.pick(8, NPROC)
    jobs = [{"task": "grammar", "mode": "py", "dump": ctx.dump, "pools": poolf, "shard": i, "nshards": nshard,
             "algos": list(L.ALGOS), "only": only} for i in range(nshard)]
    nrs = ctx.pick(3, 4)
    jobs += [{"task": "grammar", "mode": "rs", "dump": ctx.dump, "pools": poolf, "shard": i, "nshards": nrs,
              "algos": list(L.ALGOS), "kinds": ["tree"], "only": only} for i in range(nrs)]
    results = spawn(ctx, jobs, "grammar")
    fails = []
    tot = {}
    for r in results:
        fails += r["fail"]
        for k, v in r["n"].items():
            tot[k] = tot.get(k, 0) + v
        for s in r["samples"]:
            ctx.sample({"phase": "grammar", **s}, limit=3)
    ctx.count(tot.get("builds", 0) + tot.get("parses", 0) + tot.get("edits", 0))
    ctx.validated(tot.get("cases", 0))
    for (k, key) in table:
        ctx.nontrivial(("g", k, key))
    ctx.cov["grammar"] = {"cases": len(table), **tot, "failures": sum(r["nfail"] for r in results)}
    ctx.log(f"grammar replay: {tot} failures={sum(r['nfail'] for r in results)}")
    report_failures(ctx, pools, fails, "grammar")
    return pools


# ----------------------------------------------------------------------------- phase 2: life cycle
def plan_paths(ctx, g, budget, ext):
    """Behaviours (init, [(label, dst)...]) that together cover every transition of the graph g
    (or as many as the budget allows): shortest prefix to the edge, the edge, a short extension that
    prefers uncovered edges."""
    parent = {}
    order = []
    for i in sorted(g.init):
        parent[i] = None
        order.append(i)
    for n in order:
        for lab, dst in g.edges.get(n, []):
            if dst not in parent:
                parent[dst] = (n, lab)
                order.append(dst)

    def prefix_to(n):
        out = []
        while parent[n] is not None:
            p, lab = parent[n]
            out.append((p, lab, n))
            n = p
        return n, out[::-1]
    uncovered = {(s, lab, t) for s, es in g.edges.items() for (lab, t) in es}
    total = len(uncovered)
    all_edges = sorted(uncovered)
    ctx.rng.shuffle(all_edges)
    paths = []
    for e in all_edges:
        if e not in uncovered:
            continue
        if len(paths) >= budget:
            break
        init, pre = prefix_to(e[0])
        path = pre + [e]
        n = e[2]
        for _ in range(ext):
            outs = g.edges.get(n, [])
            if not outs:
                break
            cand = [(lab, t) for (lab, t) in outs if (n, lab, t) in uncovered] or outs
            lab, t = cand[ctx.rng.randrange(len(cand))]
            path.append((n, lab, t))
            n = t
        for x in path:
            uncovered.discard(x)
        paths.append((init, [(lab, t) for (_, lab, t) in path]))
    return paths, total, total - len(uncovered)


def phase_life(ctx):
    d = ctx.tmpdir("of")
    plans = {}
    # the graph of the Blob.chunked defect model (no invariants: only its shape is used, for the
    # state-by-state comparison while the defect is present in the code)
    keeps = os.path.join(d, "blob_keeps_sha.cfg")
    tlc.write_cfg(keeps, spec="Spec", constants={"NF": 1, "Vals": "{0, 1, 2}", "IsBlob": "TRUE", "SetterMarksDirty": "TRUE",
                                                "ChunkedResetsSha": "FALSE"})
    for name, cfg, budget in (("generic", "ObjFile_mc.cfg", ctx.pick(500, 100000)), ("blob", "ObjFile_blob.cfg", ctx.pick(200, 100000)),
                              ("blob_keeps_sha", keeps, ctx.pick(200, 100000))):
        dot = os.path.join(d, name + ".dot")
        res = tlc.run("ObjFile.tla", cfg, workers=4, dump_dot=dot, timeout=600, coverage=not ctx.quick)
        ctx.add_tlc(f"ObjFile[{os.path.basename(cfg)}]" + (" invariants TypeOK IdIsHash SerCurrent CacheCoherent" if cfg != keeps else " (shape of the defect model, no invariants)"), res)
        g = tlc.load_dot(dot)
        paths, total, covered = plan_paths(ctx, g, budget, ext=ctx.pick(6, 4))
        used = {i for (i, _) in paths} | {t for (_, st) in paths for (_, t) in st}
        plans[name] = {"nodes": {str(i): tlc.tlaval.to_py(g.nodes[i]) for i in used}, "paths": paths}
        ctx.cov.setdefault("life", {})[name] = {"states": len(g.nodes), "transitions": total, "behaviours": len(paths),
                                                "transitions_covered": covered}
        ctx.log(f"ObjFile {name}: {len(g.nodes)} states, {total} transitions, {len(paths)} behaviours cover {covered}")
    # negative controls: the invariants bite on the two defect models
    for cfg in ("ObjFile_stale.cfg", "ObjFile_chunked.cfg"):
        r = tlc.run("ObjFile.tla", cfg, workers=2, timeout=300)
        ctx.add_tlc(f"{cfg} (negative control: defect model must violate IdIsHash/SerCurrent)", r, require_ok=False)
        if not ({"IdIsHash", "SerCurrent"} & set(r.violated)):
            raise MachineryError(f"negative control {cfg} found no violation\n{r.output[-1500:]}")
    pf = os.path.join(d, "paths.json")
    with open(pf, "w") as f:
        json.dump(plans, f)
    pools = ctx.pools
    concs = []
    for algo in L.ALGOS:
        concs += [{"kind": "commit", "triple": t, "algo": algo} for t in pools["commitTriples"]]
        concs += [{"kind": "tag", "triple": t, "algo": algo} for t in pools["tagTriples"]]
        concs += [{"kind": "tree", "algo": algo}, {"kind": "blob", "algo": algo}]
    jobs = []
    for c in concs:
        modes = ["py", "rs"] if c["kind"] == "tree" else ["py"]
        for m in modes:
            jobs.append({"task": "life", "mode": m, "dump": ctx.dump, "pools": ctx.poolf, "paths": pf, "concs": [c],
                         "histories": ctx.pick(40, 1500), "history_len": ctx.pick(16, 24)})
    results = spawn(ctx, jobs, "life")
    tot = {}
    traces = []
    for r in results:
        for k, v in r["n"].items():
            tot[k] = tot.get(k, 0) + v
        for s in r["samples"]:
            ctx.sample({"phase": "life", **s}, limit=5)
        for dmsg in r["drift"][:3]:
            ctx.drift_event("life-cycle replay: " + dmsg)
        ctx.cov["drift"] += max(0, len(r["drift"]) - 3)
        for f in r["fail"]:
            sig = f"dulwich/objects.py:{f['cls']}|{f['clause']}|{f['conc']['algo']}:{f['scenario']}"
            what = (f"life cycle: after {f['scenario']} on a real {f['cls']} ({f['conc'].get('triple')}, {f['conc']['algo']}, "
                    f"{f['mode']}) the value read is not the one of the current fields ({f['clause']}): {f['detail'][:120]}")
            ctx.violation(sig, what, {"phase": "life", "failure": f})
        traces += r["traces"]
        if r.get("blob_model"):
            ctx.cov["life"]["blob_model_matching_code"] = r["blob_model"]
    ctx.count(tot.get("steps", 0))
    ctx.validated(tot.get("paths", 0))
    ctx.cov["life"]["replay"] = tot
    ctx.log(f"life-cycle replay: {tot}")
    return traces


# ----------------------------------------------------------------------------- entry
def run(ctx):
    rustext.build()
    phase_grammar(ctx)
    traces = phase_life(ctx)
    ctx.cov["rule"] = ("grammar: one case per TLC state of ObjGrammar (all commits/tags within Hamming distance Radius of two "
                       "base cases over the field pools, all trees up to TreeMax entries over the ordering universe and all "
                       "legal modes, blob chunkings); each is built, serialised, named (SHA-1 and SHA-256), parsed and edited on "
                       "the real classes; distinct = distinct (kind, case); every case is non-trivial (a full object)")
    ctx.assumptions += ["hashlib SHA-1/SHA-256 are trusted", "C git 2.39.5 is the only git version compared with",
                        "atoms (identities, lines, names) are opaque LF-free byte strings drawn from pools listed in harness/c01_lib.py"]
    return ctx.finish(exhaustive=False)


def replay(ctx, path):
    obj = json.load(open(path))
    print(json.dumps(obj, indent=1)[:6000])
    ctx.known = []
    rustext.build()
    f = obj.get("failure", {})
    if obj.get("phase") == "grammar":
        phase_grammar(ctx, only=[[f["kind"], f["key"]]])
    return 1 if ctx.violations else 0

"""C01 -- object names are content hashes; serialisation is lossless and git-identical.

Specs: specs/ObjGrammar.tla (canonical serialisation of blob/tree/commit/tag at token level,
TLC enumerates the case spaces and the one-field-edit graph), specs/ObjGrammarTrace.tla (TLC judges
real field/byte pairs at byte level), specs/ObjFile.tla (+ObjFileTrace.tla: ShaFile dirty/cache
life cycle).  Binding:
  R  every enumerated grammar case: real object built from the field values (several setter
     orders) -> bytes and names equal the spec's rendering / hashlib; from_string -> fields equal;
     every one-field edit inside the space -> bytes/names equal the spec's edited case.  Tree codec
     in both implementations (pure Python, freshly built Rust).
  R  every transition of the ObjFile state graph replayed on real Blob/Tree/Commit/Tag objects: setters,
     .id, explicit get_id(F)/sha(F) for both formats on objects whose cached name is fixed in either
     format (before and after edits), copy, check, reload; plus the store-level form (DiskObjectStore
     of format A -> lookup -> names in both formats -> store of format B -> lookup), all four (A, B).
  T  random/hypothesis objects and git-made objects judged by TLC (ObjGrammarTrace), random long
     life-cycle histories judged by TLC (ObjFileTrace).
  G  C git as third party: hash-object names, fsck --strict, cat-file; mktree/commit-tree/mktag
     produce the spec's bytes and dulwich re-serialises them byte-identically.
The main process never imports dulwich; real executions run in child processes
(harness/c01_exec.py) in "py" and "rs" mode.
"""
from __future__ import annotations

import json
import os
import subprocess
import sys

from .. import c01_lib as L
from .. import rustext, tlc
from ..core import VERIF, MachineryError

NPROC = 12


# ----------------------------------------------------------------------------- children
def spawn(ctx, jobs, label):
    """Run child jobs concurrently; returns their result dicts (same order)."""
    d = ctx.tmpdir("jobs")
    procs = []
    for i, job in enumerate(jobs):
        job = dict(job, out=os.path.join(d, f"res{i}.json"), seed=ctx.seed)
        path = os.path.join(d, f"job{i}.json")
        with open(path, "w") as f:
            json.dump(job, f)
        procs.append((job, path))
    results = [None] * len(procs)
    running = []
    todo = list(enumerate(procs))
    env = dict(os.environ)
    env["PYTHONPATH"] = VERIF + (os.pathsep + env["PYTHONPATH"] if env.get("PYTHONPATH") else "")
    while todo or running:
        while todo and len(running) < NPROC:
            i, (job, path) = todo.pop(0)
            p = subprocess.Popen([sys.executable, "-m", "harness.c01_exec", path], cwd=VERIF, env=env,
                                 stdout=subprocess.PIPE, stderr=subprocess.STDOUT, text=True)
            running.append((i, job, p))
        i, job, p = running.pop(0)
        out, _ = p.communicate()
        if p.returncode != 0 or not os.path.exists(job["out"]):
            raise MachineryError(f"{label}: child {i} failed rc={p.returncode}\n{out[-3000:]}")
        with open(job["out"]) as f:
            res = json.load(f)
        if not res.get("ok"):
            raise MachineryError(f"{label}: child {i} error\n{res.get('error')}")
        results[i] = res
    return results


# ----------------------------------------------------------------------------- failures -> violations
def describe(pools, kind, key):
    """Canonical short description of a case: deviation from the nearer base case."""
    if kind in ("commit", "tag"):
        fields = pools[kind + "Fields"]
        ix = [int(x) for x in key.split(",")]
        last = [len(pools[kind][f]) for f in fields]
        d1 = {f: i for f, i in zip(fields, ix) if i != 1}
        d2 = {f: i for f, i, l in zip(fields, ix, last) if i != l}
        nb = {"message": 2, "blank": 2}
        d3 = {f: i for f, i in zip(fields, ix) if i != nb.get(f, 1)}
        base, d = ("first", d1) if len(d1) <= len(d2) else ("last", d2)
        if dict(zip(fields, ix))["blank"] == 2:
            base, d = "noblank", d3
        return f"{kind}@{base}{{" + ",".join(f"{f}={i}" for f, i in sorted(d.items())) + "}", frozenset(d.items()), base
    if kind == "tree":
        parts = frozenset(key.split(" ")) if key else frozenset()
        return f"tree[{key}]", parts, "tree"
    return f"blob[{key}]", frozenset(), "blob"


def report_failures(ctx, pools, fails, phase):
    """Group by (site, clause); report only cases that are minimal (no failing case with a subset
    of the deviations) -- at most 3 per group."""
    groups = {}
    for f in fails:
        groups.setdefault((f["site"], f["clause"], f["kind"]), []).append(f)
    for (site, clause, kind), fs in sorted(groups.items()):
        items = []
        for f in fs:
            desc, dev, base = describe(pools, kind, f["key"])
            items.append((len(dev), desc, dev, base, f))
        items.sort(key=lambda x: (x[0], x[1]))
        kept = []
        for n, desc, dev, base, f in items:
            if any(b == base and d <= dev for (_, d, b) in kept):
                continue
            kept.append((desc, dev, base))
            if len(kept) > 3:
                break
            sig = f"{site}|{clause}|{desc}"
            what = (f"{phase}: {clause} on {desc} ({f['algo']} repository, {f['mode']} implementation): "
                    f"real result differs from the specification's rendering / hashlib {f.get('note', '')}")
            ctx.violation(sig, what, {"phase": phase, "failure": f})


# ----------------------------------------------------------------------------- phase 1: grammar
def phase_grammar(ctx, only=None, edits=True):
    d = ctx.tmpdir("og")
    dump = os.path.join(d, "og")
    poolf = os.path.join(d, "pools.json")
    cfg = ctx.pick("ObjGrammar_quick_cases.cfg", "ObjGrammar_thorough_cases.cfg")
    # Initial states are computed by one thread in TLC: the thorough tier enumerates the commit space in
    # two halves (Part 1, 2) and the other kinds in a third TLC process, side by side; same module, same
    # constants otherwise.  The dumps are concatenated (a case that is in both halves is the same state).
    import re
    import threading
    from ..tlc import SPECS
    base = open(os.path.join(SPECS, cfg)).read()
    variants = [("all", None, 0)] if ctx.quick or only is not None else \
        [("commit-1", '{"commit"}', 1), ("commit-2", '{"commit"}', 2), ("tag-tree-blob", '{"tag", "tree", "blob"}', 0)]
    runs = {}

    def cases_run(name, kinds, part):
        text = base
        if kinds:
            text = re.sub(r"Kinds = .*", "Kinds = " + kinds, text)
            text = re.sub(r"Part = .*", f"Part = {part}", text)
        path = os.path.join(d, f"cases-{name}.cfg")
        with open(path, "w") as f:
            f.write(text)
        runs[name] = tlc.run("ObjGrammar.tla", path, workers=ctx.pick(8, 3), dump_states=os.path.join(d, "og-" + name),
                             env={"POOL_FILE": poolf if name in ("all", "commit-1") else os.path.join(d, "pools-" + name + ".json")},
                             timeout=ctx.pick(300, 1500))
    ths = [threading.Thread(target=cases_run, args=v) for v in variants]
    for t in ths:
        t.start()
    for t in ths:
        t.join()
    ndist = 0
    with open(dump + ".dump", "w") as out:
        for name, _, _ in variants:
            r = runs.get(name)
            if r is None:
                raise MachineryError(f"TLC run {name} did not return")
            ctx.add_tlc(f"ObjGrammar[{cfg} {name}] enumeration of the cases with their token sequences; WellFormed, TreeSorted", r)
            ndist += r.distinct
            with open(os.path.join(d, "og-" + name + ".dump")) as f:
                out.write(f.read())
    res = runs[variants[0][0]]
    # the one-field-edit graph over the same cases (lemmas OtherSegsStable, TreeEditLocal) is explored
    # by a second TLC while the children replay the cases
    ecfg = ctx.pick("ObjGrammar_quick_edits.cfg", "ObjGrammar_thorough_edits.cfg")
    box = {}

    def edits_run():
        box["res"] = tlc.run("ObjGrammar.tla", ecfg, workers=ctx.pick(4, 8), timeout=ctx.pick(300, 1500))
    th = threading.Thread(target=edits_run)
    if edits:
        th.start()
    ctx.edit_thread = (th, box, ecfg)
    pools = L.load_pools(poolf)
    ctx.pools, ctx.dump, ctx.poolf = pools, dump + ".dump", poolf
    table = {(k, key): toks for k, key, toks in L.read_dump(ctx.dump)}
    ctx.table = table
    if len(table) > ndist or (len(variants) == 1 and len(table) != ndist):
        raise MachineryError(f"dump has {len(table)} cases, TLC reported {ndist} states")
    ctx.log(f"ObjGrammar: {len(table)} cases ({ndist} states in {len(variants)} TLC run(s)), {max(r.wall_s for r in runs.values()):.1f}s")
    # spec sanity (injectivity on each kind, except the documented aliases): different cases of one
    # kind that render to the same bytes would make 'parse returns the same values' ill-defined
    nshard = ctx.pick(8, NPROC)
    jobs = [{"task": "grammar", "mode": "py", "dump": ctx.dump, "pools": poolf, "shard": i, "nshards": nshard,
             "algos": list(L.ALGOS), "only": only} for i in range(nshard)]
    nrs = ctx.pick(3, 4)
    jobs += [{"task": "grammar", "mode": "rs", "dump": ctx.dump, "pools": poolf, "shard": i, "nshards": nrs,
              "algos": list(L.ALGOS), "kinds": ["tree"], "only": only} for i in range(nrs)]
    results = spawn(ctx, jobs, "grammar") if only != [] else []
    fails = []
    tot = {}
    for r in results:
        fails += r["fail"]
        for k, v in r["n"].items():
            tot[k] = tot.get(k, 0) + v
        for s in r["samples"]:
            ctx.sample({"phase": "grammar", **s}, limit=3)
    ctx.count(tot.get("builds", 0) + tot.get("parses", 0) + tot.get("edits", 0) + tot.get("rewrites", 0))
    ctx.validated(tot.get("cases", 0))
    for (k, key) in table:
        ctx.nontrivial(("g", k, key))
    ctx.cov["grammar"] = {"cases": len(table), **tot, "failures": sum(r["nfail"] for r in results)}
    ctx.grammar_fails = fails
    ctx.log(f"grammar replay: {tot} failures={sum(r['nfail'] for r in results)}")
    report_failures(ctx, pools, fails, "grammar")
    ctx.n_cases = len(table)
    return pools


def finish_edit_graph(ctx):
    th, box, ecfg = ctx.edit_thread
    th.join()
    eres = box.get("res")
    if eres is None:
        raise MachineryError("TLC run of the edit graph did not return")
    ctx.add_tlc(f"ObjGrammar[{ecfg}] one-field-edit graph; OtherSegsStable (+ every edit changes the bytes unless it is the same object), TreeEditLocal, WellFormed, TreeSorted", eres)
    if eres.distinct != ctx.n_cases:
        raise MachineryError(f"edit graph has {eres.distinct} states, case enumeration {ctx.n_cases}")


# ----------------------------------------------------------------------------- phase 2: life cycle
def plan_paths(ctx, g, budget, ext):
    """Behaviours (init, [(label, dst)...]) that together cover every transition of the graph g
    (or as many as the budget allows): shortest prefix to the edge, the edge, a short extension that
    prefers uncovered edges."""
    parent = {}
    order = []
    for i in sorted(g.init):
        parent[i] = None
        order.append(i)
    for n in order:
        for lab, dst in g.edges.get(n, []):
            if dst not in parent:
                parent[dst] = (n, lab)
                order.append(dst)

    def prefix_to(n):
        out = []
        while parent[n] is not None:
            p, lab = parent[n]
            out.append((p, lab, n))
            n = p
        return n, out[::-1]
    uncovered = {(s, lab, t) for s, es in g.edges.items() for (lab, t) in es}
    total = len(uncovered)
    all_edges = sorted(uncovered)
    ctx.rng.shuffle(all_edges)
    # a quarter of the budget goes first to "read of an object that cannot be serialised" (each such
    # behaviour is then extended by further reads: asked again), the rest is a random cover
    first = [e for e in all_edges if e[1] == "FailedRead"][:max(1, budget // 4)]
    fs = set(first)
    all_edges = first + [e for e in all_edges if e not in fs]
    paths = []
    for e in all_edges:
        if e not in uncovered:
            continue
        if len(paths) >= budget:
            break
        init, pre = prefix_to(e[0])
        path = pre + [e]
        n = e[2]
        for _ in range(ext):
            outs = g.edges.get(n, [])
            if not outs:
                break
            cand = [(lab, t) for (lab, t) in outs if (n, lab, t) in uncovered] or outs
            lab, t = cand[ctx.rng.randrange(len(cand))]
            path.append((n, lab, t))
            n = t
        for x in path:
            uncovered.discard(x)
        paths.append((init, [(lab, t) for (_, lab, t) in path]))
    return paths, total, total - len(uncovered)


class Bg:
    """A phase (or a TLC run) in a background thread; an exception is re-raised at join()."""

    def __init__(self, fn, *args):
        import threading
        self.out, self.err = None, None

        def body():
            try:
                self.out = fn(*args)
            except BaseException as e:  # noqa: BLE001
                self.err = e
        self.th = threading.Thread(target=body, daemon=True)
        self.th.start()

    def join(self):
        self.th.join()
        if self.err is not None:
            raise self.err
        return self.out


NEG_CONTROLS = ("ObjFile_stale.cfg", "ObjFile_chunked.cfg", "ObjFile_sha1cache.cfg", "ObjFile_dirtyfirst.cfg")


def objfile_runs(ctx):
    """All TLC runs of ObjFile side by side (they are independent of everything else): the three state
    graphs and the negative controls.  Returns {name: TlcResult}, dot files in the returned directory."""
    d = ctx.tmpdir("of")
    # the graph of the Blob.chunked defect model (no invariants: only its shape is used, for the
    # state-by-state comparison while that defect is present in the code)
    keeps = os.path.join(d, "blob_keeps_sha.cfg")
    tlc.write_cfg(keeps, spec="Spec", constants={"NF": 1, "Vals": "{0, 1, 2}", "IsBlob": "TRUE", "SetterMarksDirty": "TRUE",
                                                "ChunkedResetsSha": "FALSE", "ExplicitSha1Recomputes": "TRUE",
                                                "DirtyUntilSerialized": "TRUE"})
    graphs = {"generic": "ObjFile_mc.cfg", "blob": "ObjFile_blob.cfg", "blob_keeps_sha": keeps}
    bgs = {n: Bg(lambda n=n, c=c: tlc.run("ObjFile.tla", c, workers=ctx.pick(2, 4), dump_dot=os.path.join(d, n + ".dot"), timeout=600,
                                        coverage=not ctx.quick)) for n, c in graphs.items()}
    bgs.update({c: Bg(lambda c=c: tlc.run("ObjFile.tla", c, workers=2, timeout=300)) for c in NEG_CONTROLS})
    return d, keeps, {n: b.join() for n, b in bgs.items()}


def phase_life(ctx, objfile):
    d, keeps, runs = objfile.join()
    plans = {}
    for name, cfg, budget in (("generic", "ObjFile_mc.cfg", ctx.pick(450, 100000)), ("blob", "ObjFile_blob.cfg", ctx.pick(200, 100000)),
                              ("blob_keeps_sha", keeps, ctx.pick(200, 100000))):
        dot = os.path.join(d, name + ".dot")
        res = runs[name]
        ctx.add_tlc(f"ObjFile[{os.path.basename(cfg)}]" + (" invariants TypeOK IdIsHash SerCurrent CacheCoherent" if cfg != keeps else " (shape of the defect model, no invariants)"), res)
        g = tlc.load_dot(dot)
        paths, total, covered = plan_paths(ctx, g, budget, ext=ctx.pick(6, 3))
        used = {i for (i, _) in paths} | {t for (_, st) in paths for (_, t) in st}
        plans[name] = {"nodes": {str(i): tlc.tlaval.to_py(g.nodes[i]) for i in used}, "paths": paths}
        ctx.cov.setdefault("life", {})[name] = {"states": len(g.nodes), "transitions": total, "behaviours": len(paths),
                                                "transitions_covered": covered}
        ctx.log(f"ObjFile {name}: {len(g.nodes)} states, {total} transitions, {len(paths)} behaviours cover {covered}")
    # negative controls: the invariants bite on the defect models (forgetful setter, Blob.chunked keeps the
    # sha, an explicit SHA-1 request answered from the cache)
    for cfg in NEG_CONTROLS:
        r = runs[cfg]
        ctx.add_tlc(f"{cfg} (negative control: defect model must violate IdIsHash/SerCurrent)", r, require_ok=False)
        if not ({"IdIsHash", "SerCurrent", "NoStaleAfterFailure"} & set(r.violated)):
            raise MachineryError(f"negative control {cfg} found no violation\n{r.output[-1500:]}")
    pf = os.path.join(d, "paths.json")
    with open(pf, "w") as f:
        json.dump(plans, f)
    pools = ctx.pools
    concs = []
    for algo in L.ALGOS:
        concs += [{"kind": "commit", "triple": t, "algo": algo} for t in pools["commitTriples"]]
        concs += [{"kind": "tag", "triple": t, "algo": algo} for t in pools["tagTriples"]]
        concs += [{"kind": "tree", "algo": algo}, {"kind": "blob", "algo": algo}]
    jobs = []
    for c in concs:
        modes = ["py", "rs"] if c["kind"] == "tree" else ["py"]
        # thorough: every transition of the graph on the first field triple of each kind (and on trees and
        # blobs), per algorithm; the other triples replay a prefix of the same (shuffled) behaviour list
        full = c["kind"] in ("tree", "blob") or c["triple"] == pools[c["kind"] + "Triples"][0]
        for m in modes:
            jobs.append({"task": "life", "mode": m, "dump": ctx.dump, "pools": ctx.poolf, "paths": pf, "concs": [c],
                         "path_limit": None if (ctx.quick or (full and m == "py")) else 6000,
                         "histories": ctx.pick(30, 1000), "history_len": ctx.pick(16, 24)})
    jobs.append({"task": "life", "mode": "py", "dump": ctx.dump, "pools": ctx.poolf, "store": True, "tmp": ctx.tmpdir("st")})
    results = spawn(ctx, jobs, "life")
    tot = {}
    traces = []
    for r in results:
        for f in r.get("store_fail", []):
            # smallest description per clause: the clause itself names formats and what went wrong
            sig = f"dulwich/object_store.py:DiskObjectStore+dulwich/objects.py:ShaFile.sha|store {f['clause']}|{f['kind']}"
            ctx.violation(sig, f"store level: a {f['kind']} read from a {f['pair'][0]} DiskObjectStore (carrying the name it was found by) and added "
                               f"to a {f['pair'][1]} store: {f['clause']} {f['note']}", {"phase": "store", "failure": f})
        for k, v in r["n"].items():
            tot[k] = tot.get(k, 0) + v
        for s in r["samples"]:
            ctx.sample({"phase": "life", **s}, limit=5)
        for dmsg in r["drift"][:3]:
            ctx.drift_event("life-cycle replay: " + dmsg)
        ctx.cov["drift"] += max(0, len(r["drift"]) - 3)
        for f in r["fail"]:
            sig = f"dulwich/objects.py:{f['cls']}|{f['clause']}|{f['conc']['algo']}:{f['scenario']}"
            what = (f"life cycle: after {f['scenario']} on a real {f['cls']} ({f['conc'].get('triple')}, {f['conc']['algo']}, "
                    f"{f['mode']}) the value read is not the one of the current fields ({f['clause']}): {f['detail'][:120]}")
            ctx.violation(sig, what, {"phase": "life", "failure": f})
        traces += r["traces"]
        if r.get("blob_model"):
            ctx.cov["life"]["blob_model_matching_code"] = r["blob_model"]
    ctx.count(tot.get("steps", 0))
    ctx.validated(tot.get("paths", 0))
    ctx.cov["life"]["replay"] = tot
    ctx.log(f"life-cycle replay: {tot}")
    return traces


# ----------------------------------------------------------------------------- phase 3: TLC judges recorded executions
OPNAME = {"Set": "set", "AsRaw": "raw", "ReadId": "id", "ReadIdF": "idF", "Copy": "copy", "Check": "check",
          "SetRaw": "setraw", "SetChunked": "chunked", "Reload": "reload", "Spoil": "spoil", "Unspoil": "unspoil",
          "FailedRead": "fail"}


def _val(v):
    if v is None:
        return []
    if v == "other":
        return [-1]
    return list(v)


def life_trace(tid, t):
    ev = []
    for e in t["ev"]:
        op, a = e["op"], e["args"]
        rec = {"op": OPNAME[op], "f": 0, "x": 0, "v": [], "ret": _val(e["ret"]), "rfmt": e.get("rfmt", 0),
               "fields": _val(e["st"]["fields"]), "dirty": e["st"]["dirty"], "text": _val(e["st"]["text"]),
               "shak": e["st"]["sha"][0], "shav": _val(e["st"]["sha"][1]), "shaf": e["st"]["sha"][2],
               "err": bool(e.get("err", False)), "bad": bool(e["st"].get("bad", False))}
        if op == "Set":
            rec["f"], rec["x"] = a
        elif op == "SetRaw":
            rec["v"], rec["f"] = list(a[0]), int(a[1])
        elif op == "SetChunked":
            rec["v"] = list(a[0])
        elif op in ("Reload", "ReadIdF"):
            rec["f"] = int(a[0])
        ev.append(rec)
    return {"tid": tid, "origin": t["origin"], "ofmt": t.get("ofmt", 0), "v0": list(t["v0"]), "ev": ev}


def tlc_verdicts(ctx, spec, cfg, path, label, n):
    res = tlc.run(spec, cfg, workers=1, timeout=1800, env={"TRACE_FILE": path})
    ctx.add_tlc(label, res, require_ok=False)
    out = {}
    for line in res.output.splitlines():
        if line.startswith('<<"VERDICT"'):
            v = tlc.tlaval.parse(line.strip())
            cur = out.get(v[1])
            if cur is None or (cur[2] == "ok" and v[2] != "ok"):
                out[v[1]] = v
    if not res.completed or len(out) != n:
        raise MachineryError(f"{label}: trace validation incomplete ({len(out)}/{n} verdicts)\n{res.output[-3000:]}")
    return out


def phase_life_traces(ctx, traces):
    d = ctx.tmpdir("lt")
    groups = {"generic": [], "blob": []}
    for t in traces:
        groups["blob" if t["kind"] == "blob" else "generic"].append(t)
    keeps = "Keeps" in ctx.cov["life"].get("blob_model_matching_code", "")
    cfgs = {"generic": "ObjFileTrace_generic.cfg", "blob": "ObjFileTrace_blob_keeps_sha.cfg" if keeps else "ObjFileTrace_blob.cfg"}
    tid = 0
    nval = 0
    for g, ts in groups.items():
        if not ts:
            continue
        path = os.path.join(d, g + ".ndjson")
        index = {}
        with open(path, "w") as f:
            for t in ts:
                tid += 1
                index[tid] = t
                f.write(json.dumps(life_trace(tid, t), separators=(",", ":")) + "\n")
        verdicts = tlc_verdicts(ctx, "ObjFileTrace.tla", cfgs[g], path, f"ObjFileTrace[{cfgs[g]}] {len(ts)} recorded histories", len(ts))
        for k, t in index.items():
            _, _, verdict, fail_at, drift_at = verdicts[k]
            nval += 1
            ctx.nontrivial(("lt", t["conc"], t["origin"], tuple(t["v0"]), json.dumps(t["ops"])))
            oracle_bad = any(not c.startswith("exception") for (_, c) in t["fails"])
            if (verdict != "ok") != oracle_bad:
                # two judges: TLC (ghost fields follow ObjFile, e.g. check() re-parses the text) and the
                # harness oracle (what the setters were called with).  Either one flags the history.
                ctx.cov["life"]["judges_disagree"] = ctx.cov["life"].get("judges_disagree", 0) + 1
            if verdict != "ok" or t["fails"]:
                clause = t["fails"][0][1] if t["fails"] else verdict
                cls = {"commit": "Commit", "tag": "Tag", "tree": "Tree", "blob": "Blob"}[t["kind"]]
                sig = f"dulwich/objects.py:{cls}|{clause}|{t['algo']}:{t['scenario']}"
                ctx.violation(sig, f"recorded history rejected by ObjFileTrace ({verdict} at event {fail_at}): {t['scenario']} on {t['conc']}",
                              {"phase": "life-trace", "trace": t})
            elif drift_at:
                ctx.drift_event(f"recorded history {t['conc']} {t['origin']}: event {drift_at} is not an ObjFile step")
    ctx.validated(nval)
    ctx.cov["life"]["histories_validated"] = nval
    ctx.log(f"ObjFileTrace: {nval} recorded histories validated")


def phase_fuzz(ctx):
    d = ctx.tmpdir("fz")
    n_py, n_rs = ctx.pick(3, 12), ctx.pick(1, 3)
    per = ctx.pick(500, 5000)
    jobs = [{"task": "fuzz", "mode": "py", "shard": i, "count": per, "traces": os.path.join(d, f"py{i}.ndjson")} for i in range(n_py)]
    jobs += [{"task": "fuzz", "mode": "rs", "shard": 100 + i, "count": per, "traces": os.path.join(d, f"rs{i}.ndjson")} for i in range(n_rs)]
    results = spawn(ctx, jobs, "fuzz")
    # children are done; TLC judges every (fields, bytes) pair -- several TLC processes side by side
    import concurrent.futures as cf
    def judge(job_res):
        job, r = job_res
        return tlc_verdicts_quiet(job["traces"], r["n"]["traces"])
    with cf.ThreadPoolExecutor(max_workers=8) as ex:
        outs = list(ex.map(judge, zip(jobs, results)))
    total = 0
    for job, r, (res, verdicts) in zip(jobs, results, outs):
        ctx.add_tlc(f"ObjGrammarTrace[fuzz {job['mode']} shard {job['shard']}] {r['n']['traces']} (fields, bytes) pairs", res, require_ok=False)
        for tid, v in verdicts.items():
            total += 1
            if v[2] != "ok":
                m = r["meta"].get(str(tid), {})
                if v[2] == "illformed":
                    raise MachineryError(f"fuzz generator produced a case outside the canonical domain: {m}")
                site = "dulwich/objects.py:Tree._serialize+crates/objects/src/lib.rs:sorted_tree_items" if job["mode"] == "rs" else f"dulwich/objects.py:{m.get('kind')}._serialize"
                sig = f"{site}|bytes-differ-from-spec:{m.get('what')}|{m.get('kind')} seed={ctx.seed} shard={m.get('shard')} n={m.get('n')}"
                ctx.violation(sig, f"TLC (ObjGrammarTrace): as_raw_string() of a random {m.get('kind')} ({m.get('what')}) differs from Ser(fields) at byte {v[3]}",
                              {"phase": "fuzz", "meta": m, "job": {k: job[k] for k in ("mode", "shard", "count")}})
        for f in r["fail"]:
            sig = f"{f['site']}|{f['clause']}|{f['kind']} seed={ctx.seed} shard={f['shard']} n={f['n']}"
            ctx.violation(sig, f"random {f['kind']} ({f['algo']}, {f['mode']}): {f['clause']} {f['note'][:200]}", {"phase": "fuzz", "failure": f})
        ctx.count(r["n"]["objects"])
    ctx.validated(total)
    ctx.cov["fuzz"] = {"pairs_judged_by_tlc": total}
    for i in range(total):
        pass
    ctx._nontrivial.update(("fz", i) for i in range(total))     # every random object is a full object; distinct by construction (seeded stream)
    ctx.log(f"ObjGrammarTrace: {total} (fields, bytes) pairs of random objects judged")


def tlc_verdicts_quiet(path, n):
    res = tlc.run("ObjGrammarTrace.tla", "ObjGrammarTrace.cfg", workers=1, timeout=1800, env={"TRACE_FILE": path},
                  java_opts=["-Xmx2g"])
    out = {}
    for line in res.output.splitlines():
        if line.startswith('<<"VERDICT"'):
            v = tlc.tlaval.parse(line.strip())
            out[v[1]] = v
    if not res.completed or len(out) != n:
        raise MachineryError(f"ObjGrammarTrace: incomplete ({len(out)}/{n} verdicts)\n{res.output[-3000:]}")
    return res, out


# ----------------------------------------------------------------------------- phase 4: C git as third party
CRUD = b".,:;<>\"\\'"


def _strip_crud(b):
    """What git's ident code removes from both ends of a name / e-mail."""
    i, j = 0, len(b)
    while i < j and (b[i] <= 32 or b[i] in CRUD):
        i += 1
    while j > i and (b[j - 1] <= 32 or b[j - 1] in CRUD):
        j -= 1
    return b[i:j]


def git_made(ctx, repo, n_commits, n_tags, n_trees, stub):
    """Let git itself make objects from known field values: commit-tree, tag -a, mktree.
    Returns records {kind, algo, fields F (concrete), bytes, id, src}."""
    from .. import c01_fuzz as Z
    from .. import c01_git as G
    algo = repo.algo
    rng = __import__("random").Random(f"{ctx.seed}/gitmade/{algo}")
    g = Z.Gen(rng, algo)
    recs, skipped = [], 0

    def ident():
        while True:
            name = _strip_crud(g.bytes_(1, 12, exclude=b"\n\0<>"))
            email = _strip_crud(g.bytes_(1, 12, exclude=b"\n\0<> "))
            if name and email:
                return name, email

    def date():
        t = rng.choice([0, 1, 1234567890, 2 ** 31, 2 ** 32 + 5, 10 ** 9, 2 ** 40, 2 ** 62]) if rng.random() < 0.7 else rng.randrange(0, 2 ** 62)
        hh, mm = rng.randrange(0, 100), rng.randrange(0, 60)
        if rng.random() < 0.3:
            hh, mm = 0, 0
        sign = rng.choice("+-") if (hh or mm) else "+"
        off = (hh * 3600 + mm * 60) * (-1 if sign == "-" else 1)
        return t, off, f"@{t} {sign}{hh:02d}{mm:02d}"

    def text(allow_empty=True):
        m = g.text(maxlines=4, allow_none=allow_empty, marker_free=True)
        return None if m is None else m.replace(b"\0", b"0")

    for i in range(n_commits):
        an, ae = ident()
        cn, ce = ident()
        at, aoff, ad = date()
        ct, coff, cd = date()
        parents = rng.sample([L.HEX[algo][k] for k in (3, 4, 5)], rng.choice([0, 1, 1, 2, 3]))
        tree = L.HEX[algo][rng.choice([1, 2])]
        msg = text()
        enc = rng.choice([None, None, b"ISO-8859-1", b"latin1x"])
        if enc is None:
            # without an encoding header git commit-tree rewrites bytes that are not valid UTF-8
            # (verify_utf8 transcodes them from Latin-1); such inputs get an explicit encoding
            try:
                for part in (an, ae, cn, ce, msg or b""):
                    part.decode("utf-8")
            except UnicodeDecodeError:
                enc = b"ISO-8859-1"
        signed = rng.random() < 0.3
        env = {"GIT_AUTHOR_NAME": an, "GIT_AUTHOR_EMAIL": ae, "GIT_AUTHOR_DATE": ad,
               "GIT_COMMITTER_NAME": cn, "GIT_COMMITTER_EMAIL": ce, "GIT_COMMITTER_DATE": cd}
        args = []
        if enc:
            args += ["-c", "i18n.commitEncoding=" + enc.decode()]
        if signed:
            args += ["-c", "gpg.program=" + stub["prog"]]
            kind_sig = rng.choice(["PGP", "SSH"])
            sig = g.sig(kind_sig).replace(b"\r", b"r")
            with open(stub["sig"], "wb") as f:
                f.write(sig + b"\n")
        args += ["commit-tree"] + (["-S"] if signed else [])
        for p in parents:
            args += ["-p", p.decode()]
        args.append(tree.decode())
        p = G.git(repo.path, *args, stdin=msg or b"", env=env, check=False)
        if p.returncode != 0:
            skipped += 1
            continue
        F = {"tree": tree, "parents": parents, "author": an + b" <" + ae + b">", "author_time": at, "author_timezone": aoff,
             "author_timezone_neg_utc": False, "committer": cn + b" <" + ce + b">", "commit_time": ct, "commit_timezone": coff,
             "commit_timezone_neg_utc": False, "encoding": enc, "mergetag": [], "extra": [], "gpgsig": None, "message": msg}
        if signed:
            if algo == "sha1":
                F["gpgsig"] = sig
            else:
                F["extra"] = [(b"gpgsig-sha256", sig)]
        recs.append({"kind": "commit", "algo": algo, "F": F, "id": p.stdout.strip().decode(), "src": "git commit-tree"})
    for i in range(n_tags):
        tn, te = ident()
        tt, toff, td = date()
        name = (rng.choice([b"v", b"rel/", b"x-"]) + bytes(rng.choice(b"abc019-_\xc3\xa9\xff") for _ in range(rng.randint(1, 6)))).rstrip(b"-") + b"%d" % i
        ttype, hx = rng.choice([("commit", L.HEX[algo][3]), ("tree", L.HEX[algo][2]), ("blob", L.HEX[algo][6]), ("tag", L.HEX[algo][7])])
        msg = text(allow_empty=False)
        if not msg:
            msg = b"m"
        signed = rng.random() < 0.4
        env = {"GIT_COMMITTER_NAME": tn, "GIT_COMMITTER_EMAIL": te, "GIT_COMMITTER_DATE": td}
        args = []
        sig = None
        if signed:
            args += ["-c", "gpg.program=" + stub["prog"]]
            sig = g.sig("PGP").replace(b"\r", b"r") + b"\n"
            with open(stub["sig"], "wb") as f:
                f.write(sig)
        mf = os.path.join(repo.files, "tagmsg")
        with open(mf, "wb") as f:
            f.write(msg)
        args += ["tag", "-s" if signed else "-a", "--cleanup=verbatim", "-F", mf, name, hx.decode()]
        p = G.git(repo.path, *args, env=env, check=False)
        if p.returncode != 0:
            skipped += 1
            continue
        tid = G.git(repo.path, "rev-parse", b"refs/tags/" + name).stdout.strip().decode()
        F = {"object": (ttype, hx), "name": name, "tagger": tn + b" <" + te + b">", "tag_time": tt, "tag_timezone": toff,
             "tag_timezone_neg_utc": False, "message": msg, "signature": sig}
        recs.append({"kind": "tag", "algo": algo, "F": F, "id": tid, "src": "git tag"})
    trees = [g.tree() for _ in range(n_trees)]
    tids = repo.mktree_batch(trees)
    for ents, tid in zip(trees, tids):
        recs.append({"kind": "tree", "algo": algo, "F": {"entries": ents}, "id": tid.decode(), "src": "git mktree"})
    got = repo.read_objects([r["id"].encode() for r in recs])
    for r in recs:
        typ, body = got[r["id"].encode()]
        if typ != r["kind"]:
            raise MachineryError(f"git made a {typ} where a {r['kind']} was asked for")
        r["bytes"] = body
    return recs, skipped


def phase_git(ctx):
    import shutil
    from .. import c01_git as G
    if not shutil.which("git"):
        ctx.assumptions.append("git not found: every git-dependent clause skipped")
        return
    root = ctx.tmpdir("git")
    stub = {"prog": os.path.join(root, "gpgstub.sh"), "sig": os.path.join(root, "sig.txt")}
    with open(stub["prog"], "w") as f:
        f.write(f"#!/bin/sh\ncat >/dev/null\ncat {stub['sig']}\necho '[GNUPG:] SIG_CREATED D 1 8 00 1 X' >&2\n")
    os.chmod(stub["prog"], 0o755)
    table = ctx.table
    keys = sorted(table)
    if ctx.quick:                      # every tag/blob/commit case, a third of the trees
        keys = [k for i, k in enumerate(keys) if k[0] != "tree" or i % 3 == 0]
    cov = ctx.cov.setdefault("git", {})
    allrecs = []
    for algo in L.ALGOS:
        repo = G.Repo(root, algo)
        ids = repo.write_objects([L.FIXED[algo][i] for i in range(1, 8)])
        if ids != L.HEX[algo][1:]:
            raise MachineryError("git names the fixed pool objects differently from hashlib")
        objs = [(k, L.render(table[(k, key)], algo)) for (k, key) in keys]
        ids = repo.write_objects(objs)
        bad = [keys[i] for i in range(len(keys)) if ids[i] != L.H(algo, keys[i][0], objs[i][1])]
        if bad:
            raise MachineryError(f"git hash-object and hashlib disagree on {len(bad)} canonical objects, e.g. {bad[0]}")
        # fsck --strict: rejected set must be exactly the cases the specification predicts
        flagged = {i for i, msgs in repo.fsck_errors().items()}
        rejected = flagged & set(ids)                      # (different cases may be the same object: compare names)
        predicted = {ids[i] for i, k in enumerate(keys) if not L.STRICT.get(k, True)}
        if rejected != predicted:
            byid = {ids[i]: keys[i] for i in range(len(keys))}
            diff = sorted(byid[i] for i in (rejected ^ predicted))[:5]
            raise MachineryError(f"git fsck --strict and ObjGrammar!GitStrictOK disagree ({algo}) on {len(rejected ^ predicted)} objects, e.g. {diff}")
        # mktree: git sorts the entries itself and must arrive at the specification's bytes
        trees = [k for k in keys if k[0] == "tree"]
        tids = repo.mktree_batch([list(reversed(L.tree_entries(key, algo))) for (_, key) in trees])
        bad = [k for k, t in zip(trees, tids) if t != L.H(algo, "tree", L.render(table[k], algo))]
        if bad:
            raise MachineryError(f"git mktree and ObjGrammar!SerTree disagree on {len(bad)} trees, e.g. {bad[0]}")
        # ls-tree shows the same fields in the same order
        for k in trees[:: max(1, len(trees) // ctx.pick(12, 60))]:
            ents = L.tree_entries(k[1], algo)
            out = G.git(repo.path, "ls-tree", "-z", L.H(algo, "tree", L.render(table[k], algo)).decode()).stdout
            got = []
            for rec in out.split(b"\0")[:-1]:
                meta, name = rec.split(b"\t", 1)
                mode, typ, hx = meta.split(b" ")
                got.append((name, int(mode, 8), hx))
            # git canonicalises the mode of regular files when it *displays* a tree (100664 -> 100644)
            ents = [(n, 0o100644 if m == 0o100664 else m, h) for (n, m, h) in ents]
            if got != ents:
                raise MachineryError(f"git ls-tree and the specification disagree on tree {k}: {got} vs {ents}")
        # mktag: accepted exactly when strict, with a tagger
        tags = [k for k in keys if k[0] == "tag"]
        tags = tags[:: max(1, len(tags) // ctx.pick(25, 400))]
        nacc = 0
        for k in tags:
            body = L.render(table[k], algo)
            p = G.git(repo.path, "mktag", stdin=body, check=False)
            case = L.case_of(ctx.pools, "tag", k[1])
            want = L.STRICT.get(k, True) and bool(case["tagger"])
            if (p.returncode == 0) != want:
                raise MachineryError(f"git mktag {'accepts' if p.returncode == 0 else 'rejects'} tag {k} against the specification's prediction: {p.stderr[-300:]}")
            if p.returncode == 0:
                nacc += 1
                if p.stdout.strip() != L.H(algo, "tag", body):
                    raise MachineryError(f"git mktag names tag {k} differently")
        cov[algo] = {"objects_named_by_git": len(keys), "fsck_strict_rejected_as_predicted": len(rejected),
                     "trees_rebuilt_by_mktree": len(trees), "mktag_tried": len(tags), "mktag_accepted": nacc}
        recs, skipped = git_made(ctx, repo, ctx.pick(40, 1500), ctx.pick(16, 500), ctx.pick(100, 5000), stub)
        cov[algo]["git_made_objects"] = len(recs)
        cov[algo]["git_refused_inputs"] = skipped
        allrecs += recs
    # (a) specification vs git on the git-made objects: TLC judges (known inputs, git's bytes)
    d = ctx.tmpdir("gm")
    path = os.path.join(d, "gitmade.ndjson")
    with open(path, "w") as f:
        for i, r in enumerate(allrecs):
            F = r["F"]
            case = (L.commit_case(F) if r["kind"] == "commit" else L.tag_case(F) if r["kind"] == "tag" else L.tree_case(F["entries"]))
            f.write(json.dumps({"tid": i + 1, "kind": r["kind"], "c": case, "obs": list(r["bytes"])}, separators=(",", ":")) + "\n")
    res, verdicts = tlc_verdicts_quiet(path, len(allrecs))
    ctx.add_tlc(f"ObjGrammarTrace[git-made] {len(allrecs)} objects written by git commit-tree / tag / mktree", res, require_ok=False)
    bad = [(allrecs[t - 1]["src"], v[2], v[3], allrecs[t - 1]["bytes"][:300]) for t, v in verdicts.items() if v[2] != "ok"]
    if bad:
        raise MachineryError(f"specification and git disagree on {len(bad)} git-made objects, e.g. {bad[0]}")
    # (b) dulwich on the git-made objects
    of = os.path.join(d, "objects.ndjson")
    with open(of, "w") as f:
        for r in allrecs:
            f.write(json.dumps({"kind": r["kind"], "algo": r["algo"], "fields": L.jsonable(r["F"]), "bytes": r["bytes"].decode("latin-1"),
                                "id": r["id"], "src": r["src"]}) + "\n")
    results = spawn(ctx, [{"task": "fuzz", "mode": m, "objects": of} for m in ("py", "rs")], "gitobjs")
    for r in results:
        ctx.count(r["n"]["objects"])
        for fl in r["fail"]:
            sig = f"{fl['site']}|{fl['clause']}|{fl['src']} {L.H('sha1', 'blob', fl['bytes'].encode('latin-1')).decode()[:12]}"
            ctx.violation(sig, f"object made by {fl['src']} ({fl['algo']}, {fl['mode']}): {fl['clause']} {fl['note'][:200]}",
                          {"phase": "git-made", "failure": fl})
    ctx.validated(len(allrecs))
    ctx._nontrivial.update(("gm", r["id"]) for r in allrecs)
    ctx.log(f"git: {cov}")


# ----------------------------------------------------------------------------- entry
def run(ctx):
    import shutil
    shutil.rmtree(ctx.replay_dir, ignore_errors=True)      # replay files of earlier runs are obsolete
    os.makedirs(ctx.replay_dir, exist_ok=True)
    rustext.build()
    # ctx is shared by the phases that run side by side
    import threading
    lock = threading.RLock()
    for name in ("violation", "count", "validated", "add_tlc", "sample", "drift_event", "nontrivial", "log"):
        def locked(*a, _f=getattr(ctx, name), **kw):
            with lock:
                return _f(*a, **kw)
        setattr(ctx, name, locked)
    objfile = Bg(objfile_runs, ctx)          # ObjFile TLC runs: independent of the grammar
    fuzz = Bg(phase_fuzz, ctx)               # random objects judged by TLC: independent too
    phase_grammar(ctx)
    gitp = Bg(phase_git, ctx)                # needs the enumerated cases only
    traces = phase_life(ctx, objfile)
    phase_life_traces(ctx, traces)
    fuzz.join()
    gitp.join()
    finish_edit_graph(ctx)
    ctx.cov["rule"] = (
        "evaluations = operations executed on real dulwich objects (builds, parses, one-field edits, life-cycle steps, random "
        "objects, git-made objects).  Distinct non-trivial cases, counted: (a) one per TLC state of ObjGrammar = (kind, case): "
        "all commits/tags within Hamming distance Radius of three base cases over the field pools, all trees up to TreeMax "
        "entries over the ordering universe plus all legal modes, the blob chunkings -- each built (several setter orders), "
        "serialised, named under SHA-1 and SHA-256, parsed, re-serialised and edited in every single field whose result is in "
        "the space; (b) one per distinct recorded life-cycle history (concretisation, origin, operation list) validated by TLC "
        "against ObjFileTrace -- the state-graph behaviours replayed for edge coverage are counted in evaluations only; (c) one "
        "per random object of the seeded stream judged by TLC against ObjGrammarTrace; (d) one per object written by C git. "
        "Every case is a complete object, none is trivial (the empty tree and the empty blob are cases of their own).")
    ctx.cov["trusted_base"] = ["CPython hashlib (SHA-1, SHA-256)", "TLC 1.8 / tla2tools, CommunityModules", "git 2.39.5 (third party, one version)"]
    ctx.assumptions += [
        "hashlib SHA-1/SHA-256 are trusted; H is treated as injective in ObjFile",
        "atoms (identities, single lines, tag names, header keys, hex ids) are opaque LF-free byte strings; the enumerated spaces "
        "draw them from the pools in harness/c01_lib.py, the random phase draws arbitrary bytes",
        "canonical domain only: time zone offsets are whole minutes below 100 hours, extra header keys are not reserved words, a tag "
        "message does not contain a signature armour line, embedded mergetags end with LF",
        "message None and message b'' are the same object for an object built through the API (both serialise to the blank line "
        "only); only a parsed object can lack the blank line",
        "an explicit request get_id(F)/sha(F) must return the hash of the current content in format F whatever name is cached "
        "(IdIsHash per requested format); only the format-less .id / sha() is accepted as either the SHA-1 or -- for an object that "
        "carries the name a sha256 store gave it -- the SHA-256 of the current content",
        "git is compared on the objects it accepts: `git fsck --strict` rejects exactly the cases ObjGrammar!GitStrictOK predicts "
        "(negative timestamps); commit-tree/tag/mktree cannot produce mergetag or unknown extra headers, those are compared "
        "through hash-object and fsck only",
        "the life-cycle model covers setter calls and reads; in-place mutation of a list returned by a getter (commit.parents.append) "
        "is not an edit through the API and is not modelled",
    ]
    return ctx.finish(exhaustive=False)


def replay(ctx, path):
    """Re-execute one recorded failing case on the current tree and print what happens."""
    obj = json.load(open(path))
    print(json.dumps({k: v for k, v in obj.items() if k not in ("failure", "trace")}, indent=1))
    ctx.known = []
    rustext.build()
    phase = obj.get("phase")
    f = obj.get("failure") or {}
    if phase == "grammar":
        phase_grammar(ctx, only=[[f["kind"], f["key"]]], edits=False)
        for x in ctx.grammar_fails:
            if x["clause"] == f["clause"] and x["mode"] == f["mode"] and x["algo"] == f["algo"]:
                print("REPRODUCED", json.dumps({k: x[k] for k in ("site", "clause", "kind", "key", "algo", "mode", "note")}))
                if "want" in x and "got" in x:
                    w, g = bytes.fromhex(x["want"]), bytes.fromhex(x["got"])
                    i = next((j for j in range(min(len(w), len(g))) if w[j] != g[j]), min(len(w), len(g)))
                    print(f"  first difference at byte {i}:")
                    print(f"  spec: ...{w[max(0, i - 60):i + 60]!r}")
                    print(f"  real: ...{g[max(0, i - 60):i + 60]!r}")
        return 1 if ctx.violations else 0
    if phase in ("life", "life-trace"):
        phase_grammar(ctx, only=[], edits=False)
        if phase == "life-trace":
            t = obj["trace"]
            kind, triple = t["conc"].split("/")[0], t["conc"].split("/")[1]
            f = {"conc": {"kind": kind, "algo": t["algo"], "triple": triple.split("+") if triple != "-" else None},
                 "origin": t["origin"], "ofmt": t.get("ofmt", 0), "v0": t["v0"], "ops": t["ops"], "flavour": t["flavour"], "mode": "py", "clause": "", "scenario": t["scenario"]}
        job = {"task": "life", "mode": f.get("mode", "py"), "dump": ctx.dump, "pools": ctx.poolf, "replay": f}
        r = spawn(ctx, [job], "replay")[0]
        for i, st in enumerate(r["steps"]):
            print(f"  step {i}: {st['op']:14s} -> stands for {st['returned_value_stands_for']}  object: {st['projection']}")
        for x in r["fail"]:
            print("REPRODUCED", json.dumps(x))
        return 1 if r["fail"] else 0
    if phase == "store":
        phase_grammar(ctx, only=[], edits=False)
        r = spawn(ctx, [{"task": "life", "mode": "py", "dump": ctx.dump, "pools": ctx.poolf, "store": True, "tmp": ctx.tmpdir("st"),
                         "store_only": f["pair"]}], "replay")[0]
        hits = [x for x in r["store_fail"] if x["clause"] == f["clause"] and x["kind"] == f["kind"]]
        for x in hits:
            print("REPRODUCED", json.dumps(x))
        return 1 if hits else 0
    if phase == "fuzz":
        job = obj.get("job") or {"mode": f.get("mode", "py"), "shard": f.get("shard", 0), "count": ctx.pick(500, 5000)}
        d = ctx.tmpdir("fz")
        job = dict(job, task="fuzz", traces=os.path.join(d, "t.ndjson"))
        r = spawn(ctx, [job], "replay")[0]
        res, verdicts = tlc_verdicts_quiet(job["traces"], r["n"]["traces"])
        want_n = (obj.get("meta") or f).get("n")
        bad = 0
        for tid, v in verdicts.items():
            m = r["meta"].get(str(tid), {})
            if v[2] != "ok" and m.get("n") == want_n:
                print("REPRODUCED (TLC verdict)", v, m)
                bad += 1
        for x in r["fail"]:
            if x["n"] == want_n:
                print("REPRODUCED", json.dumps({k: x[k] for k in ("site", "clause", "kind", "algo", "note")}), json.dumps(x["fields"])[:1500])
                bad += 1
        return 1 if bad else 0
    if phase == "git-made":
        d = ctx.tmpdir("gm")
        of = os.path.join(d, "o.ndjson")
        with open(of, "w") as fh:
            fh.write(json.dumps(f["record"]) + "\n")
        r = spawn(ctx, [{"task": "fuzz", "mode": f.get("mode", "py"), "objects": of}], "replay")[0]
        for x in r["fail"]:
            print("REPRODUCED", json.dumps({k: x[k] for k in ("site", "clause", "kind", "algo", "note")}))
            print("  bytes:", x["bytes"][:800].encode("latin-1"))
        return 1 if r["fail"] else 0
    print("unknown replay file")
    return 2

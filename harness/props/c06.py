"""C06 -- a push reports success exactly for the refs it changed; server refs stay valid.

Spec: specs/RecvPack.tla (+ RecvPackMC.tla instances, RecvPackTrace.tla monitor).  Binding:
  R  every behaviour TLC enumerates for the case spaces of RecvPackMC.tla (server state x command
     list x capability set x failure variant; for two pushers: every interleaving) is executed on
     the real code -- ReceivePackHandler over an in-memory pkt-line pipe with real pack bytes, the
     answer decoded by the real client code; LocalGitClient.send_pack -- and the executed ref
     operations, the statuses the client was told and the repository read back from disk are
     compared with the behaviour; with two pushers the set of behaviours of the real code under
     every schedule is compared with the set TLC enumerated (both inclusions);
  T  every real execution (the above, random larger pushes, other ref layouts, stateless-rpc,
     C git pushing to a dulwich TCP server) is recorded as an event trace and judged by TLC
     against RecvPackTrace: RecvPack's property operators after every event (-> VIOLATION), the
     step operators' predictions (-> SPEC-DRIFT only);
  S  two or three real pushes as greenlets under harness/sched.py, every schedule with a bounded
     number of preemptions at ref-operation grain.
The design parameters of RecvPack (does the handler look at the result of the compare-and-swap,
does it check that the new object exists, how does `atomic` validate) are read off the real code
by four probe pushes, so that the same check follows the tree before and after a repair; the
property clauses never depend on them.
"""
from __future__ import annotations

import concurrent.futures as cf
import json
import os
import shutil
import subprocess
import time

from .. import c06_lib as L
from .. import tlc
from ..core import MachineryError

PROCS = 8
SPEC = "RecvPackMC.tla"
ASIS = {"CheckCas": False, "CheckObj": False, "AtomicMode": "hooks", "LocalCheckObj": False, "LocalAtomicMode": "none"}
REPAIRED = {"CheckCas": True, "CheckObj": True, "AtomicMode": "txn", "LocalCheckObj": True, "LocalAtomicMode": "txn"}


def W(cmds, caps=("report-status",), pack=(), ok=True, decl=(), pre=False, kind="wire"):
    return {"kind": kind, "cmds": [dict(r=r, old=o, new=n) for r, o, n in cmds], "caps": sorted(caps), "pack": sorted(pack),
            "packok": ok, "decl": sorted(decl), "predecl": pre}


# --------------------------------------------------------------------------- design parameters of the code under test
def probe_flags(ctx, tpl):
    def run(push, refs0=(1, 1)):
        return L.run_case(tpl, {"refs0": list(refs0), "store0": [1, 2], "push": [push]})

    def done(tr):
        return [e for e in tr["ev"] if e["op"] == "done"][-1]
    fl = {}
    t = run(W([(1, 2, 3)], pack=(3,)))
    fl["CheckCas"] = done(t)["st"] != ["ok"]
    t = run(W([(1, 1, 4)]))
    fl["CheckObj"] = done(t)["refs"][0] != 4
    t = run(W([(1, 1, 3), (2, 2, 3)], caps=("report-status", "atomic"), pack=(3,)))
    fl["AtomicMode"] = "hooks" if done(t)["refs"][0] == 3 else "precheck"
    t = run(W([(1, 0, 4)], kind="local", caps=()))
    fl["LocalCheckObj"] = done(t)["refs"][0] != 4
    # local atomic push, another push changes the ref between the client's read and its check
    tr = L.run_case(tpl, {"refs0": [1, 1], "store0": [1, 2], "push": [W([(1, 0, 3)], kind="local", caps=("atomic",), pack=(3,)),
                                                                     W([(1, 1, 2)])]}, [1, 2, 2, 2, 2])
    mine = [e for e in tr["ev"] if e["p"] == 1]
    if [e["op"] for e in tr["ev"]][:2] != ["lstart", "unpack"] or tr["ev"][1]["p"] != 2:
        raise MachineryError(f"probe schedule not as intended: {tr['ev']}")
    fl["LocalAtomicMode"] = "none" if any(e["op"] == "refop" for e in mine) else "precheck"
    ctx.log(f"design parameters read off the code: {fl}")
    return fl


def tla_flag(v):
    if isinstance(v, bool):
        return "TRUE" if v else "FALSE"
    return f'"{v}"'


def gen_cfg(ctx, name, *, spec="Spec", pushers="{1}", refs="{1, 2}", inits="Inits01", pushin="WireQuick", flags=ASIS,
            keep=False, emit=False, invariants=()):
    d = getattr(ctx, "_cfgdir", None)
    if d is None:
        d = ctx._cfgdir = ctx.tmpdir("cfg")
    path = os.path.join(d, name + ".cfg")
    consts = {"Refs": refs, "Pushers": pushers, "Inits": "<- " + inits, "PushIn": "<- " + pushin}
    for k, v in flags.items():
        consts[k] = tla_flag(v)
    consts["KeepHist"] = tla_flag(keep)
    consts["Emit"] = tla_flag(emit)
    tlc.write_cfg(path, spec=spec, constants=consts, invariants=invariants)
    return path


# --------------------------------------------------------------------------- TLC: model checking, negative controls, emission
def tlc_phase(ctx, flags):
    """All TLC work that does not depend on real executions, run concurrently.
    - the design with the three repairs satisfies the property, also under races (mc_*);
    - each deviation the code has or could have violates exactly the clause it should (neg_*);
    - the behaviours of the case spaces under the design parameters of the code under test are
      emitted for replay (emit_*)."""
    q = ctx.quick
    jobs = [
        # name, cfg, expected violated invariant (None: must hold), emission?
        ("mc_seq", "RecvPack_mc_seq_q.cfg" if q else "RecvPack_mc_seq.cfg", None),
        ("mc_local", "RecvPack_mc_local.cfg", None),
        ("mc_race", "RecvPack_mc_race_q.cfg" if q else "RecvPack_mc_race.cfg", None),
        ("neg_cas", "RecvPack_neg_cas.cfg", "StatusExact"),
        ("neg_obj", "RecvPack_neg_obj.cfg", "NoDanglingRef"),
        ("neg_atomic", "RecvPack_neg_atomic.cfg", "AtomicOK"),
        ("neg_local_obj", "RecvPack_neg_local_obj.cfg", "NoDanglingRef"),
        ("neg_implied", "RecvPack_neg_implied.cfg", "ImpliedSuccess"),
        ("neg_local_race", "RecvPack_neg_local_race_q.cfg" if q else "RecvPack_neg_local_race.cfg", "AtomicOK"),
        # defect model of a ref backend (CasMatch <- CasMatchZeroAny: the zero old id compared with nothing)
        ("neg_backend_zero", "RecvPack_neg_backend_zero.cfg", "StatusExact"),
        ("neg_backend_zero_race", "RecvPack_neg_backend_zero_race.cfg", "StatusExact"),
    ]
    if not q:
        jobs += [("mc_racelocal", "RecvPack_mc_racelocal.cfg", None), ("mc_precheck", "RecvPack_mc_precheck.cfg", None),
                 ("mc_race3", "RecvPack_mc_race3.cfg", None),
                 ("neg_precheck_race", "RecvPack_neg_precheck_race.cfg", "AtomicOK"),
                 ("neg_local_precheck_race", "RecvPack_neg_local_precheck_race.cfg", "AtomicOK"),
                 # the tree as F9 describes it: TLC -continue lists every violated clause
                 ("asis", "RecvPack_asis.cfg", ("StatusExact", "NoDanglingRef"))]
    emits = [
        ("wire-seq", dict(inits=ctx.pick("Inits01", "Inits012"), pushin=ctx.pick("WireQuick", "WireFull"))),
        ("local-seq", dict(inits="Inits012", pushin="LocalAll")),
        ("wire-race", dict(pushers="{1, 2}", inits="RaceInits", pushin=ctx.pick("RaceWireQ", "RaceWire"))),
        ("local-race", dict(pushers="{1, 2}", inits="RaceInits", pushin="RaceLocal")),
        ("backend-seq", dict(inits=ctx.pick("Inits01", "Inits012"), pushin="BackendSeq")),
    ]
    for name, kw in emits:
        jobs.append(("emit_" + name, gen_cfg(ctx, "emit_" + name.replace("-", "_"), keep=True, emit=True, flags=flags, **kw), "EMIT"))
    # what a C git client can produce: under the parameters of the code, and under the repaired ones (git itself)
    for tag, fl in (("code", flags), ("ref", REPAIRED)):
        jobs.append((f"emit_git-solo-{tag}", gen_cfg(ctx, f"emit_git_solo_{tag}", keep=True, emit=True, flags=fl, inits="RaceInits", pushin="GitSolo"), "EMIT"))
        jobs.append((f"emit_git-race-{tag}", gen_cfg(ctx, f"emit_git_race_{tag}", keep=True, emit=True, flags=fl, pushers="{1, 2}", inits="RaceInits",
                                                     pushin="GitRace"), "EMIT"))

    def one(job):
        name, cfg, expect = job
        big = name in ("emit_wire-seq", "mc_seq", "mc_race")
        return job, tlc.run(SPEC, cfg, workers=(4 if big else 2), timeout=ctx.pick(300, 1800),
                            coverage=(not q and expect is None), cont=isinstance(expect, tuple))
    out = {}
    with cf.ThreadPoolExecutor(max_workers=ctx.pick(7, 5)) as ex:
        results = list(ex.map(one, jobs))
    for (name, cfg, expect), res in results:
        if expect == "EMIT":
            ctx.add_tlc(name, res)
            behs = [json.loads(json.loads(line)) for line in res.output.splitlines() if line.startswith('"{')]
            if not behs:
                raise MachineryError(f"no behaviour emitted by {name}\n{res.output[-2000:]}")
            out[name[5:]] = behs
            continue
        ctx.add_tlc(name, res, require_ok=expect is None)
        if expect is not None and not set((expect,) if isinstance(expect, str) else expect) <= set(res.violated):
            raise MachineryError(f"negative control {name}: TLC did not find {expect} violated (violated={res.violated})\n{res.output[-1500:]}")
    ctx.log("TLC: " + ", ".join(f"{n}={r.distinct}" for (n, _, _), r in results))
    return out


# --------------------------------------------------------------------------- workers (real executions)
_TPL = None
_TPL_PID = None


def _tpl(base):
    global _TPL, _TPL_PID
    if _TPL is None or _TPL_PID != os.getpid() or not _TPL.base.startswith(base):
        _TPL_PID = os.getpid()
        d = os.path.join(base, f"w{os.getpid()}")
        os.makedirs(d, exist_ok=True)
        _TPL = L.Templates(d)
    return _TPL


def _slim(tr):
    """Drop bulky fields before a trace crosses the process boundary."""
    tr.pop("sched_trace", None)
    return tr


def _work(args):
    kind, base, items = args
    tpl = _tpl(base)
    out = []
    if kind == "seq":
        for key, case, opts in items:
            tr = L.run_case(tpl, case, stateless=opts.get("stateless", False))
            out.append((key, _slim(tr)))
    elif kind == "race":
        from .. import sched
        for key, case, opts in items:
            def run_once(prefix, case=case):
                tr = L.run_case(tpl, case, prefix)
                s = _S()
                s.trace = [tuple(x) for x in ((tuple(en), ch, cur) for en, ch, cur in tr["sched_trace"])]
                s.tr = tr
                return s
            for s in sched.explore(run_once, max_preempt=opts.get("maxp", 3), limit=opts.get("limit")):
                out.append((key, _slim(s.tr)))
    elif kind == "rand":
        import random
        for key, seed, opts in items:
            rng = random.Random(seed)
            case, stateless = random_case(rng)
            if len(case["push"]) == 1:
                tr = L.run_case(tpl, case, stateless=stateless)
            else:
                prefix = [rng.randrange(1, len(case["push"]) + 1) for _ in range(rng.randrange(0, 14))]
                tr = L.run_case(tpl, case, prefix, stateless=stateless)
            out.append((key, _slim(tr)))
    return out


class _S:
    pass


def pool_run(ctx, kind, items, chunk=40):
    """items: list of (key, case, opts).  Returns list of (key, trace)."""
    import multiprocessing as mp
    if not items:
        return []
    base = ctx.scratch
    tasks = [(kind, base, items[i:i + chunk]) for i in range(0, len(items), chunk)]
    out = []
    with mp.get_context("fork").Pool(PROCS) as pool:
        for part in pool.imap_unordered(_work, tasks):
            out.extend(part)
    ctx.count(len(out))
    return out


# --------------------------------------------------------------------------- random larger pushes (mode T)
def random_case(rng):
    nrefs = rng.choice([2, 3, 5])
    K = L.Fixture.K
    store0 = sorted(rng.sample(range(1, K + 1), rng.randrange(1, 4)))
    refs0 = [rng.choice([0] + store0) for _ in range(nrefs)]
    npush = rng.choice([1, 1, 2, 2, 3])
    push = []
    for p in range(npush):
        kind = rng.choice(["wire", "wire", "local"])
        n = rng.randrange(1, min(nrefs, 4) + 1)
        rs = rng.sample(range(1, nrefs + 1), n)
        cmds = []
        for r in rs:
            cur = refs0[r - 1]
            old = rng.choice([cur, cur, cur, 0, rng.randrange(1, K + 1)])
            new = rng.choice([0, rng.randrange(1, K + 1), rng.randrange(1, K + 1)])
            cmds.append((r, 0 if kind == "local" else old, new))
        news = sorted({c[2] for c in cmds if c[2]})
        # the pack holds the new commits the server lacks -- sometimes not all of them, sometimes
        # without the parents a complete history would need
        pack = [o for o in news if o not in store0 and rng.random() < 0.8]
        caps = [c for c in ("report-status", "atomic", "side-band-64k", "delete-refs") if rng.random() < (0.85 if c == "report-status" else 0.5)]
        if kind == "local":
            caps = [c for c in caps if c == "atomic"]
        decl = [r for r in rs if rng.random() < 0.12] if kind == "wire" else []
        push.append(W(cmds, caps=caps, pack=pack, ok=(kind == "local" or rng.random() < 0.9), decl=decl,
                      pre=(kind == "wire" and rng.random() < 0.05), kind=kind))
    case = {"refs0": refs0, "store0": store0, "push": push, "layout": rng.choice(["loose", "packed"])}
    stateless = rng.random() < 0.3
    if rng.random() < 0.25:
        case["layout"] = "reftable"
    return case, stateless


# --------------------------------------------------------------------------- traces for TLC
def tla_trace(tr, tid):
    pad = [0] * (L.NREFS - len(tr["refs0"]))
    ev = []
    for e in tr["ev"]:
        if e["op"] == "lstart":
            ev.append({"p": e["p"], "op": "lstart", "olds": e["olds"]})
        elif e["op"] == "unpack":
            ev.append({"p": e["p"], "op": "unpack", "ok": e["ok"], "store": e["store"]})
        elif e["op"] == "refop":
            ev.append({"p": e["p"], "op": "refop", "i": e["i"], "pre": e["pre"], "post": e["post"], "res": e["res"],
                       "refs": e["refs"] + pad})
        elif e["op"] == "done":
            d = {"p": e["p"], "op": "done", "unp": e["unp"], "st": e["st"], "refs": e["refs"] + pad,
                 "store": e["store"], "rest": e.get("rest", 0)}
            if "implied" in e:
                d.update(implied=e["implied"], twinrefs=e["twinrefs"] + pad, twinstore=e["twinstore"])
            ev.append(d)
    # the monitor looks at two capabilities only; dropping the others lets executions that differ
    # in framing alone share one TLC evaluation (their statuses were decoded by the real client)
    push = [{**d, "caps": [c for c in d["caps"] if c in ("report-status", "atomic")]} for d in tr["push"]]
    return {"tid": tid, "refs0": tr["refs0"] + pad, "store0": tr["store0"], "push": push, "ev": ev}


class Judge:
    """Collects real executions, lets TLC judge the distinct ones, reports."""

    def __init__(self, ctx, flags):
        self.ctx, self.flags = ctx, flags
        self.uniq = {}       # canonical trace text -> tid
        self.first = {}      # tid -> (label, raw trace)
        self.mult = {}       # tid -> count
        self.n = 0
        self.pending = []    # (tid, drift message) of executions outside the spec's behaviours
        self.hit = set()

    def add(self, label, tr):
        self.n += 1
        t = tla_trace(tr, 0)
        key = json.dumps(t, sort_keys=True, separators=(",", ":"))
        tid = self.uniq.get(key)
        if tid is None:
            tid = len(self.uniq) + 1
            self.uniq[key] = tid
            self.first[tid] = (label, tr)
            self.mult[tid] = 0
        self.mult[tid] += 1
        return tid

    def run(self):
        ctx = self.ctx
        d = ctx.tmpdir("judge")
        cfg = gen_cfg(ctx, "trace", spec="TraceSpec", pushers="{1, 2, 3}", refs="{1, 2, 3, 4, 5}", inits="NoInits",
                      pushin="AnyPush", flags=self.flags)
        items = sorted(((tid, key) for key, tid in self.uniq.items()))
        B = 2500
        files = []
        for i in range(0, len(items), B):
            path = os.path.join(d, f"t{i}.ndjson")
            with open(path, "w") as f:
                for tid, key in items[i:i + B]:
                    o = json.loads(key)
                    o["tid"] = tid
                    f.write(json.dumps(o, separators=(",", ":")))
                    f.write("\n")
            files.append((path, [tid for tid, _ in items[i:i + B]]))

        def one(job):
            path, tids = job
            return job, tlc.run("RecvPackTrace.tla", cfg, workers=1, timeout=3000, env={"TRACE_FILE": path})
        verdicts = {}
        with cf.ThreadPoolExecutor(max_workers=PROCS) as ex:
            for (path, tids), res in ex.map(one, files):
                ctx.add_tlc(f"RecvPackTrace[{os.path.basename(path)}]", res, require_ok=False)
                got = {}
                for v in tlc.extract_printed(res.output, "VERDICT"):
                    got[v[1]] = v
                if not res.completed or set(got) != set(tids):
                    raise MachineryError(f"trace validation incomplete ({len(got)}/{len(tids)} verdicts)\n{res.output[-3000:]}")
                verdicts.update(got)
        shutil.rmtree(d, ignore_errors=True)
        nviol = ndrift = 0
        self.hit = {tid for tid in verdicts if verdicts[tid][2]}
        for tid in sorted(verdicts):
            _, _, bad, shape = verdicts[tid]
            label, tr = self.first[tid]
            if bad:
                shape = ()      # a deviation that breaks the property is a violation, not drift
            for (clause, a, b, l) in sorted(bad, key=lambda x: (x[3], str(x[0]), x[1], x[2])):
                nviol += 1
                sig, what = classify(tr, str(clause), a, b, l)
                ctx.violation(sig, what, {"clause": str(clause), "at_event": l, "label": label, "trace": tr, "flags": self.flags})
            for (cl, a, b) in sorted(shape, key=str):
                ndrift += 1
                ctx.drift_event(f"{label}: {cl} push={a} cmd={b}: real step differs from the RecvPack step under {self.flags}; "
                                f"push={json.dumps(tr['push'][a - 1])} refs0={tr['refs0']} ev={json.dumps([e for e in tr['ev'] if e['p'] == a])[:600]}")
        for tid, msg in self.pending:
            if tid not in self.hit:
                ndrift += 1
                ctx.drift_event(msg)
        ctx.validated(self.n)
        ctx.log(f"TLC judged {len(self.uniq)} distinct traces of {self.n} real executions: {nviol} property-clause hits, {ndrift} shape deviations")


# --------------------------------------------------------------------------- signatures
def classify(tr, clause, a, b, l):
    push, ev = tr["push"], tr["ev"]
    race = int(len(push) > 1)
    if clause == "NoDanglingRef":
        e = ev[l - 1]
        p = e["p"]
        i = e.get("i", 0) if e["op"] == "refop" else 0
        if i == 0:      # first seen when the repository was read back: the command of p naming that ref
            i = next((j + 1 for j, c in enumerate(push[p - 1]["cmds"]) if c["r"] == a), 0)
    elif clause == "AtomicOK":
        p, i = a, 0
    else:
        p, i = a, b
    d = push[p - 1]
    site = L.LOCAL_SITE if d["kind"] == "local" else L.SERVER_SITE
    if tr.get("via") in ("git", "dulwich", "http", "subprocess"):
        path = {"git": "git-tcp", "dulwich": "dulwich-tcp", "http": "dulwich-http", "subprocess": "subprocess-cgit"}[tr["via"]]
        if tr["via"] == "subprocess":
            site = "dulwich/client.py:TraditionalGitClient.send_pack"
    else:
        path = d["kind"]
    done = next((e for e in ev if e["op"] == "done" and e["p"] == p), None)
    lst = next((e for e in ev if e["op"] == "lstart" and e["p"] == p), None)
    store0 = set(tr["store0"])

    def cmdinfo(i):
        c = d["cmds"][i - 1]
        old = lst["olds"][i - 1] if (d["kind"] == "local" and lst) else c["old"]
        ops = [e for e in ev if e["op"] == "refop" and e["p"] == p and e["i"] == i]
        if ops:
            pre, post, exe = ops[0]["pre"], ops[-1]["post"], 1
        else:
            v = done["refs"][c["r"] - 1] if done else tr["refs0"][c["r"] - 1]
            pre, post, exe = v, v, 0
        kind = "delete" if c["new"] == 0 else ("create" if old == 0 else "update")
        if c["new"] == 0:
            newc = "zero"
        elif c["new"] in store0:
            newc = "instore"
        elif c["new"] in d["pack"]:
            newc = "inpack" if d["packok"] else "inbadpack"
        else:
            newc = "missing"
        hook = "predecl" if d["predecl"] else ("decl" if c["r"] in d["decl"] else "none")
        return dict(kind=kind, old="match" if pre == old else "stale", new=newc, exe=exe, changed=int(pre != post),
                    reported=(done["st"][i - 1] if done and i <= len(done["st"]) else "?"), hook=hook, c=c, pre=pre, post=post)
    atomic = int("atomic" in d["caps"])
    unp = done["unp"] if done else "?"
    up = next((e for e in ev if e["op"] == "unpack" and e["p"] == p), None)
    srvunp = "nopack" if up is None else ("ok" if up["ok"] else "fail")
    ctxt = f"caps={d['caps']} decl={d['decl']} predecl={d['predecl']} pushers={len(push)} refs0={tr['refs0']} store0={tr['store0']}"
    if clause == "AtomicOK":
        infos = [cmdinfo(j) for j in range(1, len(d["cmds"]) + 1)]
        why = sorted({("decl" if x["hook"] != "none" else "stale" if x["old"] == "stale" else "skipped" if not x["exe"] else "failed")
                      for x in infos if x["post"] != x["c"]["new"]})
        scen = f"{path} partial failed={'+'.join(why)} race={race}"
        # when did the refs that were refused go stale?  Another push changing a ref between this push's
        # validation and its application is one thing (no ref is locked across the two); a ref that was
        # already stale when validation began and still let the others through is another.
        vstart = next((e["seq"] for e in ev if e["op"] == "validate" and e["p"] == p), None)
        stale = [x for x in infos if x["post"] != x["c"]["new"] and x["old"] == "stale" and x["exe"]]
        if vstart is not None and stale:
            def went_stale(x):
                name = os.fsdecode(L.REFNAMES[x["c"]["r"] - 1])
                mine = next(e["seq"] for e in ev if e["op"] == "refop" and e["p"] == p and e["ref"] == name)
                return max((e["seq"] for e in ev if e["op"] == "refop" and e["p"] != p and e["ref"] == name
                            and e["pre"] != e["post"] and e["seq"] < mine), default=0)
            if all(went_stale(x) < vstart for x in stale):
                scen += " stale-before=validation"
        what = (f"atomic push applied only some of its updates: {[(x['c'], 'changed' if x['changed'] else 'not applied') for x in infos]} "
                f"told={done['st'] if done else None}; {ctxt}")
    elif clause == "ReportIndependent":
        scen = f"{path} final repository differs from the run with report-status told={unp}"
        what = (f"the push {d['cmds']} left refs={done['refs']} store={done['store']} without report-status but refs={done.get('twinrefs')} "
                f"store={done.get('twinstore')} when the same push asked for report-status (told there: {done.get('implied')}); {ctxt}")
    elif clause == "NoDanglingRef":
        x = cmdinfo(i) if i else dict(kind="?", old="?", new="?", exe=0, changed=0, c=None, pre=None, post=None)
        scen = f"{path} new={x['new']} old={x['old']} exe={x['exe']} changed={x['changed']} unpack={srvunp}"
        what = (f"ref {a} names object {x['post']} which the server's object store does not hold, after command {x['c']} of push {p} "
                f"({x['kind']}, atomic={atomic}); {ctxt}")
    else:
        x = cmdinfo(i) if i else dict(kind="?", old="?", new="?", exe=0, changed=0, reported="?", hook="?", c=None, pre=None, post=None)
        scen = f"{path} old={x['old']} exe={x['exe']} changed={x['changed']} reported={x['reported']} unpack={unp}"
        if clause == "ImpliedSuccess":
            scen += " with-report-status=ok"
        what = (f"{clause}: command {x['c']} ({x['kind']}, new value {x['new']}) of push {p}: ref was {x['pre']} before and {x['post']} after "
                f"the push's operation, client told {x['reported']!r} (unpack {unp}, atomic={atomic}, hook={x['hook']}); {ctxt}")
    if clause != "AtomicOK" and tr.get("layout", "loose") != "loose":
        scen += f" layout={tr['layout']}"
    return f"{site}|{clause}|{scen}", what


# --------------------------------------------------------------------------- pairs of runs with / without report-status
def pair_quiet(ctx, res, opts):
    """A wire push without report-status is told nothing.  Give its `done` event what the same
    push, from the same server state, was told and left behind when it was run with report-status
    added (a second real execution): the monitor's ImpliedSuccess / ReportIndependent clauses
    compare the two."""
    by_key = {k: tr for k, tr in res}
    quiet, missing = [], {}
    for k, tr in res:
        d = tr["push"][0]
        if len(tr["push"]) == 1 and d["kind"] == "wire" and "report-status" not in d["caps"]:
            twin = {"refs0": tr["refs0"], "store0": tr["store0"],
                    "push": [{**d, "caps": sorted(set(d["caps"]) | {"report-status"})}]}
            tk = case_key(twin)
            quiet.append((tr, tk))
            if tk not in by_key:
                missing[tk] = twin
    if missing:
        for tk, ttr in pool_run(ctx, "seq", [(tk, missing[tk], opts) for tk in sorted(missing)], chunk=50):
            by_key[tk] = ttr
    n = 0
    for tr, tk in quiet:
        t = by_key[tk]
        td = [e for e in t["ev"] if e["op"] == "done"][-1]
        for e in tr["ev"]:
            if e["op"] == "done":
                e["implied"] = td["st"] if td["unp"] == "ok" else ["-"] * len(td["st"])
                e["twinrefs"], e["twinstore"] = td["refs"], td["store"]
                n += 1
    ctx.cov["pairs_with_without_report_status"] = ctx.cov.get("pairs_with_without_report_status", 0) + n
    return res


# --------------------------------------------------------------------------- R: behaviours of the spec on the real code
def case_key(case):
    return json.dumps([case["refs0"], case["store0"], case["push"]], sort_keys=True, separators=(",", ":"))


def replay_space(ctx, judge, label, behs, *, race=False, opts=None):
    """Execute every emitted behaviour's case; compare projections (both inclusions)."""
    opts = opts or {}
    model = {}
    cases = {}
    keep = opts.get("filter")
    for b in behs:
        case = L.case_of_behaviour(b)
        if keep is not None and not keep(case):
            continue
        k = case_key(case)
        cases[k] = {**case, **opts.get("case_extra", {})}
        model.setdefault(k, set()).add(L.project_model(b))
    opts = {k: v for k, v in opts.items() if k not in ("filter", "case_extra")}
    items = [(k, cases[k], opts) for k in sorted(cases)]
    res = pool_run(ctx, "race" if race else "seq", items, chunk=6 if race else 50)
    if not race:
        res = pair_quiet(ctx, res, opts)
    real = {}
    nexec = 0
    for k, tr in res:
        nexec += 1
        pr = L.project_real(tr)
        real.setdefault(k, {})[pr] = tr
        tr["label"] = label
        tr["_tid"] = judge.add(label, tr)
        ctx.nontrivial((label, k, pr))
    nbad = 0
    for k in sorted(cases):
        m, r = model[k], real.get(k, {})
        for pr in sorted(set(r) - m, key=repr):
            nbad += 1
            # drift only if the property held on that execution (decided once TLC has judged it)
            judge.pending.append((r[pr]["_tid"], f"{label}: the real code behaves in a way RecvPack does not allow for this case: "
                                                 f"case={k} real={pr} spec={sorted(m, key=repr)[:3]}"))
        for pm in sorted(m - set(r), key=repr):
            nbad += 1
            if nbad <= 5:
                ctx.drift_event(f"{label}: behaviour of RecvPack not reproduced by the real code under any explored schedule: case={k} "
                                f"spec={pm} real={sorted(r, key=repr)[:3]}")
            else:
                ctx.cov["drift"] += 1
    ctx.log(f"{label}: {sum(len(m) for m in model.values())} behaviours of {len(cases)} cases from TLC, {nexec} real executions, {nbad} mismatches")
    if res:
        k, tr = res[len(res) // 2]
        ctx.sample({"kind": label, "case": json.loads(k), "real": repr(L.project_real(tr)), "spec": repr(sorted(model[k], key=repr)[:2])}, limit=8)
    return nexec


# --------------------------------------------------------------------------- run
def run(ctx):
    os.makedirs(ctx.scratch, exist_ok=True)
    for f in os.listdir(ctx.replay_dir):        # replay files of earlier runs
        if f.endswith(".json"):
            os.unlink(os.path.join(ctx.replay_dir, f))
    tpl = _tpl(ctx.scratch)
    flags = probe_flags(ctx, tpl)
    ctx.cov["design_parameters"] = flags
    behs = tlc_phase(ctx, flags)
    judge = Judge(ctx, flags)
    # R: every behaviour TLC enumerated, on the real code
    replay_space(ctx, judge, "wire-seq", behs["wire-seq"])
    replay_space(ctx, judge, "local-seq", behs["local-seq"])
    replay_space(ctx, judge, "wire-race", behs["wire-race"], race=True, opts={"maxp": ctx.pick(2, 4)})
    replay_space(ctx, judge, "local-race", behs["local-race"], race=True, opts={"maxp": ctx.pick(2, 4)})
    # the same racing behaviours with the contended ref packed-only / loose + packed, and one more scheduling point
    # inside every ref operation: the acquisition of <ref>.lock (between the operation's reads of packed-refs and
    # its compare-and-write under the lock).  The value "before" is then the one read when the lock is held.

    def contended(case):
        p1, p2 = case["push"]
        return (case["refs0"][0] != 0 and any(c["r"] == 1 for c in p1["cmds"])
                and (not ctx.quick or p2["cmds"][0]["old"] == case["refs0"][0]))
    for layout in ("packed", "both"):
        replay_space(ctx, judge, f"wire-race-{layout}", behs["wire-race"], race=True,
                     opts={"maxp": ctx.pick(2, 3), "limit": ctx.pick(80, 600), "filter": contended,
                           "case_extra": {"layout": layout, "lockyield": True}})

    # the other ref backends: every behaviour of BackendSeq / the local space and the racing behaviours on a contended
    # ref (two creates of the same absent ref, create against delete, update against update ...) with the server
    # repository on the reftable backend (extensions.refStorage), the sequential ones also with every ref packed-only.
    # Scheduling grain for reftable: the ref operation (its compare and its write are not separated here).
    def on_ref1(case):
        p1, p2 = case["push"]
        return any(c["r"] == 1 for c in p1["cmds"]) and (not ctx.quick or p2["cmds"][0]["old"] == case["refs0"][0])
    for layout in ("reftable", "packed"):
        replay_space(ctx, judge, f"backend-seq-{layout}", behs["backend-seq"], opts={"case_extra": {"layout": layout}})
    replay_space(ctx, judge, "local-seq-reftable", behs["local-seq"], opts={"case_extra": {"layout": "reftable"}})
    replay_space(ctx, judge, "wire-race-reftable", behs["wire-race"], race=True,
                 opts={"maxp": ctx.pick(2, 3), "limit": ctx.pick(60, 600), "filter": on_ref1, "case_extra": {"layout": "reftable"}})
    replay_space(ctx, judge, "local-race-reftable", behs["local-race"], race=True,
                 opts={"maxp": ctx.pick(2, 3), "limit": ctx.pick(60, 600), "filter": on_ref1, "case_extra": {"layout": "reftable"}})

    # S: three real pushes (two receive-pack handlers and a local push) on the same two refs, every schedule with a
    # bounded number of preemptions at ref-operation grain; judged by the monitor only
    A2 = W([(1, 1, 3), (2, 1, 3)], caps=("report-status", "atomic"), pack=(3,))
    N2 = W([(2, 1, 3), (1, 1, 3)], caps=("report-status",), pack=(3,))
    U = W([(1, 1, 2)])
    D = W([(1, 1, 0)])
    X = W([(2, 1, 4)])
    LA = W([(2, 0, 0), (1, 0, 3)], kind="local", caps=("atomic",), pack=(3,))
    LN = W([(1, 0, 2), (2, 0, 2)], kind="local", caps=())
    items = []
    for n, tri in enumerate([(A2, U, LA), (A2, D, LN), (N2, U, LA), (U, D, X), (LA, LN, U), (A2, N2, D)]):
        for layout in ("loose", "packed"):
            items.append((f"sched3-{n}-{layout}", {"refs0": [1, 1], "store0": [1, 2], "push": list(tri), "layout": layout},
                          {"maxp": ctx.pick(2, 3), "limit": ctx.pick(60, 2500)}))
    for k, tr in pool_run(ctx, "race", items, chunk=1):
        tr["label"] = "sched3"
        judge.add("sched3", tr)
        ctx.nontrivial(("sched3", k, L.project_real(tr)))

    # T: random larger pushes, other layouts, stateless-rpc, up to three pushers under random schedules
    n = ctx.pick(600, 12000)
    items = [(f"rand{ctx.seed}-{i}", ctx.seed * 1000003 + i, {}) for i in range(n)]
    for k, tr in pool_run(ctx, "rand", items, chunk=50):
        tr["label"] = "random"
        tr["rand_seed"] = k
        judge.add("random", tr)
        ctx.nontrivial(("random", k))

    # third opinion: C git pushing to a dulwich TCP server (and to C git itself, to validate the spec)
    from .. import c06_git
    c06_git.run(ctx, judge, tpl, behs["git-solo-ref"] + behs["git-race-ref"], behs["git-solo-code"] + behs["git-race-code"])

    judge.run()
    ctx.cov["rule"] = ("one real execution per (case, schedule); distinct = distinct (space, case, projection of the execution: ref "
                       "operations in global order with value before/after, statuses told to the client, final refs and store); every "
                       "case has at least one ref command, i.e. exercises the antecedent of the property")
    ctx.assumptions += [
        "values are fixture commits; `has the object` means the commit named by a ref is in the server's object store (closure completeness is C05)",
        "two or three pushers interleave at ref-operation grain (start of a push, client callbacks, every set_if_equals/remove_if_equals; in the packed / loose+packed race spaces also the acquisition of <ref>.lock inside the operation, from which point the operation runs as one step); finer system-call grain of the ref files is C08",
        "a push whose connection breaks (handler exception) tells the client nothing and is judged only by NoDanglingRef/Atomic",
        "ref value before/after an operation is read from the loose file / packed-refs directly, object membership through a fresh DiskObjectStore",
        f"design parameters of RecvPack taken from probe pushes on the code under test: {flags}",
    ]
    return ctx.finish(exhaustive=False)


def replay(ctx, path):
    obj = json.load(open(path))
    tr0 = obj["trace"]
    print(json.dumps({k: v for k, v in obj.items() if k != "trace"}, indent=1))
    tpl = _tpl(ctx.scratch)
    case = {"refs0": tr0["refs0"], "store0": tr0["store0"], "push": tr0["push"], "layout": tr0.get("layout", "loose"),
            "lockyield": tr0.get("lockyield", False)}
    if tr0.get("via") in ("git", "dulwich", "http", "subprocess"):
        from .. import c06_git
        tr = c06_git.rerun(ctx, tpl, tr0)
    else:
        tr = L.run_case(tpl, case, tr0.get("choices", ()), stateless=tr0.get("stateless", False))
        if len(case["push"]) == 1:
            pair_quiet(ctx, [(case_key(case), tr)], {"stateless": tr0.get("stateless", False)})
    print("re-executed on the current tree:")
    for e in tr["ev"]:
        print("   ", json.dumps(e))
    flags = probe_flags(ctx, tpl)
    ctx.known = []
    j = Judge(ctx, flags)
    j.add("replay", tr)
    j.run()
    print("verdict:", "property violated" if ctx.violations else "no violation on the current tree")
    return 1 if ctx.violations else 0

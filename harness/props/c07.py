"""C07 -- lock files: mutual exclusion and all-or-nothing replacement.

Spec: specs/LockFile.tla (+ LockFileTrace.tla).  Binding:
  S+T  real _GitFile actors under the deterministic scheduler, every schedule with a bounded
       number of preemptions, every execution validated by TLC against LockFileTrace;
  T    exhaustive fault injection (every interposed call x error kinds) into _GitFile and into
       every dulwich routine that writes through the lock protocol;
  R    every transition of the TLC state graph of LockFile replayed on the real _GitFile.
"""
from __future__ import annotations

import errno
import json
import os
import shutil

from .. import sched, tlc
from ..core import MachineryError

NONE, OLD, TORN = -1, -2, -3
CH = {"b": 16, "t": 10000}       # buffered / written-through chunk sizes (io.DEFAULT_BUFFER_SIZE = 8192)
OLDBYTES = b"old content\n"
OPS = {"open_excl", "open_w", "fwrite", "fflush", "fsync", "fclose", "replace", "rename", "unlink", "ret"}


def no_lock_unlink_fault(op, path):
    # a failing unlink of the lock file itself cannot be handled by any implementation
    return not (op == "unlink" and path is not None and path.endswith(".lock"))


# --------------------------------------------------------------------------- direct _GitFile scenario
class Direct:
    """n actors, each: GitFile(path,'wb'); write chunks; close()|abort().  plans[a] =
    dict(chunks='bt..', end='close'|'abort'|None, fsync=bool).  end None = actor never starts."""

    def __init__(self, ctx, plans, faults=None):
        self.ctx, self.plans = ctx, plans
        self.root = ctx.tmpdir("c07")
        self.path = os.path.join(self.root, "t")
        with open(self.path, "wb") as f:
            f.write(OLDBYTES)
        self.old_ino = os.stat(self.path).st_ino
        self.creator = {}
        self.world = sched.World(self.root, observe=self.observe, fault=faults,
                                 yield_ops=OPS - {"ret"}, fault_ops=OPS - {"ret", "open_excl"})
        self.world.fault_pred = no_lock_unlink_fault

    def bounds(self, a):
        out, t = [0], 0
        for c in self.plans[a]["chunks"]:
            t += CH[c]
            out.append(t)
        return out

    def classify(self, p):
        try:
            st = sched._real["stat"](p)
        except FileNotFoundError:
            return NONE, 0
        with sched._real["builtins.open"](p, "rb") as f:
            data = f.read()
        if data == OLDBYTES and st.st_ino == self.old_ino:
            return OLD, 0
        a = self.creator.get(st.st_ino)
        if a is None:
            return TORN, 0
        if data.strip(bytes([65 + a])):
            return TORN, 0
        b = self.bounds(a)
        if len(data) in b:
            return a, b.index(len(data))
        return TORN, 0

    def observe(self, world, ev):
        if ev["op"] in ("open_excl", "open_w") and ev.get("ok"):
            try:
                self.creator[sched._real["stat"](os.path.join(self.root, ev["p"])).st_ino] = ev["a"]
            except OSError:
                pass
        ev["lw"], ev["ln"] = self.classify(self.path + ".lock")
        ev["tw"], ev["tn"] = self.classify(self.path)

    def actor(self, a):
        from dulwich.file import FileLocked, GitFile
        plan = self.plans[a]

        def body():
            try:
                f = GitFile(self.path, "wb", fsync=plan.get("fsync", True))
            except FileLocked:
                return "locked"
            try:
                for c in plan["chunks"][:plan.get("nwrite", 99)]:
                    f.write(bytes([65 + a]) * CH[c])
            except BaseException:
                f.abort()
                raise
            if plan["end"] == "close":
                f.close()
                return "ok"
            f.abort()
            return "aborted"
        return body

    def run(self, prefix=(), rng=None, p_switch=0.0):
        actors = {a: self.actor(a) for a in self.plans}
        s = sched.Scheduler(self.world, actors, prefix, rng=rng, p_switch=p_switch)
        with sched.Interposer(self.world):
            s.run()
        self.sched = s
        shutil.rmtree(self.root, ignore_errors=True)
        return s

    def trace(self, tid, nactors=3):
        s = self.sched
        ev = []
        for e in self.world.events:
            if e["op"] not in OPS:
                continue
            r = {"a": e["a"], "op": e["op"], "ok": bool(e.get("ok", True)), "lw": e["lw"], "ln": e["ln"],
                 "tw": e["tw"], "tn": e["tn"], "out": ""}
            if e["op"] == "ret":
                res = s.results[e["a"]]
                r["out"] = "failed" if res.exc else str(res.value)
                r["ok"] = r["out"] in ("ok", "aborted", "locked")
            ev.append(r)
        of = [len(self.plans[a]["chunks"]) if a in self.plans else 0 for a in range(nactors)]
        return {"tid": tid, "of": of, "ev": ev}


# --------------------------------------------------------------------------- TLC batch validation
def validate_batch(ctx, traces, label, meta):
    """traces: list of trace dicts (tid unique).  meta[tid] = replay info.  Returns #validated."""
    if not traces:
        return 0
    d = ctx.tmpdir("tr")
    total = 0
    B = 4000
    for i in range(0, len(traces), B):
        chunk = traces[i:i + B]
        path = os.path.join(d, f"traces{i}.ndjson")
        with open(path, "w") as f:
            for t in chunk:
                f.write(json.dumps(t, separators=(",", ":")) + "\n")
        res = tlc.run("LockFileTrace.tla", "LockFileTrace.cfg", workers=1, timeout=1800,
                      env={"TRACE_FILE": path})
        ctx.add_tlc(f"LockFileTrace[{label}:{i}]", res, require_ok=False)
        verdicts = {}
        for line in res.output.splitlines():
            if line.startswith('<<"VERDICT"'):
                v = tlc.tlaval.parse(line.strip())
                cur = verdicts.get(v[1])
                if cur is None or (cur[2] == "ok" and v[2] != "ok"):
                    verdicts[v[1]] = v
        if not res.completed or len(verdicts) != len(chunk):
            raise MachineryError(f"trace validation incomplete ({len(verdicts)}/{len(chunk)} verdicts)\n{res.output[-3000:]}")
        for t in chunk:
            _, tid, verdict, fail_at, drift_at = verdicts[t["tid"]]
            total += 1
            m = meta[tid]
            if verdict != "ok":
                e = t["ev"][fail_at - 1]
                sig = f"{m['site']}|{verdict}|{m['scenario']}"
                ctx.violation(sig, f"{verdict} violated at event {fail_at} ({e['op']} by actor {e['a']}) in {m['site']} {m['scenario']}",
                              {"clause": verdict, "fail_at": fail_at, "trace": t, "meta": m})
            elif drift_at and m.get("strict", True):
                e = t["ev"][drift_at - 1]
                ctx.drift_event(f"{m['site']} {m['scenario']}: event {drift_at} {e['op']}(ok={e['ok']}) by {e['a']} is not a LockFile step")
    shutil.rmtree(d, ignore_errors=True)
    return total


# --------------------------------------------------------------------------- mode A: schedules
PLAN_MENU = [
    {"chunks": "b", "end": "close"},
    {"chunks": "bt", "end": "close"},
    {"chunks": "tb", "end": "close", "fsync": False},
    {"chunks": "b", "end": "abort"},
    {"chunks": "t", "end": "abort"},
]


def mode_schedules(ctx, tid0):
    traces, meta = [], {}
    tid = tid0
    combos = []
    if ctx.quick:
        combos = [((0, 1), 4, None), ((0, 3, 1), 2, 600), ((1, 2, 4), 2, 300)]
    else:
        combos = [((0, 1), 6, None), ((1, 3), 6, None), ((2, 4), 6, None), ((1, 1), 5, None), ((0, 3, 1), 3, None),
                  ((1, 2, 4), 3, 8000), ((0, 0, 0), 4, 10000), ((2, 1, 3), 3, 8000)]
    for menu_idx, maxp, limit in combos:
        plans = {a: dict(PLAN_MENU[i]) for a, i in enumerate(menu_idx)}

        def run_once(prefix, plans=plans):
            d = Direct(ctx, plans)
            d.run(prefix)
            d.sched.direct = d
            return d.sched
        n = 0
        for s in sched.explore(run_once, max_preempt=maxp, limit=limit, rng=ctx.rng if limit else None):
            tid += 1
            n += 1
            t = s.direct.trace(tid)
            traces.append(t)
            scen = f"plans={menu_idx}"
            meta[tid] = {"site": "dulwich/file.py:_GitFile", "scenario": scen, "choices": s.choices(), "plans": plans}
            ctx.count()
            ctx.nontrivial(("sched", menu_idx, tuple((e["a"], e["op"], e["ok"]) for e in t["ev"])))
        ctx.log(f"schedules plans={menu_idx} preempt<={maxp}: {n} executions")
    ctx.sample({"kind": "schedule", "trace": traces[len(traces) // 2]})
    return traces, meta, tid


# --------------------------------------------------------------------------- mode B1: faults in _GitFile
def exc_menu():
    return [("ENOSPC", lambda: OSError(errno.ENOSPC, "No space left on device (injected)")),
            ("EIO", lambda: OSError(errno.EIO, "I/O error (injected)")),
            ("EPERM", lambda: PermissionError(errno.EPERM, "Operation not permitted (injected)")),
            ("KeyboardInterrupt", lambda: KeyboardInterrupt())]


def mode_direct_faults(ctx, tid0):
    traces, meta = [], {}
    tid = tid0
    for pi in ([1, 3] if ctx.quick else range(len(PLAN_MENU))):
        plan = dict(PLAN_MENU[pi])
        # reference run: number of fault-eligible calls
        d = Direct(ctx, {0: plan})
        d.run()
        ncalls = d.world.ncalls.get(0, 0)
        for k in range(ncalls):
            for ename, mk in (exc_menu()[:2] + exc_menu()[3:] if ctx.quick else exc_menu()):
                # alone, and racing a second writer under every schedule with <= 1 preemption
                for other in (None, 0):
                    plans = {0: plan} if other is None else {0: plan, 1: dict(PLAN_MENU[other])}

                    def run_once(prefix, plans=plans, k=k, mk=mk):
                        d = Direct(ctx, plans, faults=sched.Fault(0, k, mk()))
                        d.run(prefix)
                        d.sched.direct = d
                        return d.sched
                    for s in sched.explore(run_once, max_preempt=(1 if ctx.quick else 2) if other is not None else 0,
                                           limit=None if not ctx.quick else 60):
                        tid += 1
                        t = s.direct.trace(tid)
                        traces.append(t)
                        meta[tid] = {"site": "dulwich/file.py:_GitFile", "scenario": f"fault={ename}@{k} plan={pi} other={other}",
                                     "choices": s.choices(), "plans": plans}
                        ctx.count()
                        ctx.nontrivial(("dfault", pi, k, ename, other, tuple((e["a"], e["op"], e["ok"]) for e in t["ev"])))
    ctx.sample({"kind": "fault", "trace": traces[-1]})
    ctx.log(f"direct faults: {len(traces)} executions")
    return traces, meta, tid


# --------------------------------------------------------------------------- mode B2: faults in callers
def _repo(root):
    from dulwich.repo import Repo
    r = Repo.init(root)
    return r


EXPECT_UNCHANGED = set()     # scenarios whose operation must leave the protected file as it was


def caller_scenarios():
    """name -> setup(root) returning (fn, [(lockrel, targetrel)]); fn performs the write."""
    from dulwich.objects import Blob, Commit, Tree
    Z = b"0" * 40
    A, B = b"a" * 40, b"b" * 40
    S = {}

    def index_write(root):
        from dulwich.index import Index, IndexEntry
        p = os.path.join(root, "index")
        idx = Index(p)
        idx[b"old"] = IndexEntry((1, 0), (1, 0), 1, 1, 0o100644, 0, 0, 3, A, 0, 0)
        idx.write()
        idx2 = Index(p)
        for i in range(3):
            idx2[b"f%d" % i] = IndexEntry((1, 0), (1, 0), 1, 1, 0o100644, 0, 0, 3, B, 0, 0)
        return idx2.write, [("index.lock", "index")]
    S["index.py:Index.write"] = index_write

    def index_write_skiphash(root):
        from dulwich.index import Index, IndexEntry
        p = os.path.join(root, "index")
        idx = Index(p)
        idx[b"old"] = IndexEntry((1, 0), (1, 0), 1, 1, 0o100644, 0, 0, 3, A, 0, 0)
        idx.write()
        idx2 = Index(p, skip_hash=True)
        idx2[b"new"] = IndexEntry((1, 0), (1, 0), 1, 1, 0o100644, 0, 0, 3, B, 0, 0)
        return idx2.write, [("index.lock", "index")]
    S["index.py:Index.write[skip_hash]"] = index_write_skiphash

    def mkrefs(root, packed=False):
        from dulwich.refs import DiskRefsContainer
        os.makedirs(os.path.join(root, "refs", "heads"), exist_ok=True)
        c = DiskRefsContainer(root)
        c[b"refs/heads/m"] = A
        c[b"refs/heads/n"] = A
        c.set_symbolic_ref(b"HEAD", b"refs/heads/m")
        if packed:
            c.pack_refs(all=True)
        return DiskRefsContainer(root)

    def ref_set_if_equals(root):
        c = mkrefs(root)
        return (lambda: c.set_if_equals(b"refs/heads/m", A, B)), [("refs/heads/m.lock", "refs/heads/m")]
    S["refs.py:DiskRefsContainer.set_if_equals"] = ref_set_if_equals

    def ref_set_via_head(root):
        c = mkrefs(root)
        return (lambda: c.set_if_equals(b"HEAD", A, B)), [("refs/heads/m.lock", "refs/heads/m"), ("HEAD.lock", "HEAD")]
    S["refs.py:DiskRefsContainer.set_if_equals[HEAD]"] = ref_set_via_head

    def ref_setitem(root):
        c = mkrefs(root)
        return (lambda: c.__setitem__(b"refs/heads/m", B)), [("refs/heads/m.lock", "refs/heads/m")]
    S["refs.py:DiskRefsContainer.__setitem__"] = ref_setitem

    def ref_add_if_new(root):
        c = mkrefs(root)
        return (lambda: c.add_if_new(b"refs/heads/x", B)), [("refs/heads/x.lock", "refs/heads/x")]
    S["refs.py:DiskRefsContainer.add_if_new"] = ref_add_if_new

    def ref_remove(root):
        c = mkrefs(root)
        return (lambda: c.remove_if_equals(b"refs/heads/m", A)), [("refs/heads/m.lock", "refs/heads/m")]
    S["refs.py:DiskRefsContainer.remove_if_equals"] = ref_remove

    def ref_remove_packed(root):
        c = mkrefs(root, packed=True)
        return (lambda: c.remove_if_equals(b"refs/heads/m", A)), [("packed-refs.lock", "packed-refs"), ("refs/heads/m.lock", "refs/heads/m")]
    S["refs.py:DiskRefsContainer.remove_if_equals[packed]"] = ref_remove_packed

    def ref_symbolic(root):
        c = mkrefs(root)
        return (lambda: c.set_symbolic_ref(b"HEAD", b"refs/heads/n")), [("HEAD.lock", "HEAD")]
    S["refs.py:DiskRefsContainer.set_symbolic_ref"] = ref_symbolic

    def ref_pack(root):
        c = mkrefs(root)
        return (lambda: c.pack_refs(all=True)), [("packed-refs.lock", "packed-refs")]
    S["refs.py:DiskRefsContainer.pack_refs"] = ref_pack

    def ref_add_packed(root):
        c = mkrefs(root, packed=True)
        return (lambda: c.add_packed_refs({b"refs/heads/z": B, b"refs/heads/n": None})), [("packed-refs.lock", "packed-refs")]
    S["refs.py:DiskRefsContainer.add_packed_refs"] = ref_add_packed

    def locked_ref_noop(root):
        from dulwich.refs import locked_ref
        c = mkrefs(root)

        def do():
            with locked_ref(c, b"refs/heads/m") as lr:
                if lr.ensure_equals(B):      # it holds A: nothing is written
                    lr.set(A)
        return do, [("refs/heads/m.lock", "refs/heads/m")]
    S["refs.py:locked_ref[condition false, nothing written]"] = locked_ref_noop
    EXPECT_UNCHANGED.add("refs.py:locked_ref[condition false, nothing written]")

    def locked_ref_set(root):
        from dulwich.refs import locked_ref
        c = mkrefs(root)

        def do():
            with locked_ref(c, b"refs/heads/m") as lr:
                if lr.ensure_equals(A):
                    lr.set(B)
        return do, [("refs/heads/m.lock", "refs/heads/m")]
    S["refs.py:locked_ref.set"] = locked_ref_set

    def locked_ref_delete(root):
        from dulwich.refs import locked_ref
        c = mkrefs(root, packed=True)

        def do():
            with locked_ref(c, b"refs/heads/m") as lr:
                lr.delete()
        return do, [("packed-refs.lock", "packed-refs"), ("refs/heads/m.lock", "refs/heads/m")]
    S["refs.py:locked_ref.delete[packed]"] = locked_ref_delete

    def locked_index_ctx(root):
        from dulwich.index import Index, IndexEntry, locked_index
        p = os.path.join(root, "index")
        idx = Index(p)
        idx[b"old"] = IndexEntry((1, 0), (1, 0), 1, 1, 0o100644, 0, 0, 3, A, 0, 0)
        idx.write()

        def do():
            with locked_index(p) as ix:
                for i in range(3):
                    ix[b"n%d" % i] = IndexEntry((1, 0), (1, 0), 1, 1, 0o100644, 0, 0, 3, B, 0, 0)
        return do, [("index.lock", "index")]
    S["index.py:locked_index"] = locked_index_ctx

    def config_write(root):
        from dulwich.config import ConfigFile
        p = os.path.join(root, "config")
        c = ConfigFile()
        c.set((b"core",), b"bare", b"false")
        c.write_to_path(p)
        c2 = ConfigFile.from_path(p)
        c2.set((b"user",), b"name", b"x y")
        c2.set((b"remote", b"origin"), b"url", b"https://example.com/" + b"r" * 100)
        return (lambda: c2.write_to_path(p)), [("config.lock", "config")]
    S["config.py:ConfigFile.write_to_path"] = config_write

    def add_object(root):
        from dulwich.object_store import DiskObjectStore
        os.makedirs(os.path.join(root, "objects", "info"), exist_ok=True)
        os.makedirs(os.path.join(root, "objects", "pack"), exist_ok=True)
        st = DiskObjectStore(os.path.join(root, "objects"))
        b = Blob.from_string(b"hello world\n" * 10)
        hx = b.id.decode()
        return (lambda: st.add_object(b)), [(f"objects/{hx[:2]}/{hx[2:]}.lock", f"objects/{hx[:2]}/{hx[2:]}")]
    S["object_store.py:DiskObjectStore.add_object"] = add_object

    def add_alternate(root):
        from dulwich.object_store import DiskObjectStore
        os.makedirs(os.path.join(root, "objects", "info"), exist_ok=True)
        os.makedirs(os.path.join(root, "objects", "pack"), exist_ok=True)
        os.makedirs(os.path.join(root, "alt1"), exist_ok=True)
        os.makedirs(os.path.join(root, "alt2"), exist_ok=True)
        st = DiskObjectStore(os.path.join(root, "objects"))
        st.add_alternate_path(os.path.join(root, "alt1"))
        return (lambda: st.add_alternate_path(os.path.join(root, "alt2"))), [("objects/info/alternates.lock", "objects/info/alternates")]
    S["object_store.py:DiskObjectStore.add_alternate_path"] = add_alternate

    def put_named(root):
        r = _repo(root)
        r._put_named_file("description", b"first description\n")
        return (lambda: r._put_named_file("description", b"second, longer description\n" * 3)), [(".git/description.lock", ".git/description")]
    S["repo.py:Repo._put_named_file"] = put_named

    def shallow(root):
        r = _repo(root)
        r.update_shallow([A], None)
        return (lambda: r.update_shallow([B], None)), [(".git/shallow.lock", ".git/shallow")]
    S["repo.py:Repo.update_shallow"] = shallow

    def commit_graph(root):
        r = _repo(root)
        t = Tree()
        r.object_store.add_object(t)
        ids = []
        parent = []
        for i in range(3):
            c = Commit()
            c.tree = t.id
            c.parents = parent
            c.author = c.committer = b"a <a@b>"
            c.author_time = c.commit_time = 100 + i
            c.author_timezone = c.commit_timezone = 0
            c.message = b"m%d" % i
            r.object_store.add_object(c)
            parent = [c.id]
            ids.append(c.id)
        r.object_store.write_commit_graph([ids[0]])
        return (lambda: r.object_store.write_commit_graph(ids)), [(".git/objects/info/commit-graph.lock", ".git/objects/info/commit-graph")]
    S["object_store.py:DiskObjectStore.write_commit_graph"] = commit_graph

    def packidx(root):
        from dulwich.pack import write_pack_index
        p = os.path.join(root, "x.idx")
        ents = [(bytes([i]) * 20, 12 + i * 20, i) for i in range(1, 4)]
        from dulwich.file import GitFile

        def do(entries):
            with GitFile(p, "wb") as f:
                write_pack_index(f, entries, b"\x01" * 20)
        do(ents[:1])
        return (lambda: do(ents)), [("x.idx.lock", "x.idx")]
    S["pack.py:write_pack_index via GitFile"] = packidx

    # ---- remaining routines that write through the lock protocol (every `GitFile(..., "wb")` of dulwich/)
    def _blobs(n, salt=b""):
        return [Blob.from_string(salt + b"blob %d\n" % i * (i + 3)) for i in range(n)]

    def midx_file(root):
        from dulwich.midx import write_midx_file
        p = os.path.join(root, "multi-pack-index")
        e1 = [("pack-a.idx", [(bytes([i]) * 20, 12 + 30 * i, i) for i in range(1, 3)])]
        e2 = [("pack-a.idx", [(bytes([i]) * 20, 12 + 30 * i, i) for i in range(1, 3)]),
              ("pack-b.idx", [(bytes([i]) * 20, 12 + 30 * i, i) for i in range(3, 7)])]
        write_midx_file(p, e1)
        return (lambda: write_midx_file(p, e2)), [("multi-pack-index.lock", "multi-pack-index")]
    S["midx.py:write_midx_file"] = midx_file

    def commit_graph_module(root):
        from dulwich.commit_graph import write_commit_graph
        r = _repo(root)
        t = Tree()
        r.object_store.add_object(t)
        ids, parent = [], []
        for i in range(3):
            c = Commit()
            c.tree = t.id
            c.parents = parent
            c.author = c.committer = b"a <a@b>"
            c.author_time = c.commit_time = 100 + i
            c.author_timezone = c.commit_timezone = 0
            c.message = b"g%d" % i
            r.object_store.add_object(c)
            parent = [c.id]
            ids.append(c.id)
        gd = os.path.join(root, ".git")
        write_commit_graph(gd, r.object_store, [ids[0]])
        return (lambda: write_commit_graph(gd, r.object_store, ids)), [(".git/objects/info/commit-graph.lock", ".git/objects/info/commit-graph")]
    S["commit_graph.py:write_commit_graph"] = commit_graph_module

    def _packfile(root, name, blobs):
        from dulwich.object_format import DEFAULT_OBJECT_FORMAT
        from dulwich.pack import write_pack
        base = os.path.join(root, name)
        write_pack(base, blobs, DEFAULT_OBJECT_FORMAT)
        return base

    def write_pack_both(root):
        from dulwich.object_format import DEFAULT_OBJECT_FORMAT
        from dulwich.pack import write_pack
        base = _packfile(root, "wp", _blobs(2))
        more = _blobs(5, b"x")
        return (lambda: write_pack(base, more, DEFAULT_OBJECT_FORMAT)), [("wp.pack.lock", "wp.pack"), ("wp.idx.lock", "wp.idx")]
    S["pack.py:write_pack"] = write_pack_both

    def _create_index(version):
        def setup(root):
            from dulwich.object_format import DEFAULT_OBJECT_FORMAT
            from dulwich.pack import PackData
            base = _packfile(root, "ci", _blobs(4))
            with open(base + ".idx", "wb") as f:
                f.write(b"stale index content\n")
            pd = PackData(base + ".pack", object_format=DEFAULT_OBJECT_FORMAT)
            fn = getattr(pd, f"create_index_v{version}")
            return (lambda: fn(base + ".idx")), [("ci.idx.lock", "ci.idx")]
        return setup
    for v in (1, 2, 3):
        S[f"pack.py:PackData.create_index_v{v}"] = _create_index(v)

    def pack_keep(root):
        from dulwich.object_format import DEFAULT_OBJECT_FORMAT
        from dulwich.pack import Pack
        base = _packfile(root, "kp", _blobs(2))
        pk = Pack(base, object_format=DEFAULT_OBJECT_FORMAT)
        pk.keep(b"first")
        return (lambda: pk.keep(b"second reason, longer than the first one")), [("kp.keep.lock", "kp.keep")]
    S["pack.py:Pack.keep"] = pack_keep

    def bitmap_file(root):
        from dulwich.bitmap import write_bitmap
        r = _repo(root)
        t = Tree()
        r.object_store.add_object(t)
        ids, parent = [], []
        for i in range(3):
            c = Commit()
            c.tree = t.id
            c.parents = parent
            c.author = c.committer = b"a <a@b>"
            c.author_time = c.commit_time = 100 + i
            c.author_timezone = c.commit_timezone = 0
            c.message = b"b%d" % i
            r.object_store.add_object(c)
            parent = [c.id]
            ids.append(c.id)
        r.refs[b"refs/heads/master"] = ids[-1]
        r.object_store.pack_loose_objects()
        pk = list(r.object_store.packs)[0]
        from dulwich.bitmap import generate_bitmap
        rel = os.path.relpath(pk._basename + ".bitmap", root)
        import inspect
        def gen(refs):
            return generate_bitmap(pk.index, r.object_store, refs, pk.get_stored_checksum())
        bm1 = gen({b"refs/heads/a": ids[0]})
        bm2 = gen({b"refs/heads/a": ids[0], b"refs/heads/b": ids[1], b"refs/heads/master": ids[2]})
        write_bitmap(pk._basename + ".bitmap", bm1)
        return (lambda: write_bitmap(pk._basename + ".bitmap", bm2)), [(rel + ".lock", rel)]
    S["bitmap.py:write_bitmap"] = bitmap_file

    def add_pack_idx(root):
        # DiskObjectStore.add_pack / _complete_pack: the index of a received pack is written through the lock
        import io
        from dulwich.object_format import DEFAULT_OBJECT_FORMAT
        from dulwich.object_store import DiskObjectStore
        from dulwich.pack import write_pack_objects
        os.makedirs(os.path.join(root, "objects", "info"), exist_ok=True)
        os.makedirs(os.path.join(root, "objects", "pack"), exist_ok=True)
        st = DiskObjectStore(os.path.join(root, "objects"))
        buf = io.BytesIO()
        entries, data_sum = write_pack_objects(buf.write, _blobs(3, b"ap"), object_format=DEFAULT_OBJECT_FORMAT)
        from dulwich.pack import iter_sha1
        name = iter_sha1(sorted(entries)).decode() if False else None
        data = buf.getvalue()

        def do():
            f, commit, abort = st.add_pack()
            try:
                f.write(data)
            except BaseException:
                abort()
                raise
            commit()
        # the pack name is only known after a reference run: discover it
        probe = DiskObjectStore(os.path.join(root, "probe"))
        os.makedirs(os.path.join(root, "probe", "pack"), exist_ok=True)
        f, commit, abort = probe.add_pack()
        f.write(data)
        commit()
        idx = [n for n in os.listdir(os.path.join(root, "probe", "pack")) if n.endswith(".idx")][0]
        probe.close()
        return do, [(f"objects/pack/{idx}.lock", f"objects/pack/{idx}")]
    S["object_store.py:DiskObjectStore.add_pack[index]"] = add_pack_idx

    # ---- core.sharedRepository: the lock file's mode is adjusted (stat + chmod) before the rename
    def gitfile_shared(root):
        from dulwich.file import GitFile, SharedPerm
        p = os.path.join(root, "shared.txt")
        with open(p, "wb") as f:
            f.write(b"old shared content\n")

        def do():
            with GitFile(p, "wb", shared_perm=SharedPerm(0o660)) as f:
                f.write(b"new shared content, written through the lock\n" * 3)
        return do, [("shared.txt.lock", "shared.txt")]
    S["file.py:GitFile[shared_perm]"] = gitfile_shared

    def _shared_repo(root):
        from dulwich.repo import Repo
        r = Repo.init(root)
        c = r.get_config()
        c.set((b"core",), b"sharedRepository", b"group")
        c.write_to_path()
        r.close()
        return Repo(root)

    def index_write_shared(root):
        from dulwich.index import IndexEntry
        r = _shared_repo(root)
        idx = r.open_index()
        idx[b"old"] = IndexEntry((1, 0), (1, 0), 1, 1, 0o100644, 0, 0, 3, A, 0, 0)
        idx.write()
        idx2 = r.open_index()
        idx2[b"new"] = IndexEntry((1, 0), (1, 0), 1, 1, 0o100644, 0, 0, 3, B, 0, 0)
        return idx2.write, [(".git/index.lock", ".git/index")]
    S["index.py:Index.write[sharedRepository]"] = index_write_shared

    def alternates_shared(root):
        r = _shared_repo(root)
        os.makedirs(os.path.join(root, "alt1"), exist_ok=True)
        os.makedirs(os.path.join(root, "alt2"), exist_ok=True)
        r.object_store.add_alternate_path(os.path.join(root, "alt1"))
        return (lambda: r.object_store.add_alternate_path(os.path.join(root, "alt2"))), \
            [(".git/objects/info/alternates.lock", ".git/objects/info/alternates")]
    S["object_store.py:add_alternate_path[sharedRepository]"] = alternates_shared

    def loose_shared(root):
        r = _shared_repo(root)
        b = Blob.from_string(b"shared loose object\n" * 12)
        hx = b.id.decode()
        return (lambda: r.object_store.add_object(b)), [(f".git/objects/{hx[:2]}/{hx[2:]}.lock", f".git/objects/{hx[:2]}/{hx[2:]}")]
    S["object_store.py:add_object[sharedRepository]"] = loose_shared

    def put_named_shared(root):
        r = _shared_repo(root)
        r._put_named_file("description", b"first description\n")
        return (lambda: r._put_named_file("description", b"second, longer description\n" * 3)), [(".git/description.lock", ".git/description")]
    S["repo.py:Repo._put_named_file[sharedRepository]"] = put_named_shared

    def shallow_shared(root):
        r = _shared_repo(root)
        r.update_shallow([A], None)
        return (lambda: r.update_shallow([B], None)), [(".git/shallow.lock", ".git/shallow")]
    S["repo.py:Repo.update_shallow[sharedRepository]"] = shallow_shared
    return S


def refused_scenarios():
    """Operations that are REFUSED for a reason that is not an I/O error (a conflicting name, a condition that does
    not hold): name -> setup(root) returning (fn, [(lockrel, targetrel)]).  They must leave the file as it was and
    no lock behind at the moment the refusal reaches the caller."""
    A, B = b"a" * 40, b"b" * 40
    S = {}

    def mk(root):
        from dulwich.refs import DiskRefsContainer
        os.makedirs(os.path.join(root, "refs", "heads"), exist_ok=True)
        c = DiskRefsContainer(root)
        c[b"refs/heads/a"] = A
        c[b"refs/heads/d/e"] = A
        c.set_symbolic_ref(b"HEAD", b"refs/heads/a")
        c.pack_refs(all=True)                 # refs/heads/a and refs/heads/d/e live in packed-refs only
        return DiskRefsContainer(root)

    def symref_dir_conflict(root):
        c = mk(root)
        return (lambda: c.set_symbolic_ref(b"refs/heads/a/b", b"refs/heads/d/e")), [("refs/heads/a/b.lock", "refs/heads/a/b")]
    S["refs.py:set_symbolic_ref[name below a packed ref]"] = symref_dir_conflict

    def symref_file_conflict(root):
        c = mk(root)
        return (lambda: c.set_symbolic_ref(b"refs/heads/d", b"refs/heads/a")), [("refs/heads/d.lock", "refs/heads/d")]
    S["refs.py:set_symbolic_ref[name is a packed directory]"] = symref_file_conflict

    def set_dir_conflict(root):
        c = mk(root)
        return (lambda: c.set_if_equals(b"refs/heads/a/b", None, B)), [("refs/heads/a/b.lock", "refs/heads/a/b")]
    S["refs.py:set_if_equals[name below a packed ref]"] = set_dir_conflict

    def add_dir_conflict(root):
        c = mk(root)
        return (lambda: c.add_if_new(b"refs/heads/d", B)), [("refs/heads/d.lock", "refs/heads/d")]
    S["refs.py:add_if_new[name is a packed directory]"] = add_dir_conflict

    def cas_mismatch(root):
        c = mk(root)
        c[b"refs/heads/x"] = A
        return (lambda: c.set_if_equals(b"refs/heads/x", B, B)), [("refs/heads/x.lock", "refs/heads/x")]
    S["refs.py:set_if_equals[old value does not match]"] = cas_mismatch

    def add_existing(root):
        c = mk(root)
        return (lambda: c.add_if_new(b"refs/heads/a", B)), [("refs/heads/a.lock", "refs/heads/a")]
    S["refs.py:add_if_new[exists packed]"] = add_existing

    def rm_mismatch(root):
        c = mk(root)
        return (lambda: c.remove_if_equals(b"refs/heads/a", B)), [("refs/heads/a.lock", "refs/heads/a"), ("packed-refs.lock", "packed-refs")]
    S["refs.py:remove_if_equals[old value does not match]"] = rm_mismatch

    def bad_value(root):
        c = mk(root)
        c[b"refs/heads/x"] = A
        return (lambda: c.set_if_equals(b"refs/heads/x", A, b"not-a-sha")), [("refs/heads/x.lock", "refs/heads/x")]
    S["refs.py:set_if_equals[invalid new value]"] = bad_value

    return S


class CallerRun:
    def __init__(self, ctx, name, setup, fault=None):
        self.ctx, self.name = ctx, name
        self.root = ctx.tmpdir("c07c")
        self.fn, self.pairs = setup(self.root)
        self.before = {t: self.read(t) for (_, t) in self.pairs}
        self.world = sched.World(self.root, observe=self.observe, fault=fault)
        self.world.fault_pred = no_lock_unlink_fault
        self.obs = []

    def read(self, rel):
        try:
            with sched._real["builtins.open"](os.path.join(self.root, rel), "rb") as f:
                return f.read()
        except (FileNotFoundError, NotADirectoryError):
            return None
        except IsADirectoryError:
            return b"\0directory\0"

    def observe(self, world, ev):
        ev["snap"] = {p: self.read(p) for pair in self.pairs for p in pair}

    def run(self):
        s = sched.Scheduler(self.world, {0: self.fn})
        with sched.Interposer(self.world):
            s.run()
        self.sched = s
        self.after = {t: self.read(t) for (_, t) in self.pairs}
        self.locks_after = {l: self.read(l) for (l, _) in self.pairs}
        shutil.rmtree(self.root, ignore_errors=True)
        return s

    def trace(self, tid, pair, ref_new, bounds):
        """Project the execution on one (lock, target) pair.  ref_new = content a fault-free
        run leaves at the target; bounds = cumulative lock-file sizes after each fwrite of
        the reference run."""
        lockp, tgtp = pair
        old = self.before[tgtp]
        of = max(1, len(bounds) - 1)

        def cl_lock(b):
            if b is None:
                return NONE, 0
            n = max(i for i, x in enumerate(bounds) if x <= len(b)) if bounds else 0
            return 0, min(n, of)

        def cl_tgt(b):
            if b == old:
                return OLD, 0
            if b == ref_new:
                return 0, of
            return TORN, 0
        ev = []
        replaced = False
        for e in self.world.events:
            if e["op"] not in OPS:
                continue
            if e["op"] != "ret" and e.get("p") not in (lockp, tgtp) and e.get("p2") != tgtp:
                continue
            if e.get("p") == tgtp and e["op"] != "unlink":
                continue
            lw, ln = cl_lock(e["snap"][lockp])
            tw, tn = cl_tgt(e["snap"][tgtp])
            r = {"a": 0, "op": e["op"], "ok": bool(e.get("ok", True)), "lw": lw, "ln": ln, "tw": tw, "tn": tn, "out": ""}
            # commit point of the operation on this pair: the lock file renamed over the target, or
            # (delete operations) the target itself unlinked while the lock is held
            if e["op"] in ("replace", "rename") and e.get("ok"):
                replaced = True
            if e["op"] == "unlink" and e.get("p") == tgtp and e.get("ok"):
                replaced = True
            if e["op"] == "ret":
                res = self.sched.results[0]
                r["out"] = "ok" if replaced else ("failed" if res.exc else "aborted")
                r["ok"] = r["out"] != "failed"
            ev.append(r)
        return {"tid": tid, "of": [of, 0, 0], "ev": ev}


def mode_caller_faults(ctx, tid0):
    traces, meta = [], {}
    tid = tid0
    scen = caller_scenarios()
    excs = exc_menu()
    for name, setup in scen.items():
        ref = CallerRun(ctx, name, setup)
        ref.run()
        if ref.sched.results[0].exc:
            raise MachineryError(f"reference run of {name} failed: {ref.sched.results[0].exc} {ref.sched.results[0].exc_msg}")
        if name in EXPECT_UNCHANGED:
            for (lockp, tgtp) in ref.pairs:
                if ref.after[tgtp] != ref.before[tgtp]:
                    ctx.violation(f"{name}|AtomicReplace|no-op operation replaced the file pair={tgtp}",
                                  f"{name}: the operation writes nothing, yet {tgtp} changed from {ref.before[tgtp]!r} to {ref.after[tgtp]!r}",
                                  {"site": name, "before": ref.before[tgtp], "after": ref.after[tgtp]})
        ncalls = ref.world.ncalls.get(0, 0)
        bounds = {}
        for (lockp, tgtp) in ref.pairs:
            b = [0]
            for e in ref.world.events:
                if e["op"] == "fwrite" and e.get("p") == lockp and e.get("ok"):
                    b.append(len(e["snap"][lockp] or b"") if False else b[-1] + e["n"])
            bounds[lockp] = b
        nrun = 0
        ks = list(range(ncalls))
        if ctx.quick and ncalls > 60:
            # long runs of identical writes (256 fan-out words of an index): both ends and a stride
            step = max(1, ncalls // 24)
            ks = sorted(set(ks[:14]) | set(ks[-14:]) | set(ks[::step]))
        for k in ks:
            for ei, (ename, mk) in enumerate(excs):
                if ctx.quick and (k + ei) % 2:
                    continue
                run = CallerRun(ctx, name, setup, fault=sched.Fault(0, k, mk()))
                run.run()
                nrun += 1
                fired = run.world.fault.fired_at
                if fired and run.sched.results[0].exc:
                    # the failing call was made ON THE PROTECTED FILE ITSELF (e.g. its mode adjusted after the rename):
                    # the operation reports failure although it has already replaced the content
                    for (lockp, tgtp) in run.pairs:
                        if fired.get("p") == tgtp and fired.get("op") not in ("unlink", "open_r", "stat", "lstat") \
                                and run.after[tgtp] != run.before[tgtp]:
                            ctx.violation(f"{name}|FailedKeepsOld|fault={ename}@{fired['op']}:{tgtp} after the replace",
                                          f"{name}: {ename} at {fired['op']} of {tgtp} itself: the operation failed, yet the file "
                                          f"already holds the new content", {"site": name, "k": k, "exc": ename})
                for pair in run.pairs:
                    tid += 1
                    t = run.trace(tid, pair, ref.after[pair[1]], bounds[pair[0]])
                    traces.append(t)
                    at = f"{fired['op']}:{fired['p']}" if fired else "none"
                    meta[tid] = {"site": name, "scenario": f"fault={ename}@{at} pair={pair[1]}", "k": k, "strict": False}
                    ctx.nontrivial(("cfault", name, k, ename, pair[1]))
                ctx.count()
        ctx.log(f"caller {name}: {ncalls} fault points, {nrun} runs")
    ctx.sample({"kind": "caller-fault", "meta": meta[tid], "trace": traces[-1]})
    return traces, meta, tid


def mode_refused(ctx, tid0):
    """fault-free runs of operations that are refused: judged like any failed operation (FailedKeepsOld, ReleasedAtExit at
    the moment the refusal reaches the caller, before any finalizer has run)"""
    traces, meta = [], {}
    tid = tid0
    for name, setup in refused_scenarios().items():
        run = CallerRun(ctx, name, setup)
        run.run()
        res = run.sched.results[0]
        refused = bool(res.exc) or res.value is False
        if not refused:
            raise MachineryError(f"scenario {name} was expected to be refused, but returned {res.value!r}")
        for pair in run.pairs:
            tid += 1
            t = run.trace(tid, pair, b"\0never written\0", [0])
            # an operation that returns False without an exception is 'aborted' in the trace vocabulary
            traces.append(t)
            meta[tid] = {"site": name, "scenario": f"refused ({res.exc or 'returned False'}) pair={pair[1]}", "strict": False}
            ctx.nontrivial(("refused", name, pair[1]))
            if run.after[pair[1]] != run.before[pair[1]]:
                ctx.violation(f"{name}|FailedKeepsOld|refused operation changed the file pair={pair[1]}",
                              f"{name}: refused, yet {pair[1]} changed", {"site": name})
        ctx.count()
    ctx.log(f"refused operations: {len(refused_scenarios())} scenarios")
    return traces, meta, tid


_CLI_CHILD = r'''
import os, signal, sys
sys.path.insert(0, sys.argv[1])
import dulwich.cli as cli
_open, _fdopen = os.open, os.fdopen
lockfds = set()
def open_(path, flags, *a, **k):
    fd = _open(path, flags, *a, **k)
    if str(os.fsdecode(path)).endswith(".lock") and (flags & os.O_EXCL):
        lockfds.add(fd)
    return fd
class Interrupting:
    # the file object of a lock file: Ctrl-C arrives when the command first writes to (or closes) it,
    # i.e. while it holds the lock and is inside its own try/with block
    def __init__(self, f):
        object.__setattr__(self, "_f", f)
        object.__setattr__(self, "_sent", False)
    def _hit(self):
        if not self._sent:
            object.__setattr__(self, "_sent", True)
            os.kill(os.getpid(), signal.SIGINT)
    def write(self, b):
        self._hit()
        return self._f.write(b)
    def flush(self):
        self._hit()
        return self._f.flush()
    def __getattr__(self, n):
        return getattr(self._f, n)
    def __setattr__(self, n, v):
        setattr(self._f, n, v)
    def __enter__(self):
        return self
    def __exit__(self, *a):
        return self._f.__exit__(*a)
    def __iter__(self):
        return iter(self._f)
def fdopen_(fd, *a, **k):
    f = _fdopen(fd, *a, **k)
    if fd in lockfds:
        lockfds.discard(fd)
        return Interrupting(f)
    return f
os.open, os.fdopen = open_, fdopen_
os.chdir(sys.argv[2])
sys.argv = ["dulwich"] + sys.argv[3:]
cli._main()
'''


def mode_cli_sigint(ctx):
    """The command-line entry point (python -m dulwich -> cli._main) interrupted by SIGINT at the instant a command has
    taken a lock: the process may die, but it must unwind -- the protected file keeps its old (or gets its complete new)
    content and the lock is released, so that the next invocation is not refused."""
    import subprocess
    from ..core import REPO
    from dulwich.repo import Repo
    n = 0
    for name, prep, argv, lockrel, tgtrel in [
        ("add", lambda root: open(os.path.join(root, "f.txt"), "wb").write(b"content\n"), ["add", "f.txt"], ".git/index.lock", ".git/index"),
        ("branch", lambda root: None, ["branch", "topic"], ".git/refs/heads/topic.lock", ".git/refs/heads/topic"),
        ("config", lambda root: None, ["config", "user.name", "someone"], ".git/config.lock", ".git/config"),
        ("update-ref", lambda root: None, ["update-ref", "refs/heads/x", "HEAD"], ".git/refs/heads/x.lock", ".git/refs/heads/x"),
    ]:
        root = ctx.tmpdir("c07cli")
        r = Repo.init(root)
        r.get_worktree().commit(message=b"c0", committer=b"a <a@b>", author=b"a <a@b>", commit_timestamp=1, commit_timezone=0,
                                author_timestamp=1, author_timezone=0)
        r.close()
        prep(root)

        def rd(rel):
            try:
                with open(os.path.join(root, rel), "rb") as f:
                    return f.read()
            except FileNotFoundError:
                return None
        before = rd(tgtrel)
        p = subprocess.run(["/venv/bin/python", "-c", _CLI_CHILD, REPO, root] + argv, capture_output=True, text=True, timeout=120,
                           env=dict(os.environ, PYTHONPATH=REPO))
        ctx.count()
        n += 1
        ctx.nontrivial(("cli-sigint", name))
        if os.path.exists(os.path.join(root, lockrel)):
            ctx.violation(f"dulwich/cli.py:_main|ReleasedAtExit|SIGINT while `dulwich {name}` holds {os.path.basename(lockrel)}",
                          f"`dulwich {' '.join(argv)}` interrupted by SIGINT right after it had created {lockrel} (exit status {p.returncode}): "
                          f"the lock file is still there, the next invocation is refused", {"cli": name, "argv": argv, "rc": p.returncode})
        after = rd(tgtrel)
        if after != before:
            # completely new content is acceptable only if a fresh process can read the repository
            try:
                rr = Repo(root)
                rr.refs.as_dict()
                try:
                    rr.open_index()
                except Exception as e:
                    from dulwich.errors import NoIndexPresent
                    if not isinstance(e, NoIndexPresent):
                        raise
                rr.get_config()
                rr.close()
            except Exception as e:
                ctx.violation(f"dulwich/cli.py:_main|AtomicReplace|SIGINT while `dulwich {name}` holds {os.path.basename(lockrel)}",
                              f"after the interrupted `dulwich {' '.join(argv)}` the repository does not read: {type(e).__name__}: {e}",
                              {"cli": name, "argv": argv})
        shutil.rmtree(root, ignore_errors=True)
    ctx.cov["cli_sigint_cases"] = n
    ctx.log(f"command line interrupted by SIGINT while holding a lock: {n} commands")


# --------------------------------------------------------------------------- mode R: state graph replay
def mode_graph_replay(ctx, tid0):
    traces, meta, tid = [], {}, tid0
    for (actors, maxw, budget) in (("{0, 1}", 2, ctx.pick(400, 100000)), ("{0, 1, 2}", 1, ctx.pick(150, 8000))):
        tr, me, tid = graph_replay(ctx, tid, actors, maxw, budget)
        traces += tr
        meta.update(me)
    return traces, meta, tid


def graph_replay(ctx, tid0, actors_set, maxw, budget):
    """Replay TLC behaviours of LockFile on the real _GitFile: cover every transition (budget permitting)."""
    import re
    d = ctx.tmpdir("g")
    cfg = os.path.join(d, "gen.cfg")
    tlc.write_cfg(cfg, spec="Spec", constants={"Actors": actors_set, "MaxWrites": maxw, "MaxFaults": 1,
                                              "CleanupAfterReplace": "FALSE", "CloseOnError": "FALSE"},
                  invariants=["Mutex", "AtomicReplace", "FailedKeepsOld", "ReleasedAtExit"], view="View")
    dot = os.path.join(d, "g.dot")
    res = tlc.run("LockFile.tla", cfg, workers=4, dump_dot=dot, timeout=600)
    ctx.add_tlc(f"LockFile[gen actors={actors_set} MaxWrites={maxw}]", res)
    g = tlc.load_dot(dot)
    # BFS tree from the initial state for shortest prefixes
    init = g.init[0]
    parent = {init: None}
    order = [init]
    for n in order:
        for lab, dst in g.edges.get(n, []):
            if dst not in parent:
                parent[dst] = (n, lab)
                order.append(dst)

    def prefix_to(n):
        out = []
        while parent[n] is not None:
            p, lab = parent[n]
            out.append((p, lab, n))
            n = p
        return out[::-1]
    uncovered = {(s, lab, t) for s, es in g.edges.items() for (lab, t) in es}
    total_edges = len(uncovered)
    paths = []
    rng = ctx.rng
    all_edges = sorted(uncovered)
    rng.shuffle(all_edges)
    for e in all_edges:
        if e not in uncovered:
            continue
        if len(paths) >= budget:
            break
        path = prefix_to(e[0]) + [e]
        n = e[2]
        while g.edges.get(n):          # extend to a terminal state, preferring uncovered edges
            outs = g.edges[n]
            cand = [(lab, t) for (lab, t) in outs if (n, lab, t) in uncovered] or outs
            lab, t = cand[rng.randrange(len(cand))]
            path.append((n, lab, t))
            n = t
        for x in path:
            uncovered.discard(x)
        paths.append(path)
    covered = total_edges - len(uncovered)
    ctx.log(f"graph: {len(g.nodes)} states, {total_edges} transitions, {len(paths)} behaviours cover {covered}")
    traces, meta = [], {}
    tid = tid0
    act_re = re.compile(r"(\w+)\((\d+)(?:,(\d+))?\)")
    mismatches = 0
    for path in paths:
        steps = []
        for (s, lab, t) in path:
            m = act_re.match(lab.replace(" ", ""))
            steps.append((m.group(1), int(m.group(2)), int(m.group(3)) if m.group(3) else None, g.nodes[t]))
        plans, faults, prefix = {}, [], []
        ncall = {0: 0, 1: 0, 2: 0}
        for (act, a, k, st) in steps:
            pl = plans.setdefault(a, {"chunks": "", "end": None, "fsync": False, "nwrite": 0})
            if act == "Return":
                continue
            prefix.append(a)
            eligible = act not in ("OpenExclOk", "OpenExclFail")
            if act == "OpenExclOk":
                pl["of"] = k
            elif act in ("WriteBuffered", "WriteThrough"):
                pl["chunks"] += "b" if act == "WriteBuffered" else "t"
                pl["nwrite"] += 1
            elif act == "WriteFail":
                pl["chunks"] += "b"
                pl["nwrite"] += 1
            elif act in ("Flush", "FlushFail"):
                pl["end"] = "close"
            elif act in ("Fsync", "FsyncFail"):
                pl["fsync"] = True
            elif act == "AbortCloseFd" and pl["end"] is None:
                pl["end"] = "abort"
            if act.endswith("Fail") and act != "OpenExclFail":
                faults.append(sched.Fault(a, ncall[a], OSError(errno.ENOSPC, "injected")))
            if eligible:
                ncall[a] += 1
        for a, pl in plans.items():
            of = pl.get("of", 0)
            while len(pl["chunks"]) < of:          # intended but never written (aborted early / failed)
                pl["chunks"] += "b"
            pl["end"] = pl["end"] or "abort"
        dd = Direct(ctx, plans, faults=faults)
        dd.run(prefix)
        tid += 1
        t = dd.trace(tid, nactors=3)
        traces.append(t)
        meta[tid] = {"site": "dulwich/file.py:_GitFile", "scenario": "graph-replay", "labels": [l for (_, l, _) in path]}
        ctx.count()
        # step-by-step comparison with the model's states
        real = [e for e in t["ev"]]
        model = [(act, a, st) for (act, a, k, st) in steps]
        # compare per actor the sequence of (op, ok) and, globally at non-ret steps, the file states
        ri = 0
        ok = True
        real_nr = [e for e in real if e["op"] != "ret"]
        model_nr = [(act, a, st) for (act, a, st) in model if act != "Return"]
        if len(real_nr) != len(model_nr):
            ok = False
        else:
            for e, (act, a, st) in zip(real_nr, model_nr):
                lw, tw = st["lck"]["w"], st["tgt"]["w"]
                if (e["a"], e["op"], e["ok"]) != (a, st["last"]["op"] if False else e["op"], e["ok"]) or e["a"] != a \
                        or (e["lw"], e["ln"], e["tw"], e["tn"]) != (lw, st["lck"]["n"], tw, st["tgt"]["n"]):
                    ok = False
                    break
        outs_model = {a: str(v) for a, v in steps[-1][3]["out"].items()}
        outs_real = {e["a"]: e["out"] for e in real if e["op"] == "ret"}
        for a, o in outs_real.items():
            if outs_model.get(a) != o:
                ok = False
        if not ok:
            mismatches += 1
            ctx.drift_event(f"graph-replay: real execution differs from behaviour {[l for (_, l, _) in path]}")
            if os.environ.get("VERIF_DEBUG"):
                print("  real:", [(e["a"], e["op"], e["ok"], e["lw"], e["ln"], e["tw"], e["tn"], e["out"]) for e in real])
                print("  model:", [(act, a, st["lck"], st["tgt"]) for (act, a, st) in model], outs_model, plans)
        ctx.nontrivial(("graph", tuple(l for (_, l, _) in path)))
    ctx.sample({"kind": "graph-replay", "behaviour": [l for (_, l, _) in paths[0]], "trace": traces[0]})
    ctx.cov.setdefault("graph_replay", []).append({"actors": actors_set, "states": len(g.nodes), "transitions": total_edges, "behaviours": len(paths),
                               "transitions_covered": covered, "mismatches": mismatches})
    return traces, meta, tid


def binding_controls(ctx, traces):
    """The trace specification is not vacuous: a recorded execution with one field corrupted must be
    rejected by a property clause, one with a hook removed must be flagged as leaving the protocol."""
    import copy
    good = next((t for t in traces if any(e["op"] == "replace" and e["ok"] for e in t["ev"]) and len(t["ev"]) >= 6), None)
    if good is None:
        raise MachineryError("no committed execution available for the binding controls")
    a = copy.deepcopy(good)
    a["tid"] = 900001
    for e in a["ev"]:
        if e["op"] == "replace" and e["ok"]:
            e["tw"], e["tn"] = TORN, 0          # the observed target content is neither old nor complete
            break
    b = copy.deepcopy(good)
    b["tid"] = 900002
    b["ev"] = [e for i, e in enumerate(b["ev"]) if not (e["op"] == "open_excl" and e["ok"] and i == [j for j, x in enumerate(b["ev"]) if x["op"] == "open_excl" and x["ok"]][0])]
    d = ctx.tmpdir("ctl")
    path = os.path.join(d, "ctl.ndjson")
    with open(path, "w") as f:
        for t in (a, b):
            f.write(json.dumps(t, separators=(",", ":")) + "\n")
    res = tlc.run("LockFileTrace.tla", "LockFileTrace.cfg", workers=1, timeout=300, env={"TRACE_FILE": path})
    ctx.add_tlc("LockFileTrace[binding controls: corrupted field, removed hook]", res, require_ok=False)
    v = {x[1]: x for x in tlc.extract_printed(res.output, "VERDICT")}
    if 900001 not in v or v[900001][2] != "AtomicReplace":
        raise MachineryError(f"binding control failed: corrupted target content was not rejected by AtomicReplace: {v.get(900001)}")
    if 900002 not in v or not (v[900002][4] or v[900002][2] != "ok"):
        raise MachineryError(f"binding control failed: a trace with the open_excl event removed was accepted: {v.get(900002)}")
    ctx.cov["binding_controls"] = {"corrupted_field_rejected_by": v[900001][2], "removed_hook_drift_at": v[900002][4], "removed_hook_verdict": v[900002][2]}
    shutil.rmtree(d, ignore_errors=True)


# --------------------------------------------------------------------------- entry
# --------------------------------------------------------------------------- real processes (true parallelism)
_MP_SIZE = 4096


def _mp_content(v):
    return (b"%06d\n" % v) * _MP_SIZE


def _mp_classify(b):
    if b is None:
        return 0
    if len(b) == 7 * _MP_SIZE and b == b[:7] * _MP_SIZE and b[:6].isdigit():
        return int(b[:6])
    return -3          # torn: neither a complete old nor a complete new content


def _mp_lock_job(a, barrier, path, script, seed):
    """worker process: writers through the lock protocol and readers of the protected file"""
    import random
    import time
    from dulwich.file import FileLocked, GitFile
    from .. import mp
    rng = random.Random(seed)
    recs = []
    barrier.wait(60)
    for (op, v) in script:
        mp.spin(rng)
        rec = {"a": a, "op": op, "v": v, "exc": False, "hs": 0, "he": 0, "res": 0}
        rec["c"] = time.monotonic_ns()
        if op == "read":
            try:
                with open(path, "rb") as f:
                    rec["res"] = _mp_classify(f.read())
            except FileNotFoundError:
                rec["res"] = 0
        else:
            try:
                f = GitFile(path, "wb")
            except FileLocked:
                rec["exc"] = True
                rec["excname"] = "FileLocked"
            else:
                rec["hs"] = time.monotonic_ns()
                data = _mp_content(v)
                third = len(data) // 3
                try:
                    f.write(data[:third])
                    mp.spin(rng, 150)
                    f.write(data[third:2 * third])
                    mp.spin(rng, 150)
                    f.write(data[2 * third:])
                    rec["he"] = time.monotonic_ns()
                    if op == "commit":
                        f.close()
                    else:
                        f.abort()
                except Exception as e:
                    rec["exc"] = True
                    rec["excname"] = type(e).__name__
                    if not rec["he"]:
                        rec["he"] = time.monotonic_ns()
        rec["r"] = time.monotonic_ns()
        recs.append(rec)
    return recs


def mode_processes(ctx):
    """3 real processes write one file through the lock protocol while reading it: Mutex on the hold intervals
    (LockHist.tla), the file as an atomic register whose values are complete contents (RefsLin.tla)."""
    import random
    from .. import mp
    pool = mp.Pool(3, {"lock": _mp_lock_job})
    rng = random.Random(ctx.seed * 104729 + 7)
    holds_tr, reg_tr, meta = [], [], {}
    nover = nheld = 0
    try:
        for rd in range(ctx.pick(120, 2000)):
            root = ctx.tmpdir("c07p")
            path = os.path.join(root, "protected")
            init = 0
            if rd % 4:
                init = 1
                with open(path, "wb") as f:
                    f.write(_mp_content(1))
            nxt = 10
            args = []
            for a in range(3):
                script = []
                for _ in range(ctx.pick(5, 6)):
                    nxt += 1
                    script.append((rng.choice(["commit", "commit", "abort", "read", "read"]), nxt))
                args.append((path, script, rng.getrandbits(30)))
            res = pool.round("lock", args)
            recs = [r for rs in res for r in rs]
            mp.rank_times(recs, keys=("c", "r"))
            # hold stamps share the same clock: rank them together with c/r of the same records
            stamps = sorted({x for r_ in recs for x in (r_["hs"], r_["he"]) if x})
            # (ranks only need to preserve order among hold stamps)
            rk = {t: i + 1 for i, t in enumerate(stamps)}
            try:
                with open(path, "rb") as f:
                    final = _mp_classify(f.read())
            except FileNotFoundError:
                final = 0
            locks = [f for f in os.listdir(root) if f.endswith(".lock")]
            shutil.rmtree(root, ignore_errors=True)
            tid = rd + 1
            holds = [{"a": r_["a"], "s": rk[r_["hs"]], "e": rk[r_["he"]]} for r_ in recs if r_["hs"] and r_["he"]]
            nheld += len(holds)
            holds_tr.append({"tid": tid, "holds": holds})
            ops = []
            for r_ in sorted(recs, key=lambda x: x["c"]):
                if r_["op"] == "read":
                    ops.append({"k": "read", "n": 1, "via": 0, "old": 0, "new": 0, "res": r_["res"], "exc": False, "c": r_["c"], "r": r_["r"]})
                elif r_["op"] == "commit" and not r_["exc"]:
                    ops.append({"k": "set_if_equals", "n": 1, "via": 0, "old": -1, "new": r_["v"], "res": 1, "exc": False, "c": r_["c"], "r": r_["r"]})
                else:       # aborted, or the lock was not obtained: must have no effect
                    ops.append({"k": "other", "n": 1, "via": 0, "old": 0, "new": 0, "res": 0, "exc": True, "c": r_["c"], "r": r_["r"]})
            reg_tr.append({"tid": tid, "init": [init], "final": [final], "hinit": 1, "hfinal": 1, "ops": ops, "commits": [], "tip": 0})
            meta[tid] = {"recs": [(r_["a"], r_["op"], r_["v"], r_["res"], r_.get("excname"), r_["c"], r_["r"]) for r_ in recs], "final": final, "init": init}
            ctx.count()
            if sum(1 for r_ in recs if r_.get("excname") == "FileLocked"):
                nover += 1
                ctx.nontrivial(("mplock", rd))
            if locks:
                ctx.violation("dulwich/file.py:_GitFile|ReleasedAtExit|real processes", f"lock file left behind after all processes returned: {locks}",
                              {"meta": meta[tid]})
    finally:
        pool.close()
    d = ctx.tmpdir("lockhist")
    hp, rp = os.path.join(d, "holds.ndjson"), os.path.join(d, "reg.ndjson")
    with open(hp, "w") as f:
        for t in holds_tr:
            f.write(json.dumps(t, separators=(",", ":")) + "\n")
    with open(rp, "w") as f:
        for t in reg_tr:
            f.write(json.dumps(t, separators=(",", ":")) + "\n")
    res = tlc.run("LockHist.tla", "LockHist.cfg", workers=1, timeout=1200, env={"TRACE_FILE": hp})
    ctx.add_tlc("LockHist (Mutex on hold intervals of real processes)", res, require_ok=False)
    got = {v[1]: v[2] for v in tlc.extract_printed(res.output, "LOCKHIST")}
    if not res.completed or len(got) != len(holds_tr):
        raise MachineryError(f"LockHist judged {len(got)}/{len(holds_tr)} rounds\n{res.output[-2000:]}")
    for t in holds_tr:
        if got[t["tid"]]:
            ctx.violation("dulwich/file.py:_GitFile|Mutex|real processes",
                          f"two processes owned the lock at the same time: hold intervals {sorted(got[t['tid']])} of {t['holds']}",
                          {"trace": t, "meta": meta[t["tid"]]})
    res = tlc.run("RefsLin.tla", "RefsLin.cfg", workers=1, timeout=3000, env={"TRACE_FILE": rp})
    ctx.add_tlc("RefsLin (protected file as an atomic register, real processes)", res, require_ok=False)
    if not res.completed:
        raise MachineryError("RefsLin did not complete on the lock histories\n" + res.output[-2000:])
    okids = {v[1] for v in tlc.extract_printed(res.output, "LIN") if v[2] == "strict"}
    for t in reg_tr:
        if t["tid"] not in okids:
            torn = any(o["k"] == "read" and o["res"] == -3 for o in t["ops"]) or t["final"] == [-3]
            ctx.violation(f"dulwich/file.py:_GitFile|{'AtomicReplace' if torn else 'NotARegister'}|real processes",
                          ("a reader saw a content that is neither a complete old nor a complete new one" if torn else
                           "contents read / left behind are not explained by the committed writes in any order consistent with real time")
                          + f": {meta[t['tid']]}", {"trace": t, "meta": meta[t["tid"]]})
    # binding control: two overlapping holds of different processes must be flagged
    ctlp = os.path.join(d, "ctl.ndjson")
    with open(ctlp, "w") as f:
        f.write(json.dumps({"tid": 1, "holds": [{"a": 0, "s": 1, "e": 4}, {"a": 1, "s": 3, "e": 6}, {"a": 0, "s": 7, "e": 8}]}) + "\n")
    res = tlc.run("LockHist.tla", "LockHist.cfg", workers=1, timeout=300, env={"TRACE_FILE": ctlp})
    ctl = {v[1]: v[2] for v in tlc.extract_printed(res.output, "LOCKHIST")}
    if not ctl.get(1):
        raise MachineryError("binding control failed: overlapping holds accepted by LockHist")
    ctx.validated(len(holds_tr))
    ctx.cov["real_process_rounds"] = {"rounds": len(holds_tr), "lock_acquisitions": nheld, "rounds_with_contention": nover}
    ctx.log(f"real processes: {len(holds_tr)} rounds, {nheld} acquisitions, {nover} rounds with a refused acquisition")
    shutil.rmtree(d, ignore_errors=True)


def run(ctx):
    # 1. the model itself
    res = tlc.run("LockFile.tla", "LockFile_mc.cfg", workers=16, timeout=900, coverage=not ctx.quick)
    ctx.add_tlc("LockFile_mc (3 actors, 2 writes, 2 faults)", res)
    res = tlc.run("LockFile.tla", "LockFile_live.cfg", workers=4, timeout=900)
    ctx.add_tlc("LockFile_live (fairness: termination, lock free at end)", res)
    # negative controls: the model finds the two historical defects
    for cfg, expect in (("LockFile_f1.cfg", "NoForeignRelease"), ("LockFile_f2.cfg", "AtomicReplace")):
        r = tlc.run("LockFile.tla", cfg, workers=4, timeout=300)
        ctx.add_tlc(f"{cfg} (negative control, expects {expect})", r, require_ok=False)
        if expect not in r.violated:
            raise MachineryError(f"negative control {cfg} did not find {expect}")
    tid = 0
    alltr, allmeta = [], {}
    for mode in (mode_graph_replay, mode_schedules, mode_direct_faults, mode_caller_faults, mode_refused):
        tr, meta, tid = mode(ctx, tid)
        alltr += tr
        allmeta.update(meta)
    n = validate_batch(ctx, alltr, "all", allmeta)
    ctx.validated(n)
    binding_controls(ctx, alltr)
    mode_processes(ctx)
    mode_cli_sigint(ctx)
    ctx.cov["rule"] = ("executions of the real _GitFile / lock-protocol callers: (a) one per TLC state-graph behaviour needed to cover "
                       "every transition, (b) every schedule with a bounded number of preemptions for a menu of writer programs, "
                       "(c) every fault position x error kind; distinct = distinct (scenario, event sequence); all are non-trivial "
                       "(each takes the lock at least once)")
    ctx.assumptions += ["POSIX semantics of O_EXCL/rename/unlink as in LockFile.tla (exercised on the real kernel in every run)",
                        "scheduled actors are greenlets with private handles; only the file system is shared; the real-process rounds use "
                        "forked processes and CLOCK_MONOTONIC intervals that lie inside (holds) / around (operations) the true ones",
                        "lock released 'at exit' is judged when the operation returns or its exception reaches the caller, before any finalizer has run; a failing unlink of the lock file itself is not injected"]
    return ctx.finish(exhaustive=False)


def replay(ctx, path):
    obj = json.load(open(path))
    print(json.dumps(obj, indent=1)[:6000])
    t = obj.get("trace")
    if t:
        ctx.known = []
        validate_batch(ctx, [t], "replay", {t["tid"]: obj.get("meta", {"site": "?", "scenario": "?"})})
    return 1 if ctx.violations else 0

"""C12 -- tree building, flattening, diffing and patching are mutually consistent.

Spec: specs/TreeDiff.tla (operators), TreeDiffGen.tla (case enumerator + lemmas), TreeDiffTrace.tla.

  1  TLC checks the lemmas of TreeDiffGen (Flatten(Build(L)) = L, canonical order, base_name_compare
     order lemma, Apply(Diff(A,B),A) = B, every path at most once, operational walk with pruning =
     declarative diff, filtered diff = diff of filtered listings, Patch = rebuild, exact renames
     sound) on every listing / ordered pair of listings of the configuration.
  R  every enumerated case is replayed on the real code in child interpreters, once with the Rust
     extensions built from the working tree and once with pure Python: commit_tree,
     iter_tree_contents, tree_lookup_path, tree_changes (8 flag combinations, path filters),
     commit_tree_changes, RenameDetector; results are compared with the values TLC emitted.
  G  the *spec* is validated against C git (mktree, diff-tree --raw, pathspecs, -C100%) on the
     same cases; a disagreement there is a machinery failure, never a verdict on dulwich.
  T  randomly generated larger listings / pairs / change lists are executed on the real code and
     the recorded results are judged by TLC (TreeDiffTrace), property clauses first.
"""
from __future__ import annotations

import json
import os
import re
import subprocess
import sys
import time

from .. import c12_child as ch
from .. import rustext, tlc
from ..core import VERIF, MachineryError, git_available

PY = "/venv/bin/python"
STD_FILTERS = [[[[97]]], [[[97], [98]]], [[[97, 46, 98]], [[97], [99]]], [[[98]], [[97], [98], [99]]], [[[97], [98]], [[97]]]]
OUT_PREFIX = '/\\ out = "'


# --------------------------------------------------------------------------- TLC case generation
def gen_cases(ctx, label, cfg, workers=8, timeout=1500):
    """run TreeDiffGen / TreeDiffSeq with cfg, return path of a file with one JSON case per line"""
    d = ctx.tmpdir("gen")
    dump = os.path.join(d, "cases")
    spec = "TreeDiffSeq.tla" if cfg.startswith("TreeDiffSeq") else "TreeDiffGen.tla"
    res = tlc.run(spec, cfg, workers=workers, timeout=timeout, dump_states=dump)
    ctx.add_tlc(label, res)
    n = 0
    cases = os.path.join(d, "cases.jsonl")
    with open(dump + ".dump", encoding="utf-8") as f, open(cases, "w") as g:
        for line in f:
            if line.startswith(OUT_PREFIX) and len(line) > len(OUT_PREFIX) + 2:
                g.write(line[len(OUT_PREFIX):-2].replace('\\"', '"') + "\n")
                n += 1
    os.remove(dump + ".dump")
    ctx.log(f"TLC {label}: {res.distinct} states, {n} cases, {res.wall_s:.1f}s")
    return cases, n


def write_cfg(ctx, spec, bpaths, bcells, bmax, dpaths, dcells, dmax):
    path = os.path.join(ctx.tmpdir("cfg"), "gen.cfg")
    tlc.write_cfg(path, spec=spec, constants={"BPaths": "<- " + bpaths, "BCells": "<- " + bcells, "BMax": bmax,
                                             "DPaths": "<- " + dpaths, "DCells": "<- " + dcells, "DMax": dmax,
                                             "Filters": "<- StdFilters"}, invariants=["Lemmas"])
    return path


# --------------------------------------------------------------------------- children
def spawn(mode, job, d, tag):
    task = os.path.join(d, f"task-{tag}.json")
    outp = os.path.join(d, f"out-{tag}.json")
    with open(task, "w") as f:
        json.dump(job, f)
    code = rustext.prelude(mode) + f"import sys\nsys.path.insert(0, {VERIF!r})\nfrom harness import c12_child\nc12_child.main(sys.argv[1:])\n"
    p = subprocess.Popen([PY, "-c", code, mode, task, outp], stdout=subprocess.PIPE, stderr=subprocess.STDOUT, text=True)
    return p, outp


def wait_all(procs):
    outs = []
    for p, outp in procs:
        so, _ = p.communicate()
        if p.returncode != 0 or not os.path.exists(outp):
            raise MachineryError(f"C12 child failed (rc={p.returncode}):\n{so[-3000:]}")
        with open(outp) as f:
            outs.append(json.load(f))
    return outs


def shard(path, n, d, tag):
    files = [open(os.path.join(d, f"{tag}-{i}.jsonl"), "w") for i in range(n)]
    with open(path) as f:
        for k, line in enumerate(f):
            files[k % n].write(line)
    for f in files:
        f.close()
    return [f.name for f in files]


def replay_cases(ctx, cases, label, nshards, git=True, max_traces=0):
    """run every case of `cases` on the real code, in both modes; returns child results"""
    d = ctx.tmpdir("rp")
    parts = shard(cases, nshards, d, "part")
    procs = []
    for mode in ("py", "rs"):
        for i, part in enumerate(parts):
            job = {"kind": "gen", "cases": part, "filters": STD_FILTERS}
            if mode == "py" and git:
                job.update(emit_git=True, gitfile=os.path.join(d, f"git-{i}.jsonl"), treefile=os.path.join(d, f"trees-{i}.json"))
            if max_traces:
                job.update(emit_traces=True, max_traces=max_traces // nshards + 1)
            procs.append(spawn(mode, job, d, f"{mode}{i}"))
    outs = wait_all(procs)
    gitfiles = [os.path.join(d, f"git-{i}.jsonl") for i in range(nshards)] if git else []
    treefiles = [os.path.join(d, f"trees-{i}.json") for i in range(nshards)] if git else []
    n = sum(o["n"] for o in outs)
    ctx.count(n)
    ctx.validated(n)
    ctx.log(f"replay {label}: {n} executions of cases on the real code (py + rs), "
            f"{sum(len(o['groups']) for o in outs)} failing groups")
    return outs, gitfiles, treefiles


# --------------------------------------------------------------------------- C git as third opinion on the spec
class Git:
    def __init__(self, ctx):
        self.dir = os.path.join(ctx.tmpdir("git"), "r.git")
        self.env = dict(os.environ, GIT_CONFIG_NOSYSTEM="1", HOME=self.dir, GIT_LITERAL_PATHSPECS="1")
        subprocess.run(["git", "init", "-q", "--bare", self.dir], check=True, env=self.env)
        for c, data in ch.BLOBS.items():
            p = subprocess.run(["git", "--git-dir", self.dir, "hash-object", "-w", "--stdin"], input=data,
                               capture_output=True, check=True, env=self.env)
            if p.stdout.decode().strip() != ch.blob_id(c):
                raise MachineryError("blob id projection disagrees with git hash-object")
        self.have = set()

    def mktree(self, trees):
        """trees: sha -> mktree -z record.  Creates them with git and checks git's ids against
        the ids computed from the spec's nested trees (validates Build's order and the hash projection)."""
        todo = [(k, v) for k, v in trees.items() if k not in self.have]
        if not todo:
            return 0
        inp = b"\0".join(v for _, v in todo) + b"\0"
        p = subprocess.run(["git", "--git-dir", self.dir, "mktree", "-z", "--batch", "--missing"], input=inp,
                           capture_output=True, env=self.env)
        ids = p.stdout.decode().split()
        if p.returncode != 0 or len(ids) < len(todo):
            raise MachineryError(f"git mktree failed: {p.stderr.decode()[-500:]} ({len(ids)}/{len(todo)})")
        for (k, v), got in zip(todo, ids):
            if k != got:
                raise MachineryError(f"spec disagrees with git mktree: spec tree {v!r} hashes to {k}, git says {got}")
            self.have.add(k)
        return len(todo)

    def difftree(self, pairs, extra=(), paths=()):
        """pairs: [(ida, idb)] -> list of {path: (oldmode, newmode, oldsha, newsha, status[, src])}"""
        inp = "".join(f"{a} {b}\n" for a, b in pairs).encode()
        cmd = ["git", "--git-dir", self.dir, "diff-tree", "--stdin", "-r", "--raw", "-z", "--no-abbrev", *extra]
        if paths:
            cmd += ["--", *paths]
        p = subprocess.run(cmd, input=inp, capture_output=True, env=self.env)
        if p.returncode != 0:
            raise MachineryError(f"git diff-tree failed: {p.stderr.decode()[-500:]}")
        out = p.stdout
        res = []
        pos = 0
        hdr = re.compile(rb"([0-9a-f]{40}) ([0-9a-f]{40})\n")
        k = 0
        while pos < len(out):
            m = hdr.match(out, pos)
            if not m:
                raise MachineryError(f"cannot parse git diff-tree output at {pos}: {out[pos:pos+120]!r}")
            while (m.group(1).decode(), m.group(2).decode()) != pairs[k]:
                res.append({})      # git prints nothing at all for a pair without differences (with pathspec)
                k += 1
            pos = m.end()
            cur = {}
            while pos < len(out) and out[pos:pos + 1] == b":":
                e = out.index(b"\0", pos)
                meta = out[pos + 1:e].decode().split(" ")
                pos = e + 1
                e = out.index(b"\0", pos)
                path = out[pos:e]
                pos = e + 1
                src = None
                if meta[4][0] in "RC":
                    src = path
                    e = out.index(b"\0", pos)
                    path = out[pos:e]
                    pos = e + 1
                cur[path] = (meta[0], meta[1], meta[2], meta[3], meta[4][0], src)
            res.append(cur)
            k += 1
        while len(res) < len(pairs):
            res.append({})
        return res


Z40 = "0" * 40


def git_expect(changes, renames=False):
    """spec change list (JSON) -> {path: (oldmode, newmode, oldsha, newsha, status, src)} as git reports it"""
    m = {}
    for t, o, n in changes:
        if t == "unchanged":
            continue
        if t in ("rename", "copy"):
            m[ch.pbytes(n[0])] = ("%06o" % ch.MODE[o[1]], "%06o" % ch.MODE[n[1]], ch.real_id(o[1], o[2]), ch.real_id(n[1], n[2]),
                                  "R" if t == "rename" else "C", ch.pbytes(o[0]))
            continue
        if o and o[1] != "T":
            cur = m.setdefault(ch.pbytes(o[0]), ["000000", "000000", Z40, Z40, None, None])
            cur[0], cur[2] = "%06o" % ch.MODE[o[1]], ch.real_id(o[1], o[2])
        if n and n[1] != "T":
            cur = m.setdefault(ch.pbytes(n[0]), ["000000", "000000", Z40, Z40, None, None])
            cur[1], cur[3] = "%06o" % ch.MODE[n[1]], ch.real_id(n[1], n[2])
    out = {}
    for p, v in m.items():
        if isinstance(v, tuple):
            out[p] = v
            continue
        if v[4] is None:
            if v[0] == "000000":
                v[4] = "A"
            elif v[1] == "000000":
                v[4] = "D"
            elif (v[0][:2] == "10") != (v[1][:2] == "10") or (v[0][:2] != "10" and v[0] != v[1]):
                v[4] = "T"
            else:
                v[4] = "M"
        out[p] = tuple(v)
    return out


def git_comparable_renames(d0):
    """git pairs renames per changed *path*; a path whose type changes (delete + add in dulwich's
    default diff) is one 'T' record for git and neither source nor destination of a rename"""
    dels = {json.dumps(o[0]) for t, o, n in d0 if t == "delete"}
    adds = {json.dumps(n[0]) for t, o, n in d0 if t == "add"}
    return not (dels & adds)


def git_crosscheck(ctx, G, gitfiles, treefiles, label, stride):
    """spec vs C git on the enumerated cases: tree ids (git mktree), default diff, change_type_same
    diff, path filters, exact renames (-C100%).  Any disagreement is a bug of the spec/harness."""
    trees = {}
    for tf in treefiles:
        with open(tf) as f:
            for k, v in json.load(f).items():
                trees[k] = bytes.fromhex(v)
    ntrees = G.mktree(trees)
    rows = []
    for gf in gitfiles:
        with open(gf) as f:
            for line in f:
                rows.append(json.loads(line))
    rows.sort(key=lambda r: (r[0], r[1]))
    pairs = [(r[0], r[1]) for r in rows]
    ncmp = 0
    per = ctx.cov.setdefault("git_agreements", {"mktree": 0, "diff": 0, "paths": 0, "renames": 0})
    per["mktree"] += ntrees

    def compare(what, got, exp_of, rows_):
        nonlocal ncmp
        for r, g in zip(rows_, got):
            e = exp_of(r)
            if e is None:
                continue
            ncmp += 1
            per[what.split(" ")[0]] += 1
            if what != "renames":
                g = {p: v[:5] + (None,) for p, v in g.items()}
            if g != e:
                raise MachineryError(f"spec disagrees with C git ({what}) on A={ch.show_listing(r[2])} B={ch.show_listing(r[3])}:\n"
                                     f"  spec: {sorted(e.items())}\n  git:  {sorted(g.items())}")
    got = G.difftree(pairs, ["--no-renames"])
    compare("diff", got, lambda r: git_expect(r[4]), rows)
    # change_type_same=True is how git itself reports a type change (one 'T' record)
    compare("diff cts", got, lambda r: git_expect(r[5]), rows)
    sub = rows[::stride]
    spairs = [(r[0], r[1]) for r in sub]
    for i, P in enumerate(STD_FILTERS):
        compare(f"paths {i}", G.difftree(spairs, ["--no-renames"], [ch.pbytes(p).decode() for p in P]),
                lambda r, i=i: git_expect(r[6][i]), sub)
    compare("renames", G.difftree(spairs, ["-C100%"]),
            lambda r: git_expect(r[8], True) if r[7] and git_comparable_renames(r[4]) else None, sub)
    ctx.log(f"git {label}: {ntrees} new trees created by git mktree under the ids derived from the spec, "
            f"{ncmp} diffs (raw, pathspec, -C100%) agree between spec and git")


# --------------------------------------------------------------------------- random cases for trace validation
NAMES = [b"a", b"b", b"c", b"a.b", b"a-", b"a0", b"a b", b"ab", b"A", b"a\xc3\xa9", b"a+", b"a~", b"0", b"_", b"a.", b"a,b", b"\xff"]
CELLM = "FFFFFFXXLLGGG"
IDS = "xyzw"


def rnd_path(rng, L):
    if L and rng.random() < 0.6:       # share a prefix with an existing entry
        base = rng.choice(L)[0]
        k = rng.randrange(0, len(base) + 1)
        pre = [list(n) for n in base[:k]]
    else:
        pre = []
    for _ in range(rng.choice((1, 1, 1, 2, 2, 3))):
        pre.append(list(rng.choice(NAMES)))
    return pre[:5]


def conflict(p, q):
    n = min(len(p), len(q))
    return p[:n] == q[:n]


def add_entry(rng, L, path=None, cell=None):
    for _ in range(20):
        p = path or rnd_path(rng, L)
        if p and not any(conflict(p, e[0]) for e in L):
            m, i = cell or (rng.choice(CELLM), rng.choice(IDS))
            L.append([p, m, i])
            return True
        if path:
            return False
    return False


def rnd_listing(rng, n):
    L = []
    for _ in range(n):
        add_entry(rng, L)
    return L


def mutate(rng, A):
    B = [list(e) for e in A]
    for _ in range(rng.choice((1, 1, 2, 2, 3, 4))):
        op = rng.choice(("del", "id", "mode", "type", "add", "move", "copy", "d2f", "f2d", "deldir"))
        if op == "add" or not B:
            add_entry(rng, B)
            continue
        k = rng.randrange(len(B))
        e = B[k]
        if op == "del":
            B.pop(k)
        elif op == "id":
            e[2] = rng.choice([c for c in IDS if c != e[2]])
        elif op == "mode":
            e[1] = {"F": "X", "X": "F"}.get(e[1], e[1])
        elif op == "type":
            e[1] = rng.choice([m for m in "FLG" if m != e[1]])
        elif op == "move":
            B.pop(k)
            add_entry(rng, B, cell=(e[1], e[2]))
        elif op == "copy":
            add_entry(rng, B, cell=(e[1], e[2]))
        elif op in ("d2f", "deldir") and len(e[0]) > 1:
            d = e[0][:rng.randrange(1, len(e[0]))]
            B[:] = [x for x in B if x[0][:len(d)] != d]
            if op == "d2f":
                add_entry(rng, B, path=d)
        elif op == "f2d":
            B.pop(k)
            for _ in range(rng.choice((1, 2))):
                add_entry(rng, B, path=e[0] + [list(rng.choice(NAMES))])
    return B


def change_list(rng, A, B):
    """a change list leading from A to B, in one of several equivalent forms and a random order"""
    a = {json.dumps(p): (p, m, i) for p, m, i in A}
    b = {json.dumps(p): (p, m, i) for p, m, i in B}
    cl = [[p, m, i] for k, (p, m, i) in b.items() if a.get(k) != (p, m, i)]
    gone = [a[k][0] for k in a if k not in b]
    bdirs = {json.dumps(p[:j]) for p, _, _ in B for j in range(1, len(p))}
    used = set()
    if rng.random() < 0.5:       # delete a directory that disappears completely by naming the directory
        for p in gone:
            for j in range(1, len(p)):
                d = p[:j]
                kd = json.dumps(d)
                if kd not in bdirs and kd not in b and all(x[:j] == d for x in gone if x[:j] == d) \
                        and not any(q[:j] == d for q, _, _ in B):
                    if kd not in used:
                        used.add(kd)
                        cl.append([d, "-", ""])
                    break
    for p in gone:
        if not any(json.dumps(p[:j]) in used for j in range(1, len(p))):
            cl.append([p, "-", ""])
    rng.shuffle(cl)
    return cl


def rnd_small(rng):
    """a small listing over few names whose ids include the similar pair x / u"""
    L = []
    for _ in range(rng.choice((0, 1, 1, 2, 2, 3))):
        p = [list(rng.choice((b"a", b"b", b"c", b"d")))]
        if rng.random() < 0.25:
            p.append(list(rng.choice((b"a", b"b"))))
        add_entry(rng, L, path=p, cell=(rng.choice("FFFFXL"), rng.choice("xxuuy")))
    return L


def rnd_trace_cases(ctx, n):
    rng = ctx.rng
    cases = []
    for tid in range(1, n + 1):
        if rng.random() < 0.12:      # one detector object, several diffs, a limit that small trees exceed
            cases.append({"tid": tid, "kind": "renseq", "m": rng.choice((1, 1, 2)), "A": [], "B": [],
                          "steps": [[rnd_small(rng), rnd_small(rng)] for _ in range(rng.choice((2, 3, 4)))]})
            continue
        A = rnd_listing(rng, rng.choice((0, 1, 2, 3, 4, 5, 6, 8, 10)))
        B = mutate(rng, A) if rng.random() < 0.85 else rnd_listing(rng, rng.choice((0, 2, 4, 6)))
        r = rng.random()
        c = {"tid": tid, "A": A, "B": B}
        if r < 0.12:
            c.update(kind="build", order=rng.randrange(3))
        elif r < 0.55:
            c.update(kind="diff", fl=[rng.random() < 0.3, rng.random() < 0.4, rng.random() < 0.4])
            if rng.random() < 0.3:
                c["fl"][1] = False
                pool = [e[0] for e in A + B] + [e[0][:1] for e in A + B] + [e[0][:2] for e in A + B if len(e[0]) > 2]
                sel = []
                for _ in range(rng.choice((1, 1, 2)) if pool else 0):
                    q = rng.choice(pool)
                    if q not in sel:
                        sel.append(q)
                c["paths"] = sel
        elif r < 0.75:
            c.update(kind="rename")
        else:
            c.update(kind="patch", cl=change_list(rng, A, B))
        cases.append(c)
    return cases


# --------------------------------------------------------------------------- TLC judges recorded results
SITE = {"build": "dulwich/index.py:commit_tree", "diff": "dulwich/diff_tree.py:tree_changes",
        "rename": "dulwich/diff_tree.py:RenameDetector", "patch": "dulwich/object_store.py:commit_tree_changes"}
CLAUSE = {"order": "tree-id:order", "inverse": "tree-id:content", "build": "tree-id:content", "flatten": "flatten",
          "rename-sound": "rename:apply", "rename-exact": "rename:exact"}


def judge(ctx, traces, label, workers=4):
    """traces: records produced by c12_child.run_trace_case (tid unique) -> {tid: (verdict, drift)}"""
    if not traces:
        return {}
    d = ctx.tmpdir("tr")
    path = os.path.join(d, "traces.ndjson")
    with open(path, "w") as f:
        for t in traces:
            f.write(json.dumps(t, separators=(",", ":")) + "\n")
    res = tlc.run("TreeDiffTrace.tla", "TreeDiffTrace.cfg", workers=workers, timeout=1500, env={"TRACE_FILE": path})
    ctx.add_tlc(f"TreeDiffTrace[{label}]", res, require_ok=False)
    verdicts = {}
    for line in res.output.splitlines():
        if line.startswith('<<"VERDICT"'):
            v = tlc.tlaval.parse(line.strip())
            verdicts[v[1]] = (v[2], bool(v[3]))
    if not res.completed or len(verdicts) != len(traces):
        raise MachineryError(f"trace validation incomplete ({len(verdicts)}/{len(traces)} verdicts)\n{res.output[-3000:]}")
    return verdicts


def trace_validation(ctx, n, nshards, extra_traces):
    cases = rnd_trace_cases(ctx, n)
    d = ctx.tmpdir("tc")
    parts = [os.path.join(d, f"tc-{i}.jsonl") for i in range(nshards)]
    files = [open(p, "w") for p in parts]
    for k, c in enumerate(cases):
        files[k % nshards].write(json.dumps(c) + "\n")
    for f in files:
        f.close()
    procs = []
    for mode in ("py", "rs"):
        for i, part in enumerate(parts):
            procs.append(spawn(mode, {"kind": "trace", "cases": part}, d, f"{mode}{i}"))
    outs = wait_all(procs)
    by_tid = {c["tid"]: c for c in cases}
    traces, meta = [], {}
    tid = 0
    for o in outs:
        for t in o["traces"]:
            tid += 1
            c0 = by_tid[t["tid"]]
            if c0["kind"] == "renseq":
                A, B = c0["steps"][t["step"]]
                c0 = {"kind": "rename", "A": A, "B": B, "tid": (c0["tid"], t["step"]), "seq": c0}
            meta[tid] = (o["mode"], c0)
            traces.append(dict(t, tid=tid))
    for mode, x in extra_traces:            # ambiguous rename results from the enumerated pairs
        tid += 1
        meta[tid] = (mode, {"kind": "rename", "A": x["A"], "B": x["B"], "tid": -tid})
        traces.append(dict(x["t"], tid=tid))
    # negative controls: corrupted recordings must be rejected (the judge is not vacuous)
    controls = {}
    for t in traces:
        if len(controls) >= 6:
            break
        if t["kind"] == "diff" and t["res"] == "ok" and len(t["c"]) >= 2 and not t["paths"] and "drop" not in controls:
            tid += 1
            controls["drop"] = tid
            traces.append(dict(t, tid=tid, c=t["c"][1:]))
        elif t["kind"] == "diff" and t["res"] == "ok" and len(t["c"]) >= 1 and "dup" not in controls:
            tid += 1
            controls["dup"] = tid
            traces.append(dict(t, tid=tid, c=t["c"] + t["c"][:1]))
        elif t["kind"] == "build" and t["res"] == "ok" and len(t["tree"]) >= 2 and "swap" not in controls:
            tid += 1
            controls["swap"] = tid
            traces.append(dict(t, tid=tid, tree=[t["tree"][1], t["tree"][0]] + t["tree"][2:]))
        elif t["kind"] == "patch" and t["res"] == "ok" and len(t["tree"]) >= 1 and "patchdrop" not in controls:
            tid += 1
            controls["patchdrop"] = tid
            traces.append(dict(t, tid=tid, tree=t["tree"][1:]))
    ctl = set(controls.values())
    t0 = time.time()
    verdicts = judge(ctx, traces, "random + ambiguous renames", workers=ctx.pick(4, 8))
    for name, k in controls.items():
        if verdicts[k][0] == "ok":
            raise MachineryError(f"negative control '{name}' (corrupted recording) was accepted by TreeDiffTrace")
    nreal = 0
    rejected = {}
    for t in traces:
        if t["tid"] in ctl:
            continue
        verdict, drift = verdicts[t["tid"]]
        mode, c = meta[t["tid"]]
        if verdict == "input":
            raise MachineryError(f"trace case generator produced an invalid case: {json.dumps(c)[:600]}")
        nreal += 1
        ctx.nontrivial(("t", c["tid"], c["kind"]))
        if verdict != "ok":
            site = SITE[t["kind"]]
            clause = CLAUSE.get(verdict, verdict)
            A, B = c["A"], c.get("B", [])
            feat = ch.features(A, B) if t["kind"] != "build" else ""
            if verdict.endswith("-raised"):
                clause = ("patch:" if t["kind"] == "patch" else "") + "raised:" + t["res"][4:]
            elif t["kind"] == "diff":
                if verdict.startswith("paths-"):
                    site, clause = "dulwich/diff_tree.py:walk_trees", "paths:" + verdict[6:]
                else:
                    clause = f"{clause}[{''.join('1' if b else '0' for b in t['fl'])}]"
            if t["kind"] == "patch":
                feat = ch.cl_shape(A, c["cl"])
            txt = f"A={ch.show_listing(A)} B={ch.show_listing(B)}" if t["kind"] != "build" else ch.show_listing(A)
            if "seq" in c:
                txt = (f"max_files={c['seq']['m']} one detector, diff {t['step'] + 1} of: "
                       + " ; ".join(f"{ch.show_listing(a)}->{ch.show_listing(b)}" for a, b in c["seq"]["steps"][:t["step"] + 1]))
                clause += f"[step{t['step'] + 1}]" if t["step"] else ""
            if c.get("paths"):
                txt += f" paths={[ch.pbytes(p).decode('latin-1') for p in c['paths']]}"
            g = rejected.setdefault((site, clause, feat), {"modes": set(), "best": None, "count": 0})
            g["modes"].add(mode)
            g["count"] += 1
            key = (len(A) + len(B), len(txt), txt)
            if g["best"] is None or key < g["best"][0]:
                g["best"] = (key, txt, {"kind": "trace", "trace": t, "case": c.get("seq", c), "verdict": verdict})
        elif drift:
            ctx.drift_event(f"{SITE[t['kind']]}: result differs from the model in order/labels only ({json.dumps(c)[:300]})")
    ctx.validated(nreal)
    ctx.count(nreal)
    ctx.log(f"trace validation: {nreal} recorded executions judged by TLC in {time.time() - t0:.1f}s, "
            f"{len(rejected)} rejected groups, {len(controls)} negative controls rejected as required")
    if traces:
        ctx.sample({"kind": "trace", "trace": traces[len(traces) // 3], "verdict": verdicts[traces[len(traces) // 3]["tid"]][0]})
    return rejected


# --------------------------------------------------------------------------- reporting
def subcase(h, g):
    """h is a sub-case of g: its listings use a subset of g's paths and differ in a subset of g's ways"""
    (ha, hb), (ga, gb) = h["AB"], g["AB"]
    def ps(L):
        return {json.dumps(e[0]) for e in L}
    return (h is not g and ps(ha) <= ps(ga) and ps(hb) <= ps(gb) and len(ha) + len(hb) < len(ga) + len(gb)
            and set(h["features"].split(",")) <= set(g["features"].split(",")))


def report(ctx, outs, rejected):
    groups = {}
    for o in outs:
        for g in o["groups"]:
            k = (g["site"], g["clause"], g["features"])
            cur = groups.setdefault(k, {"site": g["site"], "clause": g["clause"], "features": g["features"],
                                        "modes": set(), "best": None, "count": 0, "AB": ([], [])})
            cur["modes"].add(g["mode"])
            cur["count"] += g["count"]
            key = tuple(g["key"])
            if cur["best"] is None or key < cur["best"][0]:
                cur["best"] = (key, g["case"], dict(g["raw"], detail=g["detail"], mode=g["mode"]))
                cur["AB"] = g.get("AB") or ([], [])
        for dr in o["drift"]:
            ctx.drift_event(f"{dr['what']} x{dr['count']} ({o['mode']}): {dr['case']} {json.dumps(dr['detail'])[:300]}")
    # keep the minimal cases only: a group whose representative contains the representative of another
    # group with the same site and clause says nothing new
    gl = list(groups.values())
    keep = [g for g in gl if not any(h["site"] == g["site"] and h["clause"] == g["clause"] and subcase(h, g) for h in gl)]
    # a rejected recording adds something only if no enumerated minimal failure of the same site and
    # clause is contained in it (same kind of change present)
    for k, g in rejected.items():
        if any(h["site"] == k[0] and h["clause"] == k[1] and set(h["features"].split(",")) <= set(k[2].split(",")) for h in keep):
            continue
        keep.append({"site": k[0], "clause": "trace:" + k[1], "features": k[2], "modes": g["modes"], "best": g["best"], "count": g["count"]})
    for g in sorted(keep, key=lambda g: (g["site"], g["clause"], g["features"])):
        key, txt, raw = g["best"]
        sig = f"{g['site']}|{g['clause']}|{g['features']}|{txt}"
        if len(g["modes"]) == 1:
            sig += f"|impl={next(iter(g['modes']))}"
        ctx.violation(sig, f"{g['site']}: clause {g['clause']} fails for {g['count']} case(s); minimal: {txt}", raw)


# --------------------------------------------------------------------------- entry
def run(ctx):
    if not git_available():
        raise MachineryError("git not found")
    rustext.build()
    for f in os.listdir(ctx.replay_dir):        # replay files of earlier runs of this check
        if f.endswith(".json"):
            os.remove(os.path.join(ctx.replay_dir, f))
    G = Git(ctx)
    nsh = ctx.pick(5, 7)
    outs = []
    extra = []
    if ctx.quick:
        plan = [("build 8 paths x 8 cells <=3", "TreeDiffGen_build.cfg"),
                ("diff 8 paths x 2 cells <=2", "TreeDiffGen_diff_q1.cfg"),
                ("diff 3 paths x 5 cells <=2", "TreeDiffGen_diff_q2.cfg"),
                ("detector reused for 2 diffs, 3 paths x 3 cells <=2, max_files=1", "TreeDiffSeq_q.cfg")]
    else:
        plan = [("build 8 paths x 8 cells <=4", "TreeDiffGen_build_t.cfg"),
                ("diff 8 paths x 4 cells <=2", "TreeDiffGen_diff_t1.cfg"),
                ("diff 6 paths x 3 cells <=3", "TreeDiffGen_diff_t3.cfg"),
                ("diff 3 paths x 8 cells <=2", "TreeDiffGen_diff_t4.cfg"),
                ("detector reused for 2 diffs, 4 paths x 3 cells <=2, max_files=1", "TreeDiffSeq_t.cfg")]
    total_cases = 0
    # TLC enumerates the next configuration while the current one is replayed
    from concurrent.futures import ThreadPoolExecutor
    pool = ThreadPoolExecutor(1)
    # negative control of the detector model: with candidates surviving a skipped diff (Stale = TRUE)
    # TLC must find a second diff whose result depends on the first
    neg = ThreadPoolExecutor(1).submit(tlc.run, "TreeDiffSeq.tla", "TreeDiffSeq_neg.cfg", workers=2, timeout=600)
    futs = [pool.submit(gen_cases, ctx, plan[0][0], plan[0][1])]
    for k, (label, cfg) in enumerate(plan):
        cases, n = futs[k].result()
        if k + 1 < len(plan):
            futs.append(pool.submit(gen_cases, ctx, plan[k + 1][0], plan[k + 1][1]))
        total_cases += n
        with open(cases) as f:
            first = f.readline()
        ctx.sample({"kind": "tlc-case", "config": cfg, "case": json.loads(first) if len(first) < 4000 else first[:4000]})
        seq = cfg.startswith("TreeDiffSeq")
        o, gitfiles, treefiles = replay_cases(ctx, cases, label, nsh, git=not seq, max_traces=0 if seq else ctx.pick(150, 1500))
        outs += o
        for x in o:
            extra += [(x["mode"], t) for t in x["traces"]]
        ctx.cov.setdefault("nontrivial_cases", 0)
        ctx.cov["nontrivial_cases"] += sum(x["nontrivial"] for x in o if x["mode"] == "py")
        if not seq:
            git_crosscheck(ctx, G, gitfiles, treefiles, label, stride=ctx.pick(4, 3))
        os.remove(cases)
    r = neg.result()
    ctx.add_tlc("TreeDiffSeq_neg (negative control: stale candidates, expects Lemmas violated)", r, require_ok=False)
    if "Lemmas" not in r.violated:
        raise MachineryError(f"negative control TreeDiffSeq_neg did not find the stale-candidate dependence\n{r.output[-1500:]}")
    for k in range(ctx.cov.get("nontrivial_cases", 0)):
        ctx.nontrivial(k)
    rejected = trace_validation(ctx, ctx.pick(1200, 12000), nsh, extra)
    report(ctx, outs, rejected)
    ctx.cov["cases_enumerated_by_tlc"] = total_cases
    ctx.cov["rule"] = ("a case = one listing (build/flatten/lookup, 3 input orders) or one ordered pair of listings (tree_changes under 8 flag "
                       "combinations + 5 path filters, commit_tree_changes in 2 orders, RenameDetector) or one sequence of two diffs made with one "
                       "RenameDetector object (one per distinct detector state x second pair), each executed with and without the Rust "
                       "extensions; non-trivial = listing with >= 2 entries or pair with A # B (counted once, not per implementation), plus every "
                       "randomly generated execution judged by TLC")
    ctx.assumptions += ["SHA-1 treated as injective (tree identity = canonical entry sequence); hashlib computes the real ids",
                        "C git 2.39.5 is used to validate the spec (mktree ids, raw diffs, literal pathspecs, -C100% exact renames), not dulwich directly",
                        "rename detection: exact (same id) renames/copies, plus one abstract similar pair of blobs (x, edited copy u) for the content "
                        "path of a detector object reused for two diffs with max_files=1; pairing compared only where ids are not shared and at most "
                        "one content candidate exists; similarity scores/thresholds themselves are not modelled",
                        "listings are valid (no path is a prefix of another); change lists name existing paths and mention each path once",
                        "in-memory object store (MemoryObjectStore); object ids of blobs/gitlinks are opaque"]
    return ctx.finish(exhaustive=True)


def replay(ctx, path):
    with open(path) as f:
        obj = json.load(f)
    print(f"property C12 replay of {path}\n  signature: {obj.get('signature')}\n  what: {obj.get('what')}")
    rustext.build()
    d = ctx.tmpdir("replay")
    modes = [obj["mode"]] if obj.get("mode") in ("py", "rs") else ["py", "rs"]
    rc = 0
    for mode in modes:
        task = os.path.join(d, f"replay-{mode}.json")
        with open(task, "w") as f:
            json.dump(obj, f)
        code = rustext.prelude(mode) + (f"import sys, json\nsys.path.insert(0, {VERIF!r})\nfrom harness import c12_child as ch\n"
                                        "obj = json.load(open(sys.argv[1]))\nR = ch.Real()\ncol = ch.Collector(sys.argv[2])\n"
                                        "if obj['kind'] == 'build':\n    ch.run_build_case(R, col, obj['case'], verbose=True)\n"
                                        "elif obj['kind'] == 'diff':\n    ch.run_diff_case(R, col, obj['case'], obj.get('filters', []), verbose=True)\n"
                                        "elif obj['kind'] == 'seq':\n    ch.run_seq_case(R, col, obj['case'], verbose=True)\n"
                                        "else:\n    t = ch.run_trace_case(R, obj['case'])\n    print('  recorded:', json.dumps(t)[:3000])\n"
                                        "    json.dump(t, open(sys.argv[1] + '.trace', 'w'))\n"
                                        "for g in col.groups.values():\n    print('  FAIL', g['site'], g['clause'], g['features'], g['case'])\n"
                                        "sys.exit(1 if col.groups else 0)\n")
        print(f"--- implementation: {mode}")
        p = subprocess.run([PY, "-c", code, task, mode], text=True)
        if obj["kind"] == "trace" and os.path.exists(task + ".trace"):
            with open(task + ".trace") as f:
                t = json.load(f)
            ts = t if isinstance(t, list) else [t]
            vs = judge(ctx, [dict(x, tid=k + 1) for k, x in enumerate(ts)], "replay", workers=1)
            for k in range(len(ts)):
                v = vs[k + 1]
                print(f"  TLC verdict{f' (diff {k + 1})' if len(ts) > 1 else ''}: {v[0]}{' (drift)' if v[1] else ''}")
                if v[0] != "ok":
                    rc = 1
        elif p.returncode == 1:
            rc = 1
        elif p.returncode != 0:
            return 2
    print("result:", "still failing" if rc else "passes now")
    return rc

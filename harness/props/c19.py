"""C19 -- pkt-line and side-band framing round-trips under any read chunking.

Specs: specs/PktLine.tla (reference codec: length-prefix verdict, frame grammar, encoder verdict by
length, side-band split, capability / ref / want lines), specs/StreamRd.tla (ReceivableProtocol
read/recv + read_pkt_line/unread/eof, one step per _recv call, every partition of the stream),
specs/StreamRdMux.tla (PktLineParser under every fragmentation; BufferedPktLineWriter -> side-band ->
demux -> PktLineParser), specs/StreamRdPack.tla (PackStreamReader read/recv/push-back and trailer
tracking), specs/StreamRdFilter.tla (the filter-process protocol of filters.py as a consumer that must keep the
flush-pkt and the empty data packet apart), specs/StreamRdTrace.tla + StreamRdPackTrace.tla (TLC judges executions recorded from the
real code).

Binding:
  R  every case / behaviour TLC enumerates (initial states of the PktLine families; leaves of the
     behaviour trees of the three StreamRd machines, printed by TLC as JSON) is executed on the real
     functions and classes and compared with what the specification says after every operation;
  T  executions of the real code on inputs TLC does not enumerate (hypothesis payload sequences,
     real-size frames at the 65516/65520 boundaries, random partitions, real packs produced by C git
     read through ReceivableProtocol + PackStreamReader) are recorded as ndjson and judged by TLC;
  G  C git as third party: its pkt-line parser judges the prefixes the reference judges (spec
     validation), reads what dulwich's encoder emits, and dulwich decodes what git emits
     (upload-pack advertisement and side-band-64k pack stream) under random partitions.
"""
from __future__ import annotations

import json
import os
import shutil
import subprocess
from concurrent.futures import ThreadPoolExecutor
from io import BytesIO

from .. import tlc
from ..c19_lib import (P, RecHash, Wire, b, buffered, git_env, leaves, okind, outcome, read_all_pkts, rprotocol,
                       split_frames, write_cfg)
from ..c19_filter import Env as FilterEnv, check_filter_leaf
from ..core import MachineryError

PAT = bytes(range(251))
BIG = (PAT * 270)[:66000]


def pattern(n: int) -> bytes:
    return (PAT * (n // 251 + 1))[:n]


# --------------------------------------------------------------------------- reporting
class Rep:
    """Violation reporting with a cap on distinct signatures per (site, clause)."""

    def __init__(self, ctx, verbose=False):
        self.ctx, self.verbose, self.per = ctx, verbose, {}

    def v(self, site, clause, case, what, replay):
        seen = self.per.setdefault((site, clause), set())
        if case not in seen and len(seen) >= 6:
            case = "(further cases)"
        seen.add(case)
        self.ctx.violation(f"{site}|{clause}|{case}", what, replay)

    def drift(self, msg):
        self.ctx.drift_event(msg)

    def say(self, *a):
        if self.verbose:
            print("   ", *a, flush=True)


def frame_case(kind, n):
    if kind in ("data", "oversize"):
        return "frame=0004" if n == 4 else "frame=data"
    return {"flush": "frame=0000", "delim": "frame=0001", "respend": "frame=0002"}.get(kind, "frame=" + kind)


def hdr_case(h):
    """Name of the frame a read_pkt_line / eof operation met, from the value of its length prefix."""
    return {-2: "short stream", -1: "frame=invalid", 0: "frame=0000", 1: "frame=0001", 2: "frame=0002", 3: "frame=0003",
            4: "frame=0004"}.get(h, "frame=data")


def first_nonhex(pre: bytes):
    for c in pre:
        if c not in b"0123456789abcdefABCDEF":
            return f"0x{c:02x}"
    return "none"


# --------------------------------------------------------------------------- PktLine: length prefix
def check_prefix(rep, c):
    """c = {prefix: [ints], n: reference value or -1, kind, frames: bool}"""
    from dulwich.protocol import _parse_pkt_line_length
    pre, n, kind = b(c["prefix"]), c["n"], c["kind"]
    o = outcome(_parse_pkt_line_length, pre)
    rep.say(f"_parse_pkt_line_length({pre!r}) -> {o}   reference: {n if n >= 0 else 'not a prefix'}")
    site = P + ":_parse_pkt_line_length"
    rp = {"kind": "prefix", "case": c}
    if o[0] == "crash":
        rep.v(site, "TotalDecoder", f"len={len(pre)} nonhex={first_nonhex(pre)} -> {okind(o)}",
              f"{pre!r}: {o[1]} instead of a value or GitProtocolError", rp)
    elif n >= 0 and o != ("ok", n):
        rep.v(site, "LenPrefix", f"hex prefix{' (upper case)' if pre != pre.lower() else ''} -> {okind(o)}",
              f"{pre!r} is the length {n}, got {o}", rp)
    elif n < 0 and o[0] == "ok":
        rep.v(site, "LenPrefix", f"accepts len={len(pre)} nonhex={first_nonhex(pre)}",
              f"{pre!r} is not four hex digits but is read as the length {o[1]}", rp)
    ncmp = 1
    if c.get("frames") and len(pre) == 4:
        ncmp += check_one_frame(rep, pre, n, kind, rp)
    return ncmp


def readers():
    from dulwich.protocol import PktLineParser, Protocol

    def r_protocol(data):
        p = Protocol(BytesIO(data).read, lambda d: None)
        return read_all_pkts(p, 3)

    def r_receivable(data):
        return read_all_pkts(rprotocol(Wire(data)), 3)

    def r_parser(data):
        out = []
        o = outcome(PktLineParser(out.append).parse, data)
        return out, (("hangup",) if o[0] == "ok" else o)
    return (("Protocol.read_pkt_line", r_protocol, False), ("ReceivableProtocol.read_pkt_line", r_receivable, False),
            ("PktLineParser.parse", r_parser, True))


_READERS = None


def check_one_frame(rep, pre, n, kind, rp):
    """One frame with this prefix, followed by a flush-pkt, through the three decoders."""
    global _READERS
    if _READERS is None:
        _READERS = readers()
    if kind in ("data", "oversize"):
        payload = BIG[:n - 4]
        data = pre + payload + b"0000"
    elif kind == "invalid":
        data = pre + b"0123456789abcdef"
    else:
        data = pre + b"0000"
    for name, rd, is_parser in _READERS:
        got, end = rd(data)
        site = f"{P}:{name}"
        if end[0] == "crash":
            rep.v(site, "TotalDecoder", f"{frame_case(kind, n)} -> {okind(end)}",
                  f"frame {pre!r}+{max(n - 4, 0)} bytes: {end[1]} instead of a frame or GitProtocolError", rp)
            continue
        if kind in ("data", "oversize"):
            want = [payload, None]
            if kind == "oversize" and not got and end[0] == "proterr":
                continue          # longer than any writer may send: refusing is allowed
        elif kind == "flush":
            want = [None, None]
        elif kind == "delim":
            want = [] if is_parser else [None, None]
        else:
            want = []
        rep.say(f"{name}: {[x if x is None or len(x) < 20 else f'<{len(x)} bytes>' for x in got]} end={end[0]}")
        if got == want and (end[0] == "hangup" if want else end[0] == "proterr"):
            continue
        if kind in ("invalid",) or (kind in ("delim", "respend") and is_parser):
            # not a frame: the decoder must refuse
            if got or end[0] != "proterr":
                if n == 3 or n < 0:
                    rep.v(site, "TotalDecoder", f"accepts {'0003' if n == 3 else 'nonhex=' + first_nonhex(pre)}",
                          f"{pre!r} is not a frame but the decoder delivered {got!r:.80} ({end[0]})", rp)
                else:
                    rep.drift(f"{name}: {pre!r} (delim / response-end) now accepted: {got!r:.60}")
        elif kind == "respend":
            if end[0] == "proterr" and not got:
                continue
            rep.drift(f"{name}: response-end {pre!r} -> {got!r:.60} {end[0]} (model: GitProtocolError)")
        else:
            rep.v(site, "RoundTrip", f"{frame_case(kind, n)}{' (upper case)' if pre != pre.lower() else ''} -> "
                  f"{'wrong payload' if end[0] == 'hangup' else okind(end)}",
                  f"frame {pre!r}+{max(n - 4, 0)} bytes then 0000: decoded {len(got)} items, end {end}", rp)
    return 3


# --------------------------------------------------------------------------- PktLine: encoder at the size boundaries
def encoders():
    from dulwich.protocol import BufferedPktLineWriter, Protocol, pkt_line, pkt_seq

    def e_write(data):
        w = []
        Protocol(None, w.append).write_pkt_line(data)
        return b"".join(w)

    def e_seq(data):
        out = pkt_seq(data)
        if out[-4:] != b"0000":
            raise MachineryError("pkt_seq without trailing flush")
        return out[:-4]

    def e_buffered(data):
        w = []
        bw = BufferedPktLineWriter(w.append)
        bw.write(data)
        bw.flush()
        return b"".join(w)
    return (("pkt_line", pkt_line), ("pkt_seq", e_seq), ("Protocol.write_pkt_line", e_write),
            ("BufferedPktLineWriter.write", e_buffered))


def git_verdict(frame: bytes):
    """What C git's pkt-line reader makes of these bytes (upload-pack reading its first request line)."""
    d = _git_repo()
    if d is None:
        return "git unavailable"
    p = subprocess.run(["git", "upload-pack", d], input=frame, capture_output=True, env=git_env(os.path.dirname(d)))
    err = p.stderr.decode("latin-1").strip()
    if "bad line length" in err:
        return err.replace("fatal: protocol error: ", "refused: ")
    if "expected to get object ID, not '" in err:
        got = err.split("not '", 1)[1].rsplit("'", 1)[0]
        return f"accepted a frame of {len(got)} payload bytes"
    return f"rc={p.returncode} {err[:80]}"


def check_enc(rep, c):
    """c = {L, ok, total, prefix}: what the reference says about a payload of L bytes."""
    L, ok = c["L"], c["ok"]
    payload = pattern(L)
    want = b(c["prefix"]) + payload if ok else None
    rp = {"kind": "enc", "case": c}
    root_bad = None
    n = 0
    for name, enc in encoders():
        o = outcome(enc, payload)
        n += 1
        out = o[1] if o[0] == "ok" else None
        rep.say(f"{name}(<{L} bytes>) -> " + (f"{out[:6]!r}... total {len(out)}" if out is not None else str(o)) +
                f"   reference: {'prefix ' + repr(b(c['prefix'])) + ' total ' + str(c['total']) if ok else 'refuse (frame > 65520)'}")
        site = f"{P}:{name}"
        if ok:
            if out != want:
                rep.v(site, "RoundTrip" if o[0] == "ok" else "TotalEncoder", f"payload_len={L} -> {okind(o)}",
                      f"payload of {L} bytes: expected prefix {b(c['prefix'])!r} and {c['total']} bytes, got {o if out is None else (out[:8], len(out))}", rp)
            continue
        if out is None:
            continue          # refused: fine
        cls = "oversize:5-digit-prefix" if L + 4 > 0xFFFF else "oversize:frame>65520"
        if name == "pkt_line":
            root_bad = out
        if root_bad is not None and out == root_bad and name != "pkt_line":
            continue          # same bytes as pkt_line itself: one defect, reported at its root
        extra = f"; C git on these bytes: {git_verdict(out[:200000])}" if rep.verbose else ""
        rep.v(site, "NoMalformedFrame", cls,
              f"payload of {L} bytes is emitted as a frame starting {out[:5]!r} ({len(out)} bytes) instead of being refused or split: "
              f"{'the length no longer fits four hex digits, the receiver reads 0x' + out[:4].decode() + ' and loses framing' if L + 4 > 0xFFFF else 'frame longer than the 65520 bytes a pkt-line may have'}{extra}", rp)
    return n


def check_sideband(rep, c):
    """c = {ch, D, lens, prefixes}"""
    from dulwich.protocol import Protocol
    ch, D = c["ch"], c["D"]
    blob = pattern(D)
    w = []
    o = outcome(Protocol(None, w.append).write_sideband, ch, blob)
    site = f"{P}:Protocol.write_sideband"
    rp = {"kind": "sideband", "case": c}
    rep.say(f"write_sideband({ch}, <{D} bytes>) -> {o[0]}, writes of {[len(x) for x in w]} bytes; reference data chunks {c['lens']}")
    if o[0] != "ok":
        rep.v(site, "TotalEncoder", f"D={D} -> {okind(o)}", f"write_sideband({ch}, {D} bytes): {o}", rp)
        return 1
    try:
        frames = split_frames(b"".join(w))
    except ValueError as e:
        rep.v(site, "NoMalformedFrame", f"unparseable output D={D}", f"write_sideband({ch}, {D} bytes) wrote bytes that are not pkt-lines: {e}", rp)
        return 1
    bad = [len(p) + 4 for (_, p) in frames if p is None or len(p) + 4 > 65520 or len(p) < 1]
    if bad:
        rep.v(site, "NoMalformedFrame", f"frame>65520 at D={'>65515' if D > 65515 else D}",
              f"write_sideband({ch}, {D} bytes) emitted frames of total length {bad}", rp)
        return 1
    if any(p[0] != ch for (_, p) in frames) or b"".join(p[1:] for (_, p) in frames) != blob:
        rep.v(site, "RoundTrip", f"D={'>65515' if D > 65515 else D} channel data differs",
              f"write_sideband({ch}, {D} bytes): demultiplexed data differs from what was written", rp)
        return 1
    if [len(p) - 1 for (_, p) in frames] != list(c["lens"]) or [pre for (pre, _) in frames] != [b(x) for x in c["prefixes"]] \
            or len(w) != len(frames):
        rep.drift(f"write_sideband D={D}: chunks {[len(p) - 1 for (_, p) in frames]} in {len(w)} writes, model {c['lens']}")
    return 1


def check_sbmix(rep, c):
    """c = {msgs: [[ch, [data]]], bytes, cat: [[..], [..], [..]]}"""
    from dulwich.client import _read_side_band64k_data
    from dulwich.protocol import Protocol
    msgs = [(ch, b(d)) for (ch, d) in c["msgs"]]
    ref, cat = b(c["bytes"]), [b(x) for x in c["cat"]]
    rp = {"kind": "sbmix", "case": c}
    w = []
    pr = Protocol(None, w.append)

    def enc():
        for ch, d in msgs:
            pr.write_sideband(ch, d)
        pr.write_pkt_line(None)
    o = outcome(enc)
    wire = b"".join(w)
    rep.say(f"messages {msgs}: wire {wire!r}; reference {ref!r}")
    if o[0] != "ok" or wire != ref:
        rep.v(f"{P}:Protocol.write_sideband", "RoundTrip", f"small messages -> {okind(o) if o[0] != 'ok' else 'bytes differ from the reference'}",
              f"messages {msgs}: wrote {wire!r} ({o[0]}), reference {ref!r}", rp)
        return 1
    got = {1: b"", 2: b"", 3: b""}

    def dec():
        for chan, data in _read_side_band64k_data(rprotocol(Wire(wire)).read_pkt_seq()):
            got[chan] += data
    o = outcome(dec)
    rep.say(f"demultiplexed: {got} ({o[0]}); reference {cat}")
    if o[0] != "ok" or [got[1], got[2], got[3]] != cat:
        rep.v("dulwich/client.py:_read_side_band64k_data", "TotalDecoder" if o[0] == "crash" else "RoundTrip",
              f"three channels -> {okind(o) if o[0] != 'ok' else 'wrong channel data'}", f"messages {msgs}: demultiplexed {got} ({o}), expected {cat}", rp)
    return 2


# --------------------------------------------------------------------------- PktLine: short item sequences
def check_frames(rep, c):
    """c = {items: [[kind, [payload]]], bytes: [...]}"""
    from dulwich.protocol import PktLineParser, Protocol, pkt_line, pkt_seq
    items = [(k, b(p)) for (k, p) in c["items"]]
    ref = b(c["bytes"])
    rp = {"kind": "frames", "case": c}
    vals = [p if k == "data" else None for (k, p) in items]
    n = 0
    # encoders
    enc = b"".join(pkt_line(p) if k == "data" else (pkt_line(None) if k == "flush" else b"0001") for (k, p) in items)
    w = []
    pr = Protocol(None, w.append)
    for (k, p) in items:
        pr.write_pkt_line(p if k == "data" else None) if k != "delim" else pr.write(b"0001")
    n += 2
    rep.say(f"items {vals}: reference bytes {ref!r}; pkt_line {enc!r}")
    for name, got in (("pkt_line", enc), ("Protocol.write_pkt_line", b"".join(w))):
        if got != ref:
            rep.v(f"{P}:{name}", "RoundTrip", "short items: encoding differs from the reference",
                  f"items {vals}: {got!r} instead of {ref!r}", rp)
    if all(k == "data" for (k, _) in items):
        n += 1
        if pkt_seq(*[p for (_, p) in items]) != ref + b"0000":
            rep.v(f"{P}:pkt_seq", "RoundTrip", "short items: encoding differs from the reference", f"payloads {vals}", rp)
    # decoders: the reference bytes (= the real encoding, checked above) back to items
    for name, mk in (("Protocol", lambda: Protocol(BytesIO(ref).read, lambda d: None)),
                     ("ReceivableProtocol", lambda: rprotocol(Wire(ref)))):
        got, end = read_all_pkts(mk(), 10)
        n += 1
        rep.say(f"{name}.read_pkt_line* -> {got} then {end[0]}")
        if got != vals or end[0] != "hangup":
            bad = items[len(got)] if len(got) < len(items) and got == vals[:len(got)] else ("?", b"")
            clause = "TotalDecoder" if end[0] == "crash" else "RoundTrip"
            rep.v(f"{P}:{name}.read_pkt_line", clause, f"{frame_case(bad[0], len(bad[1]) + 4)} -> {okind(end) if end[0] != 'hangup' else 'wrong items'}",
                  f"items {vals} encoded as {ref!r}: decoded {got} then {end}", rp)
        # read_pkt_seq: the payloads up to the first flush / delim; the stream continues right after it
        p2 = mk()
        o = outcome(lambda: list(p2.read_pkt_seq()))
        cut = next((i for i, v in enumerate(vals) if v is None), len(vals))
        rest, rend = read_all_pkts(p2, 10) if o[0] == "ok" else ([], ("-",))
        n += 1
        rep.say(f"{name}.read_pkt_seq -> {o}; then {rest}")
        if cut == len(vals):
            okk = o == ("hangup",)          # no terminator: the stream ends inside the sequence
        else:
            okk = o == ("ok", vals[:cut]) and rest == vals[cut + 1:] and rend[0] == "hangup"
        if not okk:
            crash = o if o[0] == "crash" else (rend if rend[0] == "crash" else None)
            if crash is not None:
                # read_pkt_seq is a loop around read_pkt_line: a crash is reported where it happens
                rep.v(f"{P}:{name}.read_pkt_line", "TotalDecoder", f"{'frame=0004' if b'' in vals else 'short items'} -> {okind(crash)}",
                      f"items {vals}: read_pkt_seq / read_pkt_line raised {crash[1]}", rp)
            elif o[0] == "ok" and b"" in vals[:cut] and o[1] == vals[:vals.index(b"")]:
                rep.v(f"{P}:Protocol.read_pkt_seq", "RoundTrip", "frame=0004 ends the sequence",
                      f"items {vals}: read_pkt_seq stops at the empty payload as if it were a flush-pkt: {o[1]} instead of {vals[:cut]}", rp)
            else:
                rep.v(f"{P}:{name}.read_pkt_seq", "RoundTrip", "short items: wrong sequence",
                      f"items {vals}: read_pkt_seq gave {o}, then {rest} {rend[0]}; expected {vals[:cut]} then {vals[cut + 1:]}", rp)
    # eof() before every line does not disturb the stream
    p3 = Protocol(BytesIO(ref).read, lambda d: None)
    got = []
    for _ in range(len(vals) + 2):
        e = outcome(p3.eof)
        if e != ("ok", False):
            break
        o = outcome(p3.read_pkt_line)
        if o[0] != "ok":
            e = o
            break
        got.append(o[1])
    n += 1
    if got != vals or e != ("ok", True):
        rep.v(f"{P}:Protocol.eof", "TotalDecoder" if e[0] == "crash" else "RoundTrip", "short items: eof/unread changes the stream",
              f"items {vals}: eof();read_pkt_line() gave {got} then {e}", rp)
    # PktLineParser on the whole stream
    out = []
    o = outcome(PktLineParser(out.append).parse, ref)
    cutd = next((i for i, (k, _) in enumerate(items) if k == "delim"), None)
    wantp = vals if cutd is None else vals[:cutd]
    n += 1
    if o[0] == "crash" or out != wantp or (o[0] == "ok") != (cutd is None):
        rep.v(f"{P}:PktLineParser.parse", "TotalDecoder" if o[0] == "crash" else "RoundTrip", f"short items -> {okind(o)}",
              f"items {vals}: parser delivered {out}, {o}", rp)
    return n


# --------------------------------------------------------------------------- PktLine: capability / ref / want lines
def check_caps(rep, c):
    """c = {ref, caps: [[...]], line, head, parsed: [{k, has, v}]}"""
    from dulwich.protocol import extract_capabilities, format_ref_line, parse_capability
    ref, caps, line, head = b(c["ref"]), [b(x) for x in c["caps"]], b(c["line"]), b(c["head"])
    sha = head[:40]
    rp = {"kind": "caps", "case": c}
    n = 0
    real = outcome(format_ref_line, ref, sha, caps)
    rep.say(f"format_ref_line({ref!r}, sha, {caps}) -> {real}")
    lines = [("reference line", line)]
    if real != ("ok", line):
        if real[0] != "ok":
            rep.v(f"{P}:format_ref_line", "CapsRoundTrip", f"-> {okind(real)}", f"format_ref_line({ref!r}, sha, {caps}): {real}", rp)
        else:
            rep.drift(f"format_ref_line({ref!r}, .., {caps}) = {real[1]!r}, model {line!r}")
            lines.append(("format_ref_line output", real[1]))
    for what, ln in lines:
        o = outcome(extract_capabilities, ln)
        n += 1
        rep.say(f"extract_capabilities({ln!r}) -> {o}")
        if o != ("ok", (head, caps)):
            rep.v(f"{P}:extract_capabilities", "CapsRoundTrip", f"ncaps={len(caps)} -> {okind(o) if o[0] != 'ok' else 'wrong list'}",
                  f"{what} {ln!r}: got {o}, expected {(head, caps)}", rp)
        # as the client reads an advertisement: first line with capabilities, second without
        n += check_refs_v1(rep, ln, sha, ref, caps, rp)
    for cap, pc in zip(caps, c["parsed"]):
        want = (b(pc["k"]), b(pc["v"]) if pc["has"] else None)
        o = outcome(parse_capability, cap)
        n += 1
        if o != ("ok", want):
            rep.v(f"{P}:parse_capability", "CapsRoundTrip", f"has_eq={pc['has']} -> {okind(o) if o[0] != 'ok' else 'wrong split'}",
                  f"parse_capability({cap!r}) = {o}, expected {want}", rp)
    return n


def check_refs_v1(rep, first_line, sha, ref, caps, rp):
    try:
        from dulwich.client import read_pkt_refs_v1
        from dulwich.protocol import format_ref_line
    except ImportError:
        return 0
    from dulwich.protocol import Protocol, pkt_line
    second = format_ref_line(ref + b"2", sha)
    # the whole path of an advertisement: pkt_line -> read_pkt_seq -> read_pkt_refs_v1
    wire = pkt_line(first_line) + pkt_line(second) + pkt_line(None)
    o = outcome(lambda: read_pkt_refs_v1(Protocol(BytesIO(wire).read, lambda d: None).read_pkt_seq()))
    want = ({ref: sha, ref + b"2": sha}, set(caps))
    if o != ("ok", want):
        rep.v("dulwich/client.py:read_pkt_refs_v1", "CapsRoundTrip", f"ncaps={len(caps)} -> {okind(o) if o[0] != 'ok' else 'wrong refs/caps'}",
              f"advertisement {[first_line, second]}: got {o}, expected {want}", rp)
    return 1


def check_want(rep, c):
    """c = {caps, line}"""
    from dulwich.protocol import extract_want_line_capabilities
    caps, line = [b(x) for x in c["caps"]], b(c["line"])
    sha = line[5:45]
    rp = {"kind": "want", "case": c}
    n = 0
    lines = [("reference line", line, caps)]
    real = real_want_line(sha, caps)
    if real is not None:
        lines.append(("client want line", real, sorted(caps)))
    for what, ln, cs in lines:
        o = outcome(extract_want_line_capabilities, ln)
        n += 1
        rep.say(f"extract_want_line_capabilities({ln!r}) -> {o}")
        want = (b"want " + sha, cs) if cs else None
        if (cs and o != ("ok", want)) or (not cs and (o[0] != "ok" or o[1][1] != [] or o[1][0].rstrip() != b"want " + sha)):
            rep.v(f"{P}:extract_want_line_capabilities", "CapsRoundTrip", f"ncaps={len(cs)} -> {okind(o) if o[0] != 'ok' else 'wrong list'}",
                  f"{what} {ln!r}: got {o}, expected head b'want <sha>' and {cs}", rp)
    return n


_WANT_BROKEN = False


def real_want_line(sha, caps):
    """The first want line as dulwich's client writes it (private helper; shape only if it moved)."""
    global _WANT_BROKEN
    if _WANT_BROKEN:
        return None
    try:
        from dulwich.client import _handle_upload_pack_head
        from dulwich.protocol import Protocol

        class GW:
            def __next__(self):
                return None
            next = __next__

            def __iter__(self):
                return iter(())
        w = []
        _handle_upload_pack_head(Protocol(None, w.append), list(caps), GW(), [sha], None, None, 0)
        return split_frames(b"".join(w))[0][1]
    except Exception:  # noqa: BLE001
        _WANT_BROKEN = True
        return None


# --------------------------------------------------------------------------- StreamRd: behaviours on the real ReceivableProtocol
def check_rp_leaf(rep, c):
    """c = {stream, hist: [[e, s, a, b, k, d]], rbuf}"""
    stream, hist = b(c["stream"]), c["hist"]
    strict = [(e[2], e[3]) for e in hist if e[0] == "rx"]
    w = Wire(stream, strict=strict)
    p = rprotocol(w, rbufsize=c["rbuf"])
    rp = {"kind": "rp", "case": c}
    ops = [e for e in hist if e[0] != "rx"]
    last_line = buffered_line = None
    n = 0
    cons = 0          # bytes of the stream the client has taken off the wire (raw reads and whole frames)
    for i in range(0, len(ops) - 1, 2):
        op, ret = ops[i], ops[i + 1]
        t, size = op[1], op[2]
        est, ek, ed, ebuf = ret[1], ret[4], b(ret[5]), ret[2]
        cons0 = cons
        if t == "read":
            o, name = outcome(p.read, size), "ReceivableProtocol.read"
        elif t == "recv":
            o, name = outcome(p.recv, size), "ReceivableProtocol.recv"
        elif t == "pkt":
            o, name = outcome(p.read_pkt_line), "ReceivableProtocol.read_pkt_line"
        elif t == "eof":
            o, name = outcome(p.eof), "ReceivableProtocol.read_pkt_line"
        else:
            o, name = outcome(p.unread_pkt_line, last_line), "Protocol.unread_pkt_line"
        n += 1
        if est == "ok":
            want = ("ok", {"bytes": ed, "some": ed, "data": ed, "none": None, "true": True, "false": False, "-": None}[ek])
        else:
            want = (est,)
        rep.say(f"{t}({size or ''}) -> {o}   model: {want}   _recv calls so far {w.log}")
        if t == "pkt" and o[0] == "ok":
            last_line = o[1]
        site = f"{P}:{name}"
        desc = f"stream {stream!r} chunks {[k for (_, k) in strict]} op#{i // 2 + 1} {t}({size or ''})"
        fcase = hdr_case(op[3]) if t in ("pkt", "eof") else f"{t}{size or ''} exp={est}/{ek}"
        if o[0] == "crash":
            rep.v(site, "TotalDecoder", f"{fcase} -> {okind(o)}", f"{desc}: {o[1]}; the reference says {want}", rp)
            return n
        if t in ("read", "recv") and o[0] == "ok":
            cons += len(o[1])
        elif t in ("pkt", "eof") and o[0] == "ok" and not (t == "eof" and o[1]) and buffered_line is None:
            cons += max(op[3], 4)
        if t == "pkt":
            buffered_line = None
        elif (t == "eof" and o == ("ok", False)) or t == "unread":
            buffered_line = True
        if o[:1] == want[:1] and (o[0] != "ok" or o[1] == want[1]):
            if buffered(p) is not None and buffered(p) != ebuf and est == "ok":
                rep.drift(f"{desc}: {buffered(p)} bytes buffered, model {ebuf}")
            continue
        if t == "recv" and o[0] == "ok" and est == "ok":
            # how much recv() returns depends on what _recv delivered: judged by the statement, not by the model's run
            r = o[1]
            if r == stream[cons0:cons0 + len(r)] and (1 <= len(r) <= size or (not r and cons0 >= len(stream))):
                rep.drift(f"{desc}: returned {len(r)} bytes, model {len(ed)} (both are the next bytes of the stream)")
                continue
        if est == "proterr" and o == ("ok", None) and fcase == "frame=0002":
            rep.drift(f"{desc}: response-end packet now read as None (model: GitProtocolError)")
        elif est == "proterr" and o[0] == "ok":
            rep.v(site, "TotalDecoder", f"{t}: accepts what is not a frame ({fcase})", f"{desc}: returned {o[1]!r}, the reference says GitProtocolError", rp)
        elif est in ("hangup", "proterr") and o[0] in ("hangup", "proterr"):
            rep.drift(f"{desc}: {o[0]} where the model says {est}")
        else:
            rep.v(site, "RoundTrip", f"{fcase} -> {okind(o) if o[0] != 'ok' else 'wrong result'}",
                  f"{desc}: got {o}, the reference says {want}", rp)
        return n
    for s in w.shape[:1]:
        rep.drift(f"stream {stream!r}: {s}")
    return n


# --------------------------------------------------------------------------- StreamRdMux
def check_parser_leaf(rep, c):
    """c = {inner, frags, out: [{k, p}], tail, err}"""
    from dulwich.protocol import PktLineParser
    inner, frags = b(c["inner"]), c["frags"]
    want = [b(it["p"]) if it["k"] == "data" else None for it in c["out"]]
    got = []
    ps = PktLineParser(got.append)
    pos, o = 0, ("ok", None)
    for k in frags:
        o = outcome(ps.parse, inner[pos:pos + k])
        pos += k
        if o[0] != "ok":
            break
    rp = {"kind": "parser", "case": c}
    site = f"{P}:PktLineParser.parse"
    desc = f"inner stream {inner!r} fed as fragments {frags}"
    rep.say(f"{desc}: delivered {got}, {o[0]}, tail {outcome(ps.get_tail)}; model: {want}, err={c['err']}, tail {b(c['tail'])!r}")
    if o[0] == "crash":
        rep.v(site, "TotalDecoder", f"-> {okind(o)}", f"{desc}: {o[1]}", rp)
    elif got != want:
        rep.v(site, "RoundTrip", "fragmented stream: wrong packets" if not c["err"] else "malformed stream: wrong packets before the error",
              f"{desc}: delivered {got}, the reference decodes {want}", rp)
    elif c["err"] and o[0] == "ok":
        rep.v(site, "TotalDecoder", "accepts what is not a frame", f"{desc}: no GitProtocolError; the reference refuses the stream after {want}", rp)
    elif not c["err"] and o[0] != "ok":
        rep.v(site, "RoundTrip", f"well-formed stream -> {okind(o)}", f"{desc}: {o}", rp)
    elif not c["err"] and ps.get_tail() != b(c["tail"]):
        rep.v(site, "RoundTrip", "wrong tail", f"{desc}: get_tail() = {ps.get_tail()!r}, expected {b(c['tail'])!r}", rp)
    return 1


def check_pipeline_leaf(rep, c):
    """c = {payloads, bsz, emitted, outer, out}"""
    from dulwich.client import _read_side_band64k_data
    from dulwich.protocol import BufferedPktLineWriter, PktLineParser, Protocol, pkt_line
    payloads, bsz = [b(x) for x in c["payloads"]], c["bsz"]
    rp = {"kind": "pipeline", "case": c}
    chunks = []
    bw = BufferedPktLineWriter(chunks.append, bufsize=bsz)
    o = outcome(lambda: [bw.write(x) for x in payloads] and None or bw.flush())
    site = f"{P}:BufferedPktLineWriter.write"
    desc = f"payloads {payloads} bufsize {bsz}"
    rep.say(f"{desc}: writes {chunks}; model {[b(x) for x in c['emitted']]}")
    if o[0] != "ok":
        rep.v(site, "TotalEncoder", f"-> {okind(o)}", f"{desc}: {o}", rp)
        return 1
    ref = b"".join(pkt_line(x) for x in payloads)
    if b"".join(chunks) != b"".join(b(x) for x in c["emitted"]) or b"".join(chunks) != ref:
        rep.v(site, "RoundTrip", "buffered bytes lost, repeated or reordered",
              f"{desc}: wrote {b''.join(chunks)!r}, the pkt-lines are {ref!r}", rp)
        return 1
    if chunks != [b(x) for x in c["emitted"]]:
        rep.drift(f"BufferedPktLineWriter {desc}: flushes {[len(x) for x in chunks]}, model {[len(b(x)) for x in c['emitted']]}")
    # through the side band and back
    w = []
    pr = Protocol(None, w.append)
    for ch in chunks:
        pr.write_sideband(1, ch)
    pr.write_pkt_line(None)
    wire = b"".join(w)
    try:
        frames = [pl for (_, pl) in split_frames(wire)]
    except ValueError as e:
        rep.v(f"{P}:Protocol.write_sideband", "NoMalformedFrame", "unparseable output (small)", f"{desc}: {e}", rp)
        return 2
    if frames[:-1] != [b(x) for x in c["outer"]] or frames[-1] is not None:
        if b"".join(f[1:] for f in frames[:-1]) != ref or any(f[:1] != b"\x01" for f in frames[:-1]):
            rep.v(f"{P}:Protocol.write_sideband", "RoundTrip", "channel data differs (small)", f"{desc}: outer frames {frames}", rp)
            return 2
        rep.drift(f"write_sideband {desc}: outer frames {frames}, model {[b(x) for x in c['outer']]}")
    got = []
    ps = PktLineParser(got.append)

    def demux():
        for chan, data in _read_side_band64k_data(rprotocol(Wire(wire)).read_pkt_seq()):
            if chan == 1:
                ps.parse(data)
    o = outcome(demux)
    want = [b(it["p"]) for it in c["out"]]
    rep.say(f"demultiplexed and parsed: {got} ({o[0]}); model {want}")
    if o[0] != "ok" or got != want or got != payloads or ps.get_tail() != b"":
        rep.v(f"{P}:PktLineParser.parse", "TotalDecoder" if o[0] == "crash" else "RoundTrip", f"side-band pipeline -> {okind(o) if o[0] != 'ok' else 'wrong packets'}",
              f"{desc}: after writer -> side-band -> demux -> parser: {got} ({o}), expected {payloads}", rp)
    return 3


# --------------------------------------------------------------------------- StreamRdPack
def check_pack_leaf(rep, c):
    """c = {hs, stream, hist: [[t, n, k, d, wpos, tlen, cons]]}"""
    from dulwich.pack import PackStreamReader
    stream, hs = b(c["stream"]), c["hs"]
    pos = [0]
    calls = []

    def read_all(n):
        out = stream[pos[0]:pos[0] + n]
        pos[0] += len(out)
        calls.append(("all", n, len(out)))
        return out
    nxt = [0]

    def read_some(n):
        out = stream[pos[0]:pos[0] + min(n, max(nxt[0], 0))]
        pos[0] += len(out)
        calls.append(("some", n, len(out)))
        return out
    RecHash.instances = []
    psr = PackStreamReader(lambda: RecHash(hs), read_all, read_some)
    h = psr.sha
    rp = {"kind": "pack", "case": c}
    site = "dulwich/pack.py:PackStreamReader"
    last = b""
    n = 0
    for i, (t, size, k, d, wpos, tlen, cons) in enumerate(c["hist"]):
        desc = f"hash_size {hs}, stream of {len(stream)} bytes, operations {[(e[0], e[1], e[2]) for e in c['hist'][:i + 1]]}"
        if t == "push":
            if not hasattr(psr, "_rbuf"):
                rep.drift("PackStreamReader has no _rbuf: push-back behaviours not replayed")
                return n
            buf = BytesIO()            # what read_objects() does with the bytes zlib did not use
            buf.write(last[-size:])
            buf.write(psr._rbuf.read())
            buf.seek(0)
            psr._rbuf = buf
            continue
        nxt[0] = k
        o = outcome(psr.read if t == "read" else psr.recv, size)
        n += 1
        rep.say(f"{t}({size}) -> {o}; callbacks {calls}; hashed {bytes(h.fed)!r} trailer {bytes(psr._trailer)!r}; model result {b(d)!r} offset {wpos} trailer length {tlen}")
        if o[0] != "ok":
            rep.v(f"{site}.{t}", "TotalDecoder", f"-> {okind(o)}", f"{desc}: {o}", rp)
            return n
        last = o[1]
        if o[1] != b(d):
            rep.v(f"{site}.{t}", "RoundTrip", f"{t}: wrong bytes", f"{desc}: returned {o[1]!r}, the stream has {b(d)!r} there", rp)
            return n
        tr = bytes(psr._trailer)
        fed = bytes(h.fed)
        if fed + tr != stream[:pos[0]] or len(tr) != min(hs, pos[0]):
            why = "order" if sorted(fed + tr) == sorted(stream[:pos[0]]) and len(tr) == min(hs, pos[0]) else "split"
            rep.v(f"{site}._read", "TrailerExact", f"hashed prefix / trailer wrong ({why})",
                  f"{desc}: after {pos[0]} bytes off the wire hashed {fed!r} + trailer {tr!r}, expected {stream[:max(pos[0] - hs, 0)]!r} + {stream[max(pos[0] - hs, 0):pos[0]]!r}", rp)
            return n
        if pos[0] != wpos or psr.offset != cons:
            rep.drift(f"PackStreamReader {desc}: wire {pos[0]} offset {psr.offset}, model {wpos} {cons}")
    return n


CHECKS = {"prefix": check_prefix, "enc": check_enc, "sideband": check_sideband, "sbmix": check_sbmix, "frames": check_frames, "caps": check_caps,
          "want": check_want, "rp": check_rp_leaf, "parser": check_parser_leaf, "pipeline": check_pipeline_leaf,
          "pack": check_pack_leaf, "filter": check_filter_leaf}


# --------------------------------------------------------------------------- C git
_GIT = {}


def _git_repo():
    """A small repository made by C git (one incompressible 200 kB blob so that a pack spans several
    maximum-size side-band frames)."""
    if "dir" in _GIT:
        return _GIT["dir"]
    if shutil.which("git") is None:
        _GIT["dir"] = None
        return None
    import random
    home = _GIT["ctx"].tmpdir("git")
    d = os.path.join(home, "src")
    env = git_env(home)
    run = lambda *a, **k: subprocess.run(["git", *a], cwd=k.pop("cwd", d), env=env, check=True, capture_output=True, **k)  # noqa: E731
    os.makedirs(d)
    run("init", "-q", "-b", "main", ".")
    rnd = random.Random(19)
    with open(os.path.join(d, "big.bin"), "wb") as f:
        f.write(rnd.randbytes(200_000))
    with open(os.path.join(d, "a.txt"), "w") as f:
        f.write("hello\n" * 50)
    run("add", ".")
    run("commit", "-q", "-m", "one")
    run("tag", "-a", "v1", "-m", "tag one")
    run("branch", "side")
    _GIT["dir"] = d
    return d


# --------------------------------------------------------------------------- parts
def part_pktline(ctx, rep, jobs):
    dumpdir = jobs.dir
    # ---- prefixes
    for fam in (["hex", "classq", "short"] if ctx.quick else ["hex", "classt", "short"]):
        res = jobs.get(f"PktLine[{fam}]")
        ctx.add_tlc(f"PktLine family prefix-{fam} (reference checked: Theorems)", res)
        n = ncmp = 0
        import re
        rx = re.compile(r'/\\ exp = \[n \|-> (-?\d+), kind \|-> "(\w+)"\]\n/\\ case = <<([0-9, ]*)>>')
        with open(os.path.join(dumpdir, fam + ".dump")) as f:
            text = f.read()
        from dulwich.errors import GitProtocolError
        from dulwich.protocol import _parse_pkt_line_length as plen
        for m in rx.finditer(text):
            nref, kind = int(m.group(1)), m.group(2)
            pre = bytes(int(x) for x in m.group(3).split(",")) if m.group(3).strip() else b""
            n += 1
            # fast path: the length function itself; the slow path re-does it and reports
            try:
                good = plen(pre) == nref
            except GitProtocolError:
                good = nref < 0
            except Exception:  # noqa: BLE001
                good = False
            if fam == "hex":
                frames = (not ctx.quick) or nref <= 1024 or nref >= 65500 or n % 4 == 0
            elif fam == "short":
                frames = False
            else:
                frames = (nref < 0 and (n % (8 if ctx.quick else 2) == 0)) or 0 <= nref <= 4096 or n % 16 == 0
            if not good or frames:
                ncmp += check_prefix(rep, {"prefix": list(pre), "n": nref, "kind": kind, "frames": frames})
            else:
                ncmp += 1
            if n == 4242:
                ctx.sample({"kind": "prefix-" + fam, "prefix": pre.decode("latin-1"), "reference": nref, "frame_kind": kind}, limit=20)
        del text
        if n != res.distinct:
            raise MachineryError(f"prefix-{fam}: {n} cases parsed from the dump, TLC reports {res.distinct}")
        ctx.count(ncmp)
        ctx.validated(n)
        ctx.cov.setdefault("families", {})["prefix-" + fam] = n
        base = {"hex": 1, "classq": 2, "classt": 3, "short": 4}[fam] * 10_000_000
        for i in range(n):
            ctx.nontrivial(base + i)
        ctx.log(f"prefix-{fam}: {n} prefixes, {ncmp} comparisons with the real decoders")
    # ---- the other families
    for fam, key in (("enc", "enc"), ("sideband", "sideband"), ("sbmix", "sbmix"), ("frames", "frames"), ("caps", "caps"), ("want", "want")):
        res = jobs.get(f"PktLine[{fam}]")
        ctx.add_tlc(f"PktLine family {fam} (reference checked: Theorems)", res)
        n = ncmp = 0
        for st in tlc.load_state_dump(os.path.join(dumpdir, fam)):
            case, exp = tlc.tlaval.to_py(st["case"]), tlc.tlaval.to_py(st["exp"])
            if fam == "enc":
                c = {"L": case, **exp}
            elif fam == "sideband":
                c = {**case, **exp}
            elif fam == "sbmix":
                c = {"msgs": [[m["ch"], m["d"]] for m in case], "bytes": exp["bytes"], "cat": exp["cat"]}
            elif fam == "frames":
                c = {"items": [[it["k"], it["p"]] for it in case], "bytes": exp["bytes"]}
            elif fam == "caps":
                c = {**case, **exp}
            else:
                c = {**case, **exp}
            ncmp += CHECKS[key](rep, c)
            n += 1
            if n == 7:
                ctx.sample({"kind": fam, "case": c if fam not in ("caps", "want") else {k: (bytes(v).decode("latin-1") if k in ("line", "head", "ref") else v) for k, v in c.items() if k != "parsed"}}, limit=20)
            ctx.nontrivial((fam, json.dumps(case, sort_keys=True)))
        if n != res.distinct:
            raise MachineryError(f"{fam}: {n} cases parsed, TLC reports {res.distinct}")
        ctx.count(ncmp)
        ctx.validated(n)
        ctx.cov["families"][fam] = n
        ctx.log(f"{fam}: {n} cases, {ncmp} comparisons")


def part_machines(ctx, rep, jobs):
    # ---- the models themselves
    for name in jobs.models:
        ctx.add_tlc(name, jobs.get(name))
    for name, expect in jobs.negatives:
        r = jobs.get(name)
        ctx.add_tlc(name, r, require_ok=False)
        if not (set(expect) & set(r.violated)):
            raise MachineryError(f"negative control {name} did not find {expect}: {r.violated}\n{r.output[-1500:]}")
    # ---- behaviours -> real code
    for name, kind, extra in jobs.gens:
        r = jobs.get(name)
        ctx.add_tlc(name, r)
        ls = leaves(r)
        if not ls:
            raise MachineryError(f"{name}: no behaviours emitted\n{r.output[-1500:]}")
        ncmp = 0
        env = FilterEnv(ctx) if kind == "filter" else None
        for i, leaf in enumerate(ls):
            leaf.pop("leaf", None)
            leaf.update(extra)
            ncmp += CHECKS[kind](rep, leaf, env) if env else CHECKS[kind](rep, leaf)
            if i == len(ls) // 2:
                ctx.sample({"kind": kind, "behaviour": leaf}, limit=20)
            ctx.nontrivial(hash((kind, json.dumps(leaf, sort_keys=True))))
        if env:
            env.stop()
        ctx.count(ncmp)
        ctx.validated(len(ls))
        ctx.cov.setdefault("behaviours", {})[name] = len(ls)
        ctx.log(f"{name}: {len(ls)} behaviours replayed on the real code, {ncmp} operations compared")


class Jobs:
    def __init__(self, ctx, par):
        self.ctx = ctx
        self.ex = ThreadPoolExecutor(par)
        self.f = {}
        self.dir = ctx.tmpdir("tlc")
        self.models, self.negatives, self.gens = [], [], []

    def submit(self, name, spec, cfg, **kw):
        kw.setdefault("workers", 2)
        kw.setdefault("timeout", 1500)
        self.f[name] = self.ex.submit(tlc.run, spec, cfg, **kw)

    def cfg(self, name, constants, invariants):
        return write_cfg(os.path.join(self.dir, name + ".cfg"), constants, invariants)

    def get(self, name):
        return self.f[name].result()


def S(x):
    return f'"{x}"'


def submit_all(ctx, jobs):
    q = ctx.quick
    # PktLine families (initial states = cases; dumped)
    for fam in (["hex", "classq", "short"] if q else ["hex", "classt", "short"]) + ["enc", "sideband", "sbmix", "frames", "caps", "want"]:
        jobs.submit(f"PktLine[{fam}]", "PktLine.tla", f"PktLine_{fam}.cfg", dump_states=os.path.join(jobs.dir, fam),
                    workers=2 if fam in ("classt", "classq", "hex") else 1)
    RDI = ["TotalDecoder", "OpExact", "Conservation", "BufferBound"]
    MXI = ["ParserExact", "WriterNoLoss", "SbWellFormed", "PipelineRoundTrip"]
    PKI = ["TrailerExact", "ByteExact"]

    def model(name, spec, cfg, **kw):
        jobs.models.append(name)
        jobs.submit(name, spec, cfg, **kw)
    model("StreamRd_mc (pkt-lines: <=%d items, all truncations, malformed; every partition)" % (2 if q else 3),
          "StreamRd.tla", "StreamRd_mc.cfg" if q else "StreamRd_mc3.cfg", coverage=not q)
    model("StreamRd_mixed (read/recv/read_pkt_line/eof/unread programs; every partition)", "StreamRd.tla",
          "StreamRd_mixed.cfg" if q else jobs.cfg("rd_mixed5", {"Scen": S("mixed"), "RBuf": 3, "MaxOps": 5, "MaxItems": 2, "MaxLen": 40,
                                                                "Gen": "FALSE", "EmptyReadAsserts": "FALSE"}, RDI), coverage=not q)
    model("StreamRdMux_parser (PktLineParser, every fragmentation)", "StreamRdMux.tla", "StreamRdMux_parser.cfg")
    model("StreamRdMux_pipeline (writer -> side-band -> demux -> parser)", "StreamRdMux.tla", "StreamRdMux_pipeline.cfg")
    model("StreamRdMux_pipeline_reset (intended _buflen reset)", "StreamRdMux.tla", "StreamRdMux_pipeline_reset.cfg")
    model("StreamRdPack_mc (read/recv/push-back, hash size 3)", "StreamRdPack.tla",
          "StreamRdPack_mc.cfg" if q else jobs.cfg("pack_mc8", {"N": 10, "HS": 3, "MaxOps": 8, "Sizes": "{1, 2, 3, 4, 5}", "Gen": "FALSE",
                                                                "HashAfterPop": "TRUE"}, PKI))
    if not q:
        model("StreamRdPack_mc hash size 2", "StreamRdPack.tla",
              jobs.cfg("pack_mc2", {"N": 9, "HS": 2, "MaxOps": 7, "Sizes": "{1, 2, 3, 5}", "Gen": "FALSE", "HashAfterPop": "TRUE"}, PKI))
    # negative controls: the invariants bite
    jobs.negatives.append(("StreamRd_neg (read(0) asserts: the frame 0004)", ["TotalDecoder", "OpExact"]))
    jobs.submit(jobs.negatives[-1][0], "StreamRd.tla", "StreamRd_neg.cfg", workers=1)
    jobs.negatives.append(("StreamRdPack_neg (new data hashed before the old trailer)", ["TrailerExact"]))
    jobs.submit(jobs.negatives[-1][0], "StreamRdPack.tla", "StreamRdPack_neg.cfg", workers=1)
    jobs.negatives.append(("StreamRdFilter_neg (an empty packet ends a list)", ["ConsumerExact", "NeverStarved"]))
    jobs.submit(jobs.negatives[-1][0], "StreamRdFilter.tla", "StreamRdFilter_neg.cfg", workers=1)
    # behaviour trees
    rbuf = 3
    for scen in ("response", "handshake"):
        name = f"StreamRdFilter {scen} (filter-process consumer: flush-pkt vs empty packet)"
        jobs.gens.append((name, "filter", {}))
        jobs.submit(name, "StreamRdFilter.tla", f"StreamRdFilter_{scen}{'_q' if q and scen == 'response' else ''}.cfg", workers=1)

    def gen(name, kind, spec, constants, invs, extra=None, workers=2):
        jobs.gens.append((name, kind, extra or {}))
        jobs.submit(name, spec, jobs.cfg("gen_" + kind + str(len(jobs.gens)), constants, invs + ["EmitLeaf"]), workers=workers)
    gen("StreamRd gen pkts", "rp", "StreamRd.tla",
        {"Scen": S("pkts"), "RBuf": rbuf, "MaxOps": 5, "MaxItems": 3, "MaxLen": 10 if q else 12, "Gen": "TRUE", "EmptyReadAsserts": "FALSE"},
        RDI, {"rbuf": rbuf}, workers=2)
    gen("StreamRd gen mixed", "rp", "StreamRd.tla",
        {"Scen": S("mixed"), "RBuf": rbuf, "MaxOps": 3 if q else 4, "MaxItems": 2, "MaxLen": 9 if q else 11, "Gen": "TRUE", "EmptyReadAsserts": "FALSE"},
        RDI, {"rbuf": rbuf}, workers=2)
    gen("StreamRdMux gen parser", "parser", "StreamRdMux.tla",
        {"Scen": S("parser"), "MaxItems": 2 if q else 3, "MaxLen": 11 if q else 14, "MaxFrag": 40, "BufSizes": "{0}", "SbMax": 3,
         "ResetBufLen": "FALSE", "Gen": "TRUE"}, MXI)
    gen("StreamRdMux gen pipeline", "pipeline", "StreamRdMux.tla",
        {"Scen": S("pipeline"), "MaxItems": 3, "MaxLen": 40, "MaxFrag": 1, "BufSizes": "{1, 4, 5, 8, 9, 13, 20, 100}" if not q else "{4, 8, 13, 100}",
         "SbMax": 65515, "ResetBufLen": "FALSE", "Gen": "TRUE"}, MXI)
    gen("StreamRdPack gen", "pack", "StreamRdPack.tla",
        {"N": 7, "HS": 3, "MaxOps": 4 if q else 5, "Sizes": "{1, 2, 4, 5}", "Gen": "TRUE", "HashAfterPop": "TRUE"}, PKI, workers=2)
    if not q:
        gen("StreamRdPack gen hs2", "pack", "StreamRdPack.tla",
            {"N": 6, "HS": 2, "MaxOps": 5, "Sizes": "{1, 3, 4}", "Gen": "TRUE", "HashAfterPop": "TRUE"}, PKI, workers=2)


# --------------------------------------------------------------------------- entry
def run(ctx):
    _GIT["ctx"] = ctx
    for f in os.listdir(ctx.replay_dir):           # replay files of earlier runs
        if f.endswith(".json"):
            os.unlink(os.path.join(ctx.replay_dir, f))
    rep = Rep(ctx)
    jobs = Jobs(ctx, par=4)
    submit_all(ctx, jobs)
    part_pktline(ctx, rep, jobs)
    part_machines(ctx, rep, jobs)
    from .. import c19_traces
    c19_traces.part_traces(ctx, rep)
    c19_traces.part_report_status(ctx, rep)
    c19_traces.part_git(ctx, rep, _git_repo())
    ctx.cov["rule"] = ("cases = (a) every initial state of the PktLine case families (all 65536 four-hex-digit prefixes, every 4-tuple over the "
                       "hex/non-hex class alphabet, encoder and side-band lengths at the size boundaries, all item sequences <=3, capability/"
                       "ref/want lines over the token alphabet), (b) every leaf of the behaviour trees of StreamRd / StreamRdMux / StreamRdPack "
                       "(stream or program x partition into chunks), (c) recorded executions judged by TLC (payload sequences x random "
                       "partitions, real-size frames, packs made by C git); distinct = distinct (family, input[, partition]); all inputs "
                       "counted contain at least one byte or one operation")
    ctx.assumptions += [
        "scripted _recv stands for a socket: it returns 1..asked bytes, 0 only at end of stream",
        "payload content does not influence framing: sizes >= 65515 are exercised with a fixed byte pattern",
        "capability tokens over {'a','='} plus one token with an interior TAB (non-SP whitespace inside a value), ref names over three samples",
        "C git 2.39.5 as the only third-party peer",
    ]
    return ctx.finish(exhaustive=False)


def replay(ctx, path):
    _GIT["ctx"] = ctx
    obj = json.load(open(path))
    print(f"replay {path}\n  signature: {obj.get('signature')}\n  what: {obj.get('what')}")
    ctx.known = []
    ctx.replay_dir = ctx.tmpdir("replay")          # a replay never overwrites recorded cases
    rep = Rep(ctx, verbose=True)
    kind = obj.get("kind")
    if kind in CHECKS:
        CHECKS[kind](rep, obj["case"])
    else:
        from .. import c19_traces
        c19_traces.replay(ctx, rep, obj)
    print("  -> " + ("VIOLATION reproduced" if ctx.violations else "no violation on this tree"))
    shutil.rmtree(ctx.scratch, ignore_errors=True)
    return 1 if ctx.violations else 0

"""C08 -- ref updates are atomic compare-and-swap; concurrent commits are never lost.

Specs: specs/RefsFiles.tla (files backend at system-call grain, refinement of the atomic ref
map) and specs/RefsLin.tla (linearizability of recorded histories against the sequential
contract + NoLostCommit).  Binding:
  S+T  real DiskRefsContainer / Repo / WorkTree.commit / MemoryRepo.do_commit actors (one private
       container per actor, shared directory) under the deterministic scheduler at system-call
       grain; every schedule with a bounded number of preemptions from every small initial ref
       layout; each history is judged by TLC (RefsLin);
  T    the system-call sequence of every execution is validated against RefsFiles (shape ->
       drift only).
"""
from __future__ import annotations

import json
import os
import shutil

from .. import sched, tlc
from ..core import MachineryError

M = b"refs/heads/m"
HEAD = b"HEAD"


def V(i):
    return (b"%x" % i) * 40 if i > 0 else None


def val_index(b):
    if b is None:
        return 0
    if b == b"0" * 40:
        return 0
    return int(b[:1], 16)


LAYOUTS = ["absent", "loose", "packed", "both"]


def make_layout(root, layout):
    from dulwich.refs import DiskRefsContainer
    os.makedirs(os.path.join(root, "refs", "heads"), exist_ok=True)
    os.makedirs(os.path.join(root, "refs", "tags"), exist_ok=True)
    c = DiskRefsContainer(root)
    c.set_symbolic_ref(HEAD, M)
    c[b"refs/tags/t"] = V(7)
    if layout == "loose":
        c[M] = V(1)
    elif layout == "packed":
        c[M] = V(1)
        c.pack_refs(all=True)
    elif layout == "both":
        c[M] = V(1)
        c.pack_refs(all=True)
        c[M] = V(2)
    cur = {"absent": 0, "loose": 1, "packed": 1, "both": 2}[layout]
    return cur


# op menu: name -> (kind, fn(container, cur) -> (old, new, call))
def op_menu():
    def cas(new, via=M, stale=False, absent=False):
        def mk(c, cur):
            old = V(9) if stale else b"0" * 40 if absent else (V(cur) if cur else b"0" * 40)
            return (val_index(old), new, lambda: c.set_if_equals(via, old, V(new)))
        return ("set_if_equals", mk)

    def add(new):
        return ("add_if_new", lambda c, cur: (0, new, lambda: c.add_if_new(M, V(new))))

    def rm(cond=True):
        def mk(c, cur):
            old = (V(cur) if cur else b"0" * 40) if cond else None
            return (val_index(old) if cond else -1, 0, lambda: c.remove_if_equals(M, old))
        return ("remove_if_equals", mk)

    def setu(new):
        def mk(c, cur):
            def call():
                c[M] = V(new)
                return True
            return (-1, new, call)
        return ("set_if_equals", mk)

    def delu():
        def mk(c, cur):
            def call():
                del c[M]
                return True
            return (-1, 0, call)
        return ("remove_if_equals", mk)

    def read(name=M):
        def mk(c, cur):
            def call():
                try:
                    return val_index(c[name])
                except KeyError:
                    return 0
            return (0, 0, call)
        return ("read", mk)

    def asdict():
        def mk(c, cur):
            return (0, 0, lambda: val_index(c.as_dict().get(M)))
        return ("read", mk)

    def pack():
        def mk(c, cur):
            def call():
                c.pack_refs(all=True)
                return 1
            return (0, 0, call)
        return ("pack_refs", mk)
    return {
        # create-if-absent with the value the packed entry holds in the packed / both layouts
        "cas01": cas(1, absent=True),
        "cas3": cas(3), "cas4": cas(4), "cas3h": cas(3, via=HEAD), "casStale": cas(5, stale=True),
        "add3": add(3), "add4": add(4), "rm": rm(), "rmU": rm(False), "set3": setu(3), "set4": setu(4),
        "del": delu(), "read": read(), "readH": read(HEAD), "asdict": asdict(), "pack": pack(),
    }


MENU = None


def refpath_pred(op, path):
    if path is None:
        return False
    p = path[5:] if path.startswith(".git/") else path
    return p.startswith("refs") or p.startswith("HEAD") or p.startswith("packed-refs") or p == "."


class RefRun:
    """One execution: actors[a] = list of op names executed sequentially by actor a."""

    def __init__(self, ctx, layout, actors):
        global MENU
        if MENU is None:
            MENU = op_menu()
        self.ctx, self.layout, self.actors = ctx, layout, actors
        self.root = ctx.tmpdir("c08")
        self.cur0 = make_layout(self.root, layout)
        from . import c08_model
        self.world = sched.World(self.root, yield_pred=refpath_pred, wrap_files=True,
                                 observe=c08_model.observe_refs(self.root),
                                 yield_ops={"open_excl", "open_r", "open_w", "replace", "rename", "unlink", "stat",
                                            "lstat", "listdir", "mkdir", "rmdir", "fclose", "fwrite", "fflush"})
        self.ops = []

    def actor(self, a, names):
        from dulwich.refs import DiskRefsContainer

        def body():
            c = DiskRefsContainer(self.root)
            for nm in names:
                kind, mk = MENU[nm]
                old, new, call = mk(c, self.cur0)
                rec = {"k": kind, "n": 1, "old": old, "new": new, "res": 0, "exc": False, "a": a, "name": nm}
                self.world.note("call")
                rec["c"] = self.world.seq
                try:
                    r = call()
                    rec["res"] = int(r) if r is not None else 1
                except BaseException as e:   # legitimate loser (FileLocked, FileNotFoundError ...)
                    rec["exc"] = True
                    rec["excname"] = type(e).__name__
                    e.__traceback__ = None
                self.world.note("retop")
                rec["r"] = self.world.seq
                self.ops.append(rec)
        return body

    def run(self, prefix=(), rng=None, p_switch=0.0, max_switch=None):
        from dulwich.refs import DiskRefsContainer
        s = sched.Scheduler(self.world, {a: self.actor(a, names) for a, names in enumerate(self.actors)},
                            prefix, rng=rng, p_switch=p_switch, max_switch=max_switch)
        with sched.Interposer(self.world):
            s.run()
        self.sched = s
        c = DiskRefsContainer(self.root)
        try:
            self.final = val_index(c[M])
        except KeyError:
            self.final = 0
        self.leftover_locks = [f for dp, dn, fn in os.walk(self.root) for f in fn if f.endswith(".lock")]
        self.events = self.world.events
        shutil.rmtree(self.root, ignore_errors=True)
        return s

    def trace(self, tid):
        ops = sorted(self.ops, key=lambda o: o["c"])
        return {"tid": tid, "init": [self.cur0], "final": [self.final], "hinit": 1, "hfinal": 1,
                "ops": [dict({k: o[k] for k in ("k", "n", "old", "new", "res", "exc", "c", "r")}, via=0) for o in ops],
                "commits": [], "tip": 0}


# --------------------------------------------------------------------------- symbolic ref HEAD re-pointed concurrently
N = b"refs/heads/n"
SYM_LAYOUTS = ["loose", "packed", "mpacked"]


class SymRun:
    """Two branches m (name 1) and n (name 2) and the symbolic ref HEAD -> m in a real repository.
    Operations are issued on HEAD (followed), on the branches directly, or re-point HEAD.
    Values are indices of real root commits k1..k5; commits made during the run get indices >= 10."""

    def __init__(self, ctx, layout, actors):
        from dulwich.objects import Commit, Tree
        from dulwich.repo import Repo
        self.ctx, self.layout, self.actors = ctx, layout, actors
        self.root = ctx.tmpdir("c08s")
        r = Repo.init(self.root)
        t = Tree()
        r.object_store.add_object(t)
        self.tree_id = t.id
        self.k = {}
        for i in range(1, 6):
            c = Commit()
            c.tree = t.id
            c.parents = []
            c.author = c.committer = b"a <a@b>"
            c.author_time = c.commit_time = i
            c.author_timezone = c.commit_timezone = 0
            c.message = b"k%d" % i
            r.object_store.add_object(c)
            self.k[i] = c.id
        self.idx = {v: i for i, v in self.k.items()}
        r.refs[M] = self.k[1]
        r.refs[N] = self.k[2]
        r.refs.set_symbolic_ref(HEAD, M)
        if layout == "packed":
            r.refs.pack_refs(all=True)
        elif layout == "mpacked":
            r.refs.pack_refs(all=True)
            r.refs[N] = self.k[2]
            # n loose again (same value): only m lives in packed-refs alone
            with open(os.path.join(self.root, ".git", "refs", "heads", "n"), "wb") as f:
                f.write(self.k[2] + b"\n")
        r.close()
        self.world = sched.World(self.root, yield_pred=refpath_pred, wrap_files=True,
                                 yield_ops={"open_excl", "open_r", "open_w", "replace", "rename", "unlink", "stat",
                                            "lstat", "listdir", "mkdir", "rmdir", "fclose", "fwrite", "fflush"})
        self.ops = []

    def vi(self, sha):
        if sha is None or sha == b"0" * 40:
            return 0
        if sha not in self.idx:
            self.idx[sha] = 10 + len(self.idx)
        return self.idx[sha]

    def menu(self, r):
        c, k, vi = r.refs, self.k, self.vi
        NAMEIDX = {M: 1, N: 2}

        def rd(name):
            def call():
                try:
                    return vi(c[name])
                except KeyError:
                    return 0
            return call

        def link():
            v = c.read_ref(HEAD)
            return NAMEIDX.get(v[len(b"ref: "):].strip(), 9) if v and v.startswith(b"ref: ") else 0

        def setu(name, i):
            def call():
                c[name] = k[i]
                return 1
            return call

        def commit():
            sha = r.get_worktree().commit(message=b"by actor", committer=b"a <a@b>", author=b"a <a@b>", commit_timestamp=50,
                                          commit_timezone=0, author_timestamp=50, author_timezone=0, tree=self.tree_id)
            ps = r.object_store[sha].parents
            return ("commit", vi(ps[0]) if ps else 0, vi(sha))
        # name -> (kind, via, n, old, new, call)
        return {
            "casH13": ("set_if_equals", 1, 0, 1, 3, lambda: c.set_if_equals(HEAD, k[1], k[3])),
            "casH23": ("set_if_equals", 1, 0, 2, 3, lambda: c.set_if_equals(HEAD, k[2], k[3])),
            "casH34": ("set_if_equals", 1, 0, 3, 4, lambda: c.set_if_equals(HEAD, k[3], k[4])),
            "setH4": ("set_if_equals", 1, 0, -1, 4, setu(HEAD, 4)),
            "readH": ("read", 1, 0, 0, 0, rd(HEAD)),
            "link": ("read_link", 0, 1, 0, 0, link),
            "symN": ("set_symref", 0, 1, 0, 2, lambda: (c.set_symbolic_ref(HEAD, N), 1)[1]),
            "symM": ("set_symref", 0, 1, 0, 1, lambda: (c.set_symbolic_ref(HEAD, M), 1)[1]),
            "setM3": ("set_if_equals", 0, 1, -1, 3, setu(M, 3)),
            "setM5": ("set_if_equals", 0, 1, -1, 5, setu(M, 5)),
            "casM15": ("set_if_equals", 0, 1, 1, 5, lambda: c.set_if_equals(M, k[1], k[5])),
            "setN5": ("set_if_equals", 0, 2, -1, 5, setu(N, 5)),
            "casN25": ("set_if_equals", 0, 2, 2, 5, lambda: c.set_if_equals(N, k[2], k[5])),
            "rmN": ("remove_if_equals", 0, 2, 2, 0, lambda: c.remove_if_equals(N, k[2])),
            "rmM": ("remove_if_equals", 0, 1, 1, 0, lambda: c.remove_if_equals(M, k[1])),
            "readM": ("read", 0, 1, 0, 0, rd(M)),
            "readN": ("read", 0, 2, 0, 0, rd(N)),
            "commit": ("set_if_equals", 1, 0, 0, 0, commit),
            # the command-level conditional update / delete (dulwich update-ref): a refusal is a ValueError
            "pdelM1": ("remove_if_equals", 0, 1, 1, 0, lambda: self._porc(r, M, None, k[1])),
            "pupdM15": ("set_if_equals", 0, 1, 1, 5, lambda: self._porc(r, M, k[5], k[1])),
            # the same through the command line (dulwich update-ref [-d] <ref> [<new>] [<old>]), run in-process
            "cliDelM1": ("remove_if_equals", 0, 1, 1, 0, lambda: self._cli(["-d", M.decode(), k[1].decode()])),
            "cliUpdM15": ("set_if_equals", 0, 1, 1, 5, lambda: self._cli([M.decode(), k[5].decode(), k[1].decode()])),
            # reset --soft: the branch HEAD points at is moved unconditionally (or the command fails)
            "resetH3": ("set_if_equals", 1, 0, -1, 3, lambda: (__import__("dulwich.porcelain").porcelain.reset(r, "soft", k[3]), 1)[1]),
        }

    def _cli(self, argv):
        from dulwich.cli import cmd_update_ref
        cwd = os.getcwd()
        os.chdir(self.root)            # the command works on "."; every other actor uses absolute paths
        try:
            rc = cmd_update_ref().run(argv)
            return 1 if not rc else 0
        except (ValueError, SystemExit):
            return 0
        finally:
            os.chdir(cwd)

    @staticmethod
    def _porc(r, name, new, old):
        from dulwich import porcelain
        try:
            porcelain.update_ref(r, name, new, old_value=old)
            return 1
        except ValueError:
            return 0

    def actor(self, a, names):
        def body():
            from dulwich.repo import Repo
            r = Repo(self.root)
            menu = self.menu(r)
            for nm in names:
                kind, via, n, old, new, call = menu[nm]
                rec = {"k": kind, "via": via, "n": n if n else 1, "old": old, "new": new, "res": 0, "exc": False, "a": a, "name": nm}
                self.world.note("call")
                rec["c"] = self.world.seq
                try:
                    res = call()
                    if isinstance(res, tuple):          # a commit: parent and id are only known afterwards
                        rec["old"], rec["new"], res = res[1], res[2], 1
                    rec["res"] = int(res) if res is not None else 1
                except BaseException as e:
                    rec["exc"] = True
                    rec["excname"] = type(e).__name__
                    e.__traceback__ = None
                self.world.note("retop")
                rec["r"] = self.world.seq
                self.ops.append(rec)
            r.close()
        return body

    def run(self, prefix=(), rng=None, p_switch=0.0, max_switch=None):
        from dulwich.refs import DiskRefsContainer
        s = sched.Scheduler(self.world, {a: self.actor(a, names) for a, names in enumerate(self.actors)},
                            prefix, rng=rng, p_switch=p_switch, max_switch=max_switch)
        with sched.Interposer(self.world):
            s.run()
        self.sched = s
        c = DiskRefsContainer(os.path.join(self.root, ".git"))
        fin = []
        for name in (M, N):
            try:
                fin.append(self.vi(c[name]))
            except KeyError:
                fin.append(0)
        self.final = fin
        v = c.read_ref(HEAD)
        self.hfinal = {M: 1, N: 2}.get(v[len(b"ref: "):].strip(), 9) if v and v.startswith(b"ref: ") else 0
        self.leftover_locks = [f for dp, dn, fn in os.walk(self.root) for f in fn if f.endswith(".lock")]
        shutil.rmtree(self.root, ignore_errors=True)
        return s

    def trace(self, tid):
        ops = sorted(self.ops, key=lambda o: o["c"])
        return {"tid": tid, "init": [1, 2], "final": self.final, "hinit": 1, "hfinal": self.hfinal,
                "ops": [{k: o[k] for k in ("k", "n", "via", "old", "new", "res", "exc", "c", "r")} for o in ops],
                "commits": [], "tip": 0}


def sym_combos(ctx):
    two = [("casH13", "symN"), ("setH4", "symN"), ("commit", "symN"), ("readH", "symN"), ("casH23", "symN"),
           ("casH13", "casM15"), ("commit", "setM5"), ("commit", "commit"), ("link", "symN"), ("casH13", "rmM"),
           ("setH4", "rmM"), ("pdelM1", "setM5"), ("pdelM1", "casM15"), ("pupdM15", "setM3"), ("pdelM1", "pupdM15"), ("resetH3", "casM15"), ("resetH3", "commit"),
           ("cliDelM1", "setM5"), ("cliDelM1", "casM15"), ("cliUpdM15", "setM3")]
    seq2 = [(("readH",), ("symN", "setM3")), (("readH", "readH"), ("symN", "setN5")), (("casH34",), ("symN", "setM3")),
            (("commit",), ("symN", "setM5")), (("link", "readH"), ("symN", "symM")), (("readH",), ("setM3", "symN"))]
    three = [("casH34", "symN", "setM3"), ("commit", "symN", "casN25"), ("readH", "symN", "setM3"), ("casH13", "symN", "symM"),
             ("setH4", "symN", "rmN")]
    out = []
    for layout in SYM_LAYOUTS:
        for c in two:
            out.append((layout, [[c[0]], [c[1]]], ctx.pick(2, 3), ctx.pick(60, 1500)))
        for c in seq2:
            out.append((layout, [list(c[0]), list(c[1])], ctx.pick(2, 3), ctx.pick(80, 1500)))
        for c in three:
            out.append((layout, [[x] for x in c], ctx.pick(1, 2), ctx.pick(60, 1500)))
    return out


# --------------------------------------------------------------------------- real processes (true parallelism)
def V2(i):
    return (b"%02x" % i) * 20 if i > 0 else None


def v2_index(b):
    if b is None or b == b"0" * 40:
        return 0
    return int(b[:2], 16)


def _mp_ref_job(a, barrier, root, script, seed, init_val):
    """worker process: a script of ref operations on refs/heads/m of the shared directory `root`"""
    import random
    import time
    from dulwich.refs import DiskRefsContainer
    from .. import mp
    rng = random.Random(seed)
    c = DiskRefsContainer(root)
    Z = b"0" * 40
    last = init_val
    recs = []
    barrier.wait(60)
    for (op, newv) in script:
        mp.spin(rng)
        if op == "rm" and last == 0:
            op = "read"
        rec = {"k": "", "n": 1, "via": 0, "old": 0, "new": 0, "res": 0, "exc": False, "a": a, "name": op}
        if op == "cas":
            old = last
            rec.update(k="set_if_equals", old=old, new=newv)
            call = lambda: c.set_if_equals(M, V2(old) or Z, V2(newv))
        elif op == "add":
            rec.update(k="add_if_new", new=newv)
            call = lambda: c.add_if_new(M, V2(newv))
        elif op == "rm":
            old = last
            rec.update(k="remove_if_equals", old=old)
            call = lambda: c.remove_if_equals(M, V2(old))
        elif op == "set":
            rec.update(k="set_if_equals", old=-1, new=newv)

            def call():
                c[M] = V2(newv)
                return True
        elif op == "del":
            rec.update(k="remove_if_equals", old=-1)

            def call():
                del c[M]
                return True
        elif op == "read":
            rec.update(k="read")

            def call():
                try:
                    return v2_index(c[M])
                except KeyError:
                    return 0
        elif op == "pack":
            rec.update(k="pack_refs")

            def call():
                c.pack_refs(all=True)
                return 1
        else:
            raise ValueError(op)
        rec["c"] = time.monotonic_ns()
        try:
            r = call()
            rec["res"] = int(r) if r is not None else 1
        except Exception as e:      # a legitimate loser (FileLocked ...): must have had no effect
            rec["exc"] = True
            rec["excname"] = type(e).__name__
        rec["r"] = time.monotonic_ns()
        if not rec["exc"]:
            if op == "read":
                last = rec["res"]
            elif op in ("cas", "add", "set") and rec["res"]:
                last = newv
            elif op in ("rm", "del") and rec["res"]:
                last = 0
        recs.append(rec)
    return recs


def _mp_commit_job(a, barrier, root, k, seed, tree_id):
    """worker process: k commits on the current branch of the shared repository"""
    import random
    import time
    from dulwich.repo import Repo
    from .. import mp
    rng = random.Random(seed)
    r = Repo(root)
    out = []
    barrier.wait(60)
    try:
        for i in range(k):
            mp.spin(rng)
            rec = {"a": a, "ok": False, "sha": None, "parent": None, "excname": None}
            rec["c"] = time.monotonic_ns()
            try:
                sha = r.get_worktree().commit(message=b"by %d/%d" % (a, i), committer=b"a <a@b>", author=b"a <a@b>",
                                              commit_timestamp=100 + i, commit_timezone=0, author_timestamp=100 + i,
                                              author_timezone=0, tree=tree_id)
                ps = r.object_store[sha].parents
                rec.update(ok=True, sha=sha, parent=ps[0] if ps else None)
            except Exception as e:
                rec["excname"] = type(e).__name__
            rec["r"] = time.monotonic_ns()
            out.append(rec)
    finally:
        r.close()
    return out


def mp_part(ctx, traces, meta, tid):
    """2-3 real processes hammer one ref / one branch; every round's history goes to RefsLin."""
    from .. import mp
    import random
    nproc = 3
    pool = mp.Pool(nproc, {"ref": _mp_ref_job, "commit": _mp_commit_job})
    rng = random.Random(ctx.seed * 7919 + 13)
    nref = ncom = 0
    overlap = 0
    try:
        menu = ["cas", "cas", "cas", "add", "rm", "set", "del", "read", "read", "pack"]
        for rd in range(ctx.pick(160, 2500)):
            layout = LAYOUTS[rd % len(LAYOUTS)]
            root = ctx.tmpdir("c08p")
            cur0 = make_layout(root, layout)
            # make_layout writes one-digit values; rewrite the starting value in the two-digit alphabet
            from dulwich.refs import DiskRefsContainer
            c0 = DiskRefsContainer(root)
            if cur0:
                c0[M] = V2(cur0)
                if layout in ("packed", "both"):
                    c0.pack_refs(all=True)
                if layout == "both":
                    cur0 = 9
                    c0[M] = V2(cur0)
            nact = 2 if rd % 3 == 0 else 3
            nxt = 10
            args = []
            for a in range(nproc):
                script = []
                for _ in range(ctx.pick(4, 5) if a < nact else 0):
                    op = rng.choice(menu)
                    nxt += 1
                    script.append((op, nxt))
                args.append((root, script, rng.getrandbits(30), cur0))
            res = pool.round("ref", args)
            ops = [r for rs in res for r in rs]
            mp.rank_times(ops)
            ops.sort(key=lambda o: o["c"])
            cf = DiskRefsContainer(root)
            try:
                final = v2_index(cf[M])
            except KeyError:
                final = 0
            locks = [f for dp, dn, fn in os.walk(root) for f in fn if f.endswith(".lock")]
            shutil.rmtree(root, ignore_errors=True)
            tid += 1
            nref += 1
            t = {"tid": tid, "init": [cur0], "final": [final], "hinit": 1, "hfinal": 1,
                 "ops": [{k: o[k] for k in ("k", "n", "via", "old", "new", "res", "exc", "c", "r")} for o in ops],
                 "commits": [], "tip": 0}
            traces.append(t)
            names = "+".join(sorted({o["name"] for o in ops}))
            meta[tid] = {"sig": f"dulwich/refs.py:DiskRefsContainer|NotLinearizable|processes={nact} init={layout} ops={names}",
                         "desc": f"{nact} real processes, init={layout}({cur0}): "
                                 f"{[(o['a'], o['name'], o['old'], o['new'], o['res'], o.get('excname'), o['c'], o['r']) for o in ops]} final={final}",
                         "processes": nact, "mp_layout": layout}
            ctx.count()
            if any(o1["a"] != o2["a"] and o1["c"] < o2["r"] and o2["c"] < o1["r"] for i, o1 in enumerate(ops) for o2 in ops[i + 1:]):
                overlap += 1
                ctx.nontrivial(("mpref", rd))
            if locks:
                ctx.violation(f"dulwich/refs.py:DiskRefsContainer|LockLeftBehind|processes={nact} init={layout}",
                              f"lock files left after all processes returned: {locks}", {"meta": meta[tid], "trace": t})
        # commits on one branch
        from dulwich.objects import Tree
        from dulwich.repo import Repo
        for rd in range(ctx.pick(40, 500)):
            root = ctx.tmpdir("c08pc")
            r = Repo.init(root)
            tr = Tree()
            r.object_store.add_object(tr)
            c0 = r.get_worktree().commit(message=b"c0", committer=b"a <a@b>", author=b"a <a@b>", commit_timestamp=1, commit_timezone=0,
                                         author_timestamp=1, author_timezone=0, tree=tr.id)
            if rd % 2:
                r.refs.pack_refs(all=True)
            r.close()
            res = pool.round("commit", [(root, 3, rng.getrandbits(30), tr.id) for _ in range(nproc)])
            recs = [x for rs in res for x in rs]
            mp.rank_times(recs)
            recs.sort(key=lambda o: o["c"])
            idx = {c0: 1}

            def cid(sha):
                if sha not in idx:
                    idx[sha] = len(idx) + 1
                return idx[sha]
            r = Repo(root)
            tip = r.refs[b"HEAD"]
            seen, todo = set(), [tip]
            while todo:
                x = todo.pop()
                if x not in seen:
                    seen.add(x)
                    todo += r.object_store[x].parents
            commits = [{"id": 1, "parent": 0, "ok": True}]
            # the ancestry is projected from the real objects: every commit in the final history, plus the reported ones
            for x in seen:
                if x != c0:
                    ps = r.object_store[x].parents
                    commits.append({"id": cid(x), "parent": cid(ps[0]) if ps else 0, "ok": False})
            ops = []
            for o in recs:
                if o["ok"]:
                    i_ = cid(o["sha"])
                    ent = next((c for c in commits if c["id"] == i_), None)
                    if ent is None:
                        commits.append({"id": i_, "parent": cid(o["parent"]) if o["parent"] else 0, "ok": True})
                    else:
                        ent["ok"] = True
                    ops.append({"k": "set_if_equals", "n": 1, "via": 0, "old": cid(o["parent"]) if o["parent"] else 0, "new": i_, "res": 1,
                                "exc": False, "c": o["c"], "r": o["r"]})
                else:
                    ops.append({"k": "set_if_equals", "n": 1, "via": 0, "old": 0, "new": 0, "res": 0, "exc": True, "c": o["c"], "r": o["r"]})
            r.close()
            shutil.rmtree(root, ignore_errors=True)
            tid += 1
            ncom += 1
            t = {"tid": tid, "init": [1], "final": [cid(tip)], "hinit": 1, "hfinal": 1, "ops": ops, "commits": commits, "tip": cid(tip)}
            traces.append(t)
            nok = sum(1 for o in recs if o["ok"])
            meta[tid] = {"sig": f"dulwich/worktree.py:WorkTree.commit|LostCommit|processes={nproc} packed={bool(rd % 2)}",
                         "desc": f"{nproc} real processes x 3 commits: {nok} reported successful, {len(seen) - 1} in the final history; "
                                 f"losers {[o['excname'] for o in recs if not o['ok']]}",
                         "processes": nproc}
            ctx.count()
            ctx.nontrivial(("mpcommit", rd))
    finally:
        pool.close()
    ctx.cov["real_process_rounds"] = {"ref_rounds": nref, "ref_rounds_with_overlapping_operations": overlap, "commit_rounds": ncom}
    ctx.log(f"real processes: {nref} ref rounds ({overlap} with overlapping operations), {ncom} commit rounds")
    if nref and overlap < nref // 10:
        ctx.assumptions.append(f"real-process rounds: only {overlap}/{nref} rounds had overlapping operations")
    return tid


# --------------------------------------------------------------------------- commit scenario
class CommitRun:
    """n actors commit on the same branch at once (WorkTree.commit on a disk repo, or
    MemoryRepo.do_commit with scheduling points at the in-memory container's methods)."""

    def __init__(self, ctx, kind, n, packed=False):
        self.ctx, self.kind, self.n = ctx, kind, n
        self.root = ctx.tmpdir("c08c")
        self.commits = []
        self.ops = []
        self.ids = {}
        if kind in ("worktree", "porcelain", "amend", "merge", "merge-noff", "pull", "rebase"):
            from dulwich.repo import Repo
            r = Repo.init(self.root)
            self.tree = r.object_store.add_object  # placeholder
            from dulwich.objects import Tree
            t = Tree()
            r.object_store.add_object(t)
            self.tree_id = t.id
            c0 = r.get_worktree().commit(message=b"c0", committer=b"a <a@b>", author=b"a <a@b>", commit_timestamp=1,
                                         commit_timezone=0, author_timestamp=1, author_timezone=0, tree=t.id)
            if kind == "rebase":
                # refs/heads/up is one commit ahead of c0, the current branch has a commit m1 of its own on c0:
                # rebasing the branch onto up rewrites m1 as m1' (parent up).  m1 plays the part of "c0" below.
                from dulwich.objects import Commit

                def mk(parent, msg, ts):
                    c_ = Commit()
                    c_.tree = t.id
                    c_.parents = [parent]
                    c_.author = c_.committer = b"a <a@b>"
                    c_.author_time = c_.commit_time = ts
                    c_.author_timezone = c_.commit_timezone = 0
                    c_.message = msg
                    r.object_store.add_object(c_)
                    return c_.id
                upc = mk(c0, b"upstream", 5)
                r.refs[b"refs/heads/up"] = upc
                m1 = mk(c0, b"mine", 6)
                r.refs[r.refs.follow(b"HEAD")[0][-1]] = m1
                c0 = m1
            if kind == "pull":
                # an upstream repository (outside the interposed directory) one commit ahead of c0: pulling it is a
                # fast-forward of the current branch
                import tempfile
                from dulwich.objects import Commit
                self.up = tempfile.mkdtemp(prefix="c08up-", dir=ctx.scratch)
                up = Repo.init(self.up)
                up.object_store.add_object(t)
                up.object_store.add_object(r.object_store[c0])
                uc = Commit()
                uc.tree = t.id
                uc.parents = [c0]
                uc.author = uc.committer = b"a <a@b>"
                uc.author_time = uc.commit_time = 5
                uc.author_timezone = uc.commit_timezone = 0
                uc.message = b"upstream"
                up.object_store.add_object(uc)
                branch = r.refs.follow(b"HEAD")[0][-1]
                up.refs[branch] = uc.id
                up.refs.set_symbolic_ref(b"HEAD", branch)
                up.close()
                self.side = uc.id
                self.branch = branch
            if kind in ("merge", "merge-noff"):
                # a side branch one commit ahead of c0: merging it into the current branch is a fast-forward
                # (or, with no_ff / after another commit, a merge commit)
                from dulwich.objects import Commit
                sc = Commit()
                sc.tree = t.id
                sc.parents = [c0]
                sc.author = sc.committer = b"a <a@b>"
                sc.author_time = sc.commit_time = 5
                sc.author_timezone = sc.commit_timezone = 0
                sc.message = b"side"
                r.object_store.add_object(sc)
                r.refs[b"refs/heads/side"] = sc.id
                self.side = sc.id
            if packed:
                r.refs.pack_refs(all=True)
            r.close()
            self.c0 = c0
            self.world = sched.World(self.root, yield_pred=refpath_pred,
                                     yield_ops={"open_excl", "open_r", "replace", "unlink", "stat", "fclose", "fwrite"})
        else:
            from dulwich.objects import Tree
            from dulwich.repo import MemoryRepo
            self.mem = MemoryRepo()
            t = Tree()
            self.mem.object_store.add_object(t)
            self.tree_id = t.id
            self.c0 = self.mem.do_commit(message=b"c0", committer=b"a <a@b>", author=b"a <a@b>", commit_timestamp=1,
                                         commit_timezone=0, author_timestamp=1, author_timezone=0, tree=t.id)
            self.world = sched.World(self.root)
        self.idx = {self.c0: 1}

    def cid(self, sha):
        if sha not in self.idx:
            self.idx[sha] = len(self.idx) + 1
        return self.idx[sha]

    def actor(self, a):
        def body():
            if self.kind in ("worktree", "porcelain", "amend", "merge", "merge-noff", "pull", "rebase"):
                from dulwich.repo import Repo
                r = Repo(self.root)
                commit = lambda: r.get_worktree().commit(
                    message=b"by %d" % a, committer=b"a <a@b>", author=b"a <a@b>", commit_timestamp=10 + a,
                    commit_timezone=0, author_timestamp=10 + a, author_timezone=0, tree=self.tree_id)
                if self.kind == "porcelain":
                    # the command-level entry point: the tree comes from the (empty) index
                    from dulwich import porcelain
                    commit = lambda: porcelain.commit(
                        r, message=b"by %d" % a, committer=b"a <a@b>", author=b"a <a@b>", commit_timestamp=10 + a,
                        commit_timezone=0, author_timestamp=10 + a, author_timezone=0, sign=False)
                if self.kind == "amend":
                    # actor 0 amends the tip (message taken from the commit it replaces), the others commit on top
                    from dulwich import porcelain
                    if a == 0:
                        commit = lambda: porcelain.commit(
                            r, amend=True, committer=b"a <a@b>", author=b"a <a@b>", commit_timestamp=20,
                            commit_timezone=0, author_timestamp=20, author_timezone=0, sign=False)
                    else:
                        commit = lambda: porcelain.commit(
                            r, message=b"by %d" % a, committer=b"a <a@b>", author=b"a <a@b>", commit_timestamp=10 + a,
                            commit_timezone=0, author_timestamp=10 + a, author_timezone=0, sign=False)
                if self.kind == "rebase" and a == 0:
                    from dulwich import porcelain

                    def commit():
                        new = porcelain.rebase(r, b"refs/heads/up")
                        self.rebased_n = len(new)
                        return new[-1]
                elif self.kind == "rebase":
                    from dulwich import porcelain
                    commit = lambda: porcelain.commit(
                        r, message=b"by %d" % a, committer=b"a <a@b>", author=b"a <a@b>", commit_timestamp=10 + a,
                        commit_timezone=0, author_timestamp=10 + a, author_timezone=0, sign=False)
                elif self.kind == "pull" and a == 0:
                    from dulwich import porcelain
                    import io

                    def commit():
                        porcelain.pull(r, self.up, refspecs=[self.branch], outstream=io.BytesIO(), errstream=io.BytesIO())
                        return self.side                  # a fast-forward to the upstream commit
                elif self.kind == "pull":
                    from dulwich import porcelain
                    commit = lambda: porcelain.commit(
                        r, message=b"by %d" % a, committer=b"a <a@b>", author=b"a <a@b>", commit_timestamp=10 + a,
                        commit_timezone=0, author_timestamp=10 + a, author_timezone=0, sign=False)
                elif self.kind in ("merge", "merge-noff") and a == 0:
                    from dulwich import porcelain

                    def commit(noff=(self.kind == "merge-noff")):
                        mid, conflicts = porcelain.merge(r, b"refs/heads/side", no_ff=noff, message=b"merge side",
                                                         author=b"a <a@b>", committer=b"a <a@b>")
                        if conflicts:
                            raise RuntimeError("unexpected conflicts")
                        return mid if mid is not None else self.side      # fast-forward: the branch is moved to side
                elif self.kind in ("merge", "merge-noff"):
                    from dulwich import porcelain
                    commit = lambda: porcelain.commit(
                        r, message=b"by %d" % a, committer=b"a <a@b>", author=b"a <a@b>", commit_timestamp=10 + a,
                        commit_timezone=0, author_timestamp=10 + a, author_timezone=0, sign=False)
                store = r.object_store
            else:
                r = self.mem
                commit = lambda: r.do_commit(
                    message=b"by %d" % a, committer=b"a <a@b>", author=b"a <a@b>", commit_timestamp=10 + a,
                    commit_timezone=0, author_timestamp=10 + a, author_timezone=0, tree=self.tree_id)
                store = r.object_store
            rec = {"k": "set_if_equals", "n": 1, "old": 0, "new": 0, "res": 0, "exc": False, "a": a, "name": "commit"}
            self.world.note("call")
            rec["c"] = self.world.seq
            try:
                sha = commit()
                parents = store[sha].parents
                rec["new"] = self.cid(sha)
                rec["old"] = self.cid(parents[0]) if parents else 0
                rec["res"] = 1
                self.commits.append({"id": rec["new"], "parent": rec["old"], "ok": True, "msg": store[sha].message})
                for extra in parents[1:]:
                    # a merge commit: one entry per parent (RefsLin's ancestry is the union over entries of an id)
                    self.commits.append({"id": rec["new"], "parent": self.cid(extra), "ok": True, "msg": b""})
                if sha == getattr(self, "side", None):
                    # fast-forward: the swap is from c0 (the side commit's parent), and side itself is no new commit
                    self.commits[-1]["ok"] = False
                if self.kind == "amend" and a == 0:
                    # the commit it replaced is the one whose message it carries; replacing it is the point of amend
                    self.amended_msg = store[sha].message
            except BaseException as e:
                rec["exc"] = True
                rec["excname"] = type(e).__name__
                e.__traceback__ = None
            self.world.note("retop")
            rec["r"] = self.world.seq
            self.ops.append(rec)
            if self.kind in ("worktree", "porcelain", "amend", "merge", "merge-noff", "pull", "rebase"):
                r.close()
        return body

    def run(self, prefix=()):
        patched = []
        if self.kind == "memory":
            # scheduling points at the public methods of the in-memory container
            from dulwich.refs import DictRefsContainer
            w = self.world
            for name in ("read_loose_ref", "set_if_equals", "add_if_new"):
                orig = getattr(DictRefsContainer, name)

                def wrapper(self_, *a, _orig=orig, _name=name, **kw):
                    return w.call("api", ".", lambda: _orig(self_, *a, **kw), extra={"api": _name})
                patched.append((name, orig))
                setattr(DictRefsContainer, name, wrapper)
        try:
            s = sched.Scheduler(self.world, {a: self.actor(a) for a in range(self.n)}, prefix)
            with sched.Interposer(self.world):
                s.run()
        finally:
            if patched:
                from dulwich.refs import DictRefsContainer
                for name, orig in patched:
                    setattr(DictRefsContainer, name, orig)
        self.sched = s
        if self.kind in ("worktree", "porcelain", "amend", "merge", "merge-noff", "pull", "rebase"):
            from dulwich.repo import Repo
            r = Repo(self.root)
            tip = r.refs[b"HEAD"]
            # ancestry projected from the real commit objects
            seen, todo = set(), [tip]
            while todo:
                x = todo.pop()
                if x in seen:
                    continue
                seen.add(x)
                todo += r.object_store[x].parents
            r.close()
        else:
            tip = self.mem.refs[b"HEAD"]
            seen, todo = set(), [tip]
            while todo:
                x = todo.pop()
                if x in seen:
                    continue
                seen.add(x)
                todo += self.mem.object_store[x].parents
        self.tip = self.cid(tip)
        self.events = self.world.events
        shutil.rmtree(self.root, ignore_errors=True)
        return s

    def trace(self, tid):
        ops = sorted(self.ops, key=lambda o: o["c"])
        commits = [{"id": 1, "parent": 0, "ok": True, "msg": b"c0"}] + self.commits
        am = getattr(self, "amended_msg", None)
        if am is not None:
            for o in ops:
                if o["a"] == 0 and not o["exc"]:
                    # the amend is a swap from the commit it replaced to the new one
                    rep = next((c for c in commits if c.get("msg") == am and c["id"] != o["new"]), None)
                    o["old"] = rep["id"] if rep else 0
                    if rep:
                        rep["ok"] = False       # legitimately dropped from the history
        if self.kind == "rebase":
            # the rebase swaps the branch from the head it started from (m1 = 1 when it rewrote one commit, the other
            # actor's commit when it rewrote two) to the last rewritten commit; rewriting replaces commits by design, so
            # only the values are judged here
            other = next((o for o in ops if o["a"] != 0 and not o["exc"]), None)
            for o in ops:
                if o["a"] == 0 and not o["exc"]:
                    o["old"] = 1 if getattr(self, "rebased_n", 1) == 1 or other is None else other["new"]
            for c in commits:
                c["ok"] = False
        commits = [{k: c[k] for k in ("id", "parent", "ok")} for c in commits]
        return {"tid": tid, "init": [1], "final": [self.tip], "hinit": 1, "hfinal": 1,
                "ops": [dict({k: o[k] for k in ("k", "n", "old", "new", "res", "exc", "c", "r")}, via=0) for o in ops],
                "commits": commits, "tip": self.tip}


# --------------------------------------------------------------------------- concurrent pushes to one branch
class PushRun:
    """n actors push a commit of their own (child of the branch's current commit c0, or a first commit for a branch
    that does not exist yet) to the SAME branch of one target repository at once -- over the in-process local
    transport (LocalGitClient.send_pack) or through the server's ReceivePackHandler (plain, or atomic with a second,
    uncontended ref).  'Every push reported as successful is contained in the final branch history.'"""
    BR = b"refs/heads/master"
    NEW = b"refs/heads/brand-new"
    OTHER = b"refs/heads/side"

    def __init__(self, ctx, kind, n, packed=False):
        from dulwich.objects import Tree
        from dulwich.repo import Repo
        self.ctx, self.kind, self.n = ctx, kind, n
        self.base = ctx.tmpdir("c08push")
        self.root = os.path.join(self.base, "target")
        os.makedirs(self.root)
        r = Repo.init(self.root)
        t = Tree()
        r.object_store.add_object(t)
        self.tree_id = t.id
        kw = dict(committer=b"a <a@b>", author=b"a <a@b>", commit_timezone=0, author_timezone=0, tree=t.id)
        self.c0 = r.get_worktree().commit(message=b"c0", commit_timestamp=1, author_timestamp=1, **kw)
        r.refs[self.BR] = self.c0
        r.refs[self.OTHER] = self.c0
        if packed:
            r.refs.pack_refs(all=True)
        self.create = kind.endswith("create")
        self.ref = self.NEW if self.create else self.BR
        # one source repository per pusher, outside the interposed directory
        self.src, self.mine = [], []
        for a in range(n):
            sp = os.path.join(self.base, f"src{a}")
            os.makedirs(sp)
            sr = Repo.init(sp)
            sr.object_store.add_object(t)
            sr.object_store.add_object(r.object_store[self.c0])
            sr.refs[self.BR] = self.c0
            from dulwich.objects import Commit
            cm = Commit()
            cm.tree = t.id
            cm.parents = [self.c0]
            cm.author = cm.committer = b"a <a@b>"
            cm.author_time = cm.commit_time = 10 + a
            cm.author_timezone = cm.commit_timezone = 0
            cm.message = b"pushed by %d" % a
            sr.object_store.add_object(cm)
            ca = cm.id
            self.src.append(sp)
            self.mine.append(ca)
            sr.close()
        r.close()
        self.world = sched.World(self.root, yield_pred=refpath_pred,
                                 yield_ops={"open_excl", "open_r", "replace", "unlink", "stat", "fclose", "fwrite"})
        self.ops = []
        self.idx = {self.c0: 1}

    def cid(self, sha):
        if sha not in self.idx:
            self.idx[sha] = len(self.idx) + 1
        return self.idx[sha]

    def _wire(self, a, src, atomic):
        from io import BytesIO
        from dulwich.pack import write_pack_data
        from dulwich.protocol import ReceivableProtocol, pkt_line
        from dulwich.repo import Repo
        from dulwich.server import DictBackend, ReceivePackHandler
        count, recs = src.generate_pack_data({self.c0}, {self.mine[a]})
        pk = BytesIO()
        write_pack_data(pk.write, recs, src.object_format, num_records=count)
        Z = b"0" * 40
        old = Z if self.create else self.c0
        caps = b"report-status" + (b" atomic" if atomic else b"")
        req = pkt_line(old + b" " + self.mine[a] + b" " + self.ref + b"\0" + caps + b"\n")
        if atomic:
            req += pkt_line(self.c0 + b" " + self.mine[a] + b" " + self.OTHER + b"\n")
        req += pkt_line(None) + pk.getvalue()
        inp, out = BytesIO(req), BytesIO()
        tgt = Repo(self.root)
        try:
            ReceivePackHandler(DictBackend({"/": tgt}), ["/"], ReceivableProtocol(inp.read, out.write)).handle()
        finally:
            tgt.close()
        ans = out.getvalue()
        return (b"ok " + self.ref) in ans, ans[-160:]

    def actor(self, a):
        def body():
            from dulwich.client import LocalGitClient
            from dulwich.repo import Repo
            src = Repo(self.src[a])
            rec = {"k": "set_if_equals", "n": 1, "via": 0, "old": 0 if self.create else 1, "new": self.cid(self.mine[a]), "res": 0,
                   "exc": False, "a": a, "name": "push"}
            self.world.note("call")
            rec["c"] = self.world.seq
            try:
                if self.kind.startswith("local"):
                    def update_refs(refs):
                        # a well-behaved pusher: only a fast-forward of what the target advertises right now
                        now = refs.get(self.ref)
                        if (now is not None) if self.create else (now != self.c0):
                            raise RuntimeError("non-fast-forward: the branch moved")
                        return {self.ref: self.mine[a]}
                    res = LocalGitClient().send_pack(self.root, update_refs, src.generate_pack_data)
                    st = (res.ref_status or {}).get(self.ref)
                    ok, why = st is None, st
                else:
                    ok, why = self._wire(a, src, atomic=(self.kind.startswith("wire-atomic") and a == 0))
                if ok:
                    rec["res"] = 1
                else:
                    rec["exc"] = True          # a refused push: a legitimate loser, must have had no effect
                    rec["excname"] = f"refused:{why!r}"[:80]
            except BaseException as e:
                rec["exc"] = True
                rec["excname"] = type(e).__name__
                e.__traceback__ = None
            finally:
                src.close()
            self.world.note("retop")
            rec["r"] = self.world.seq
            self.ops.append(rec)
        return body

    def run(self, prefix=()):
        from dulwich.repo import Repo
        s = sched.Scheduler(self.world, {a: self.actor(a) for a in range(self.n)}, prefix)
        with sched.Interposer(self.world):
            s.run()
        self.sched = s
        r = Repo(self.root)
        try:
            tip = r.refs[self.ref]
        except KeyError:
            tip = None
        seen, todo = set(), [tip] if tip else []
        while todo:
            x = todo.pop()
            if x not in seen:
                seen.add(x)
                todo += r.object_store[x].parents
        r.close()
        self.tip = self.cid(tip) if tip else 0
        self.history = {self.cid(x) for x in seen}
        shutil.rmtree(self.base, ignore_errors=True)
        return s

    def trace(self, tid):
        ops = sorted(self.ops, key=lambda o: o["c"])
        commits = [{"id": 1, "parent": 0, "ok": True}]
        for a in range(self.n):
            i_ = self.cid(self.mine[a])
            okd = any(o["a"] == a and o["res"] == 1 and not o["exc"] for o in self.ops)
            commits.append({"id": i_, "parent": 1, "ok": okd})
        return {"tid": tid, "init": [0 if self.create else 1], "final": [self.tip], "hinit": 1, "hfinal": 1,
                "ops": [{k: o[k] for k in ("k", "n", "via", "old", "new", "res", "exc", "c", "r")} for o in ops],
                "commits": commits, "tip": self.tip}


# --------------------------------------------------------------------------- TLC batch
def judge(ctx, traces, meta):
    d = ctx.tmpdir("lin")
    n = 0
    B = 5000
    for i in range(0, len(traces), B):
        chunk = traces[i:i + B]
        path = os.path.join(d, f"h{i}.ndjson")
        with open(path, "w") as f:
            for t in chunk:
                f.write(json.dumps(t, separators=(",", ":")) + "\n")
        res = tlc.run("RefsLin.tla", "RefsLin.cfg", workers=1, timeout=3000, env={"TRACE_FILE": path})
        ctx.add_tlc(f"RefsLin[{i}]", res, require_ok=False)
        if not res.completed:
            raise MachineryError("RefsLin did not complete\n" + res.output[-3000:])
        okids, devids, symids = set(), set(), set()
        for line in res.output.splitlines():
            if line.startswith('<<"LIN"'):
                v = tlc.tlaval.parse(line.strip())
                {"strict": okids, "dev": devids, "devsym": symids}[v[2]].add(v[1])
        for t in chunk:
            n += 1
            if t["tid"] in okids:
                continue
            m = meta[t["tid"]]
            if t["tid"] in devids:
                # explained only by the named deviation PackRead/PackWrite of RefsLin.tla
                ctx.violation("dulwich/refs.py:DiskRefsContainer.pack_refs|DeletedRefResurrectedByPack",
                              f"pack_refs re-created a ref deleted after it had read its value: {m['desc']}",
                              {"trace": t, "meta": m})
            elif t["tid"] in symids:
                # explained only by the named deviation SymResolve of RefsLin.tla
                kinds = "+".join(sorted({o["k"] for o in t["ops"] if o["via"] == 1 and not o["exc"]}))
                ctx.violation(f"dulwich/refs.py:RefsContainer.follow|SymrefResolvedOutsideLock|via-HEAD={kinds}",
                              f"an operation issued on HEAD acted on the name HEAD pointed at earlier, not at any single moment: {m['desc']}",
                              {"trace": t, "meta": m})
            else:
                ctx.violation(m["sig"], f"history not linearizable / commit lost: {m['desc']}",
                              {"trace": t, "meta": m})
    shutil.rmtree(d, ignore_errors=True)
    return n


def binding_controls(ctx, traces):
    """RefsLin is not vacuous: a recorded history with one result flipped / a wrong final value must be rejected."""
    import copy
    good = next((t for t in traces if sum(1 for o in t["ops"] if o["k"] == "set_if_equals" and o["old"] >= 0 and not o["exc"]) >= 2
                 and not t["commits"]), None)
    if good is None:
        raise MachineryError("no history with two conditional updates available for the binding controls")
    a = copy.deepcopy(good)
    a["tid"] = 900001
    for o in a["ops"]:
        if o["k"] == "set_if_equals" and o["old"] >= 0 and not o["exc"]:
            o["res"] = 1                      # every CAS from the same old value "succeeded"
    if all(o["res"] == 1 for o in good["ops"] if o["k"] == "set_if_equals" and o["old"] >= 0 and not o["exc"]):
        a["ops"][0]["res"] = 0
    b = copy.deepcopy(good)
    b["tid"] = 900002
    b["final"] = [7]
    # a symbolic-ref history whose recorded final HEAD target is flipped must be rejected in every mode
    symgood = next((t for t in traces if len(t["init"]) == 2 and any(o["k"] == "set_symref" and not o["exc"] for o in t["ops"])), None)
    if symgood is None:
        raise MachineryError("no symbolic-ref history available for the binding controls")
    c = copy.deepcopy(symgood)
    c["tid"] = 900003
    c["hfinal"] = 3 - c["hfinal"] if c["hfinal"] in (1, 2) else 1
    d = ctx.tmpdir("ctl")
    path = os.path.join(d, "ctl.ndjson")
    with open(path, "w") as f:
        for t in (a, b, c):
            f.write(json.dumps(t, separators=(",", ":")) + "\n")
    res = tlc.run("RefsLin.tla", "RefsLin.cfg", workers=1, timeout=300, env={"TRACE_FILE": path})
    ctx.add_tlc("RefsLin[binding controls: flipped result, wrong final value]", res, require_ok=False)
    printed = tlc.extract_printed(res.output, "LIN")
    acc = {v[1] for v in printed if v[2] == "strict"} | {v[1] for v in printed if v[1] == 900003}
    if 900001 in acc or 900002 in acc or 900003 in acc:
        raise MachineryError(f"binding control failed: corrupted histories accepted by RefsLin: {acc}")
    ctx.cov["binding_controls"] = {"flipped_result_rejected": True, "wrong_final_rejected": True, "wrong_head_target_rejected": True}
    shutil.rmtree(d, ignore_errors=True)


# --------------------------------------------------------------------------- scenarios
def combos(ctx):
    two = [("cas3", "cas4"), ("cas3", "pack"), ("cas3", "read"), ("pack", "read"), ("pack", "asdict"),
           ("rm", "read"), ("rm", "cas3"), ("rm", "pack"), ("add3", "add4"), ("add3", "pack"),
           ("set3", "cas4"), ("del", "cas3"), ("cas3h", "cas4"), ("cas3h", "pack"), ("readH", "pack"),
           ("rmU", "readH"), ("casStale", "cas3"), ("del", "pack"), ("set3", "pack"), ("rm", "asdict"),
           ("rm", "add3"), ("del", "add3"), ("cas01", "rm"), ("cas01", "del"), ("cas01", "rmU")]
    three = [("cas3", "cas4", "pack"), ("cas3", "pack", "read"), ("rm", "pack", "read"), ("cas3", "rm", "read"),
             ("set3", "pack", "pack"), ("cas3", "rmU", "read"), ("set3", "del", "read")]
    seq2 = [(("cas3", "read"), ("pack",)), (("pack", "read"), ("cas3",)), (("rm", "read"), ("pack",)),
            (("cas3", "rm"), ("pack", "read")),
            # the other actor's update is packed away before the first actor takes its lock: the loose file is
            # gone again, only packed-refs knows the new value
            (("add3",), ("add4", "pack")), (("add3",), ("set4", "pack")), (("cas3",), ("cas4", "pack")),
            (("rm",), ("cas3", "pack")), (("casStale",), ("set4", "pack")), (("add3", "read"), ("add4", "pack"))]
    out = []
    for layout in LAYOUTS:
        for c in two:
            out.append((layout, [[c[0]], [c[1]]], ctx.pick(2, 3), ctx.pick(60, 1500)))
        for c in three:
            out.append((layout, [[x] for x in c], ctx.pick(1, 2), ctx.pick(50, 1500)))
        for c in seq2:
            out.append((layout, [list(c[0]), list(c[1])], ctx.pick(1, 3), ctx.pick(50, 1500)))
    return out


# --------------------------------------------------------------------------- model candidates replayed on the real code
# Counterexamples TLC finds for the refinement invariants of RefsFiles with three actors are
# candidates (fixed linearization points are sufficient, not necessary).  Each is turned into a
# scripted schedule -- (actor, run until its next call matches) phases -- and executed on the
# real code; the recorded history is judged by RefsLin like every other one.
def _until(op=None, path_end=None, path_has=None):
    def pred(pending):
        if pending is None:
            return False
        o, p = pending
        p = str(p)
        return (op is None or o == op) and (path_end is None or p.endswith(path_end)) and (path_has is None or path_has in p)
    return pred


CANDIDATES = [
    # RefsFiles_mc3nopack / ReadSound: reader between its loose probe and its packed probe while a CAS
    # writes the loose file and a delete has removed the packed entry but not yet the loose file;
    # a second read by the same reader afterwards
    {"name": "read-read vs cas vs delete (ReadSound candidate)", "layout": "packed",
     "actors": [["cas3"], ["rmU"], ["read", "read"]],
     "script": [(2, _until(path_has="packed-refs")), (0, None), (1, _until(op="unlink", path_end="refs/heads/m")), (2, None), (1, None)]},
    {"name": "read-read vs set vs delete, loose shadows packed", "layout": "both",
     "actors": [["set3"], ["rm"], ["read", "read"]],
     "script": [(2, _until(path_has="packed-refs")), (0, None), (1, _until(op="unlink", path_end="refs/heads/m")), (2, None), (1, None)]},
    # RefsFiles_mc3nodel / VisIsAbs: two packers and an update (stale value written back by the second packer)
    {"name": "cas vs pack vs pack (stale pack value, VisIsAbs candidate)", "layout": "packed",
     "actors": [["set3"], ["pack"], ["pack"]],
     "script": [(2, _until(op="open_excl", path_end="packed-refs.lock")), (0, None), (1, None), (2, None)]},
]


def run_candidate(ctx, cand):
    r = RefRun(ctx, cand["layout"], cand["actors"])
    phases = list(cand["script"])
    state = {"i": 0}

    def chooser(s, enabled, cur):
        while state["i"] < len(phases):
            a, until = phases[state["i"]]
            if a in enabled and not (until is not None and until(s.pending.get(a))):
                return a
            state["i"] += 1
        return None
    from dulwich.refs import DiskRefsContainer
    s = sched.Scheduler(r.world, {a: r.actor(a, names) for a, names in enumerate(r.actors)})
    s.chooser = chooser
    with sched.Interposer(r.world):
        s.run()
    r.sched = s
    c = DiskRefsContainer(r.root)
    try:
        r.final = val_index(c[M])
    except KeyError:
        r.final = 0
    r.leftover_locks = []
    r.events = r.world.events
    shutil.rmtree(r.root, ignore_errors=True)
    return r


def run(ctx):
    # 1. design-level model of the files backend
    from . import c08_model
    c08_model.run_models(ctx)

    traces, meta = [], {}
    tid = 0
    nexc = 0
    for (layout, actors, maxp, limit) in combos(ctx):
        def run_once(prefix, layout=layout, actors=actors):
            r = RefRun(ctx, layout, actors)
            r.run(prefix)
            r.sched.run_obj = r
            return r.sched
        names = "+".join(sorted(n for a in actors for n in a))

        def run_rand(i, layout=layout, actors=actors):
            # uniformly placed preemptions (the DFS, when cut by its limit, favours late ones)
            r = RefRun(ctx, layout, actors)
            r.run((), rng=ctx.rng, p_switch=0.12, max_switch=maxp + 1)
            r.sched.run_obj = r
            return r.sched
        import itertools
        nrand = ctx.pick(25, 400) if limit else 0
        for s in itertools.chain(sched.explore(run_once, max_preempt=maxp, limit=limit, rng=ctx.rng), sched.sample(run_rand, nrand)):
            r = s.run_obj
            tid += 1
            t = r.trace(tid)
            traces.append(t)
            nexc += sum(1 for o in r.ops if o["exc"])
            meta[tid] = {"sig": f"dulwich/refs.py:DiskRefsContainer|NotLinearizable|ops={names} init={layout}",
                         "desc": f"ops={actors} init={layout} results={[(o['name'], o['res'], o.get('excname')) for o in r.ops]} final={r.final}",
                         "choices": s.choices(), "layout": layout, "actors": actors}
            ctx.count()
            ctx.nontrivial(("ref", layout, names, tuple((o["a"], o["name"], o["res"], o["exc"], o["c"], o["r"]) for o in r.ops), r.final))
            if r.leftover_locks:
                ctx.violation(f"dulwich/refs.py:DiskRefsContainer|LockLeftBehind|ops={names} init={layout}",
                              f"lock files left after all operations returned: {r.leftover_locks}", {"meta": meta[tid], "trace": t})
            c08_model.collect_shape(ctx, r, tid)
    for cand in CANDIDATES:
        r = run_candidate(ctx, cand)
        tid += 1
        t = r.trace(tid)
        traces.append(t)
        names = "+".join(sorted(n for a in cand["actors"] for n in a))
        meta[tid] = {"sig": f"dulwich/refs.py:DiskRefsContainer|NotLinearizable|ops={names} init={cand['layout']} scripted",
                     "desc": f"scripted candidate '{cand['name']}': results={[(o['name'], o['res'], o.get('excname')) for o in sorted(r.ops, key=lambda o: o['c'])]} final={r.final}",
                     "choices": r.sched.choices(), "layout": cand["layout"], "actors": cand["actors"]}
        ctx.count()
        ctx.nontrivial(("cand", cand["name"]))
    nsym = 0
    for (layout, actors, maxp, limit) in sym_combos(ctx):
        def run_once(prefix, layout=layout, actors=actors):
            r = SymRun(ctx, layout, actors)
            r.run(prefix)
            r.sched.run_obj = r
            return r.sched
        names = "+".join(sorted(n for a in actors for n in a))
        for s in sched.explore(run_once, max_preempt=maxp, limit=limit, rng=ctx.rng):
            r = s.run_obj
            tid += 1
            nsym += 1
            t = r.trace(tid)
            traces.append(t)
            nexc += sum(1 for o in r.ops if o["exc"])
            meta[tid] = {"sig": f"dulwich/refs.py:DiskRefsContainer|NotLinearizable|sym ops={names} init={layout}",
                         "desc": f"HEAD->m, m=k1, n=k2 ({layout}); ops={actors} results={[(o['name'], o['res'], o.get('excname')) for o in sorted(r.ops, key=lambda o: o['c'])]} final m,n={r.final} HEAD->{r.hfinal}",
                         "choices": s.choices(), "sym_layout": layout, "actors": actors}
            ctx.count()
            ctx.nontrivial(("sym", layout, names, tuple((o["a"], o["name"], o["res"], o["exc"], o["c"], o["r"]) for o in r.ops), tuple(r.final), r.hfinal))
            if r.leftover_locks:
                ctx.violation(f"dulwich/refs.py:DiskRefsContainer|LockLeftBehind|sym ops={names} init={layout}",
                              f"lock files left after all operations returned: {r.leftover_locks}", {"meta": meta[tid], "trace": t})
    ctx.log(f"symbolic-ref histories: {nsym} executions")
    ctx.log(f"ref histories: {tid} executions, {nexc} operations ended with an exception (legitimate losers)")
    ctx.sample({"kind": "ref-history", "trace": traces[len(traces) // 3], "meta": meta[traces[len(traces) // 3]["tid"]]["desc"]})
    # commits
    ncommit = 0
    for kind, n, packed, maxp, limit in [("worktree", 2, False, ctx.pick(2, 3), ctx.pick(250, 6000)),
                                         ("worktree", 2, True, ctx.pick(2, 3), ctx.pick(120, 6000)),
                                         ("worktree", 3, False, ctx.pick(1, 2), ctx.pick(120, 6000)),
                                         ("porcelain", 2, False, ctx.pick(1, 2), ctx.pick(150, 4000)),
                                         ("amend", 2, False, ctx.pick(1, 2), ctx.pick(200, 4000)),
                                         ("merge", 2, False, ctx.pick(1, 2), ctx.pick(200, 4000)),
                                         ("merge-noff", 2, False, ctx.pick(1, 2), ctx.pick(150, 4000)),
                                         ("pull", 2, False, ctx.pick(1, 2), ctx.pick(150, 4000)),
                                         ("rebase", 2, False, ctx.pick(1, 2), ctx.pick(150, 4000)),
                                         ("porcelain", 2, True, ctx.pick(1, 2), ctx.pick(100, 4000)),
                                         ("memory", 2, False, 3, None), ("memory", 3, False, 2, ctx.pick(150, 5000))]:
        def run_once(prefix, kind=kind, n=n, packed=packed):
            r = CommitRun(ctx, kind, n, packed)
            r.run(prefix)
            r.sched.run_obj = r
            return r.sched
        for s in sched.explore(run_once, max_preempt=maxp, limit=limit, rng=ctx.rng):
            r = s.run_obj
            tid += 1
            ncommit += 1
            t = r.trace(tid)
            traces.append(t)
            site = {"worktree": "dulwich/worktree.py:WorkTree.commit", "porcelain": "dulwich/porcelain:commit", "amend": "dulwich/porcelain:commit(amend=True)", "merge": "dulwich/porcelain:merge", "merge-noff": "dulwich/porcelain:merge(no_ff)", "pull": "dulwich/porcelain:pull", "rebase": "dulwich/porcelain:rebase"}.get(kind, "dulwich/repo.py:MemoryRepo.do_commit")
            meta[tid] = {"sig": f"{site}|LostCommit|actors={n} packed={packed}",
                         "desc": f"{n} concurrent commits ({kind}): {r.commits} tip={r.tip} results={[(o['res'], o.get('excname')) for o in r.ops]}",
                         "choices": s.choices(), "kind": kind}
            ctx.count()
            ctx.nontrivial(("commit", kind, n, packed, tuple((o["a"], o["res"], o["exc"], o["old"]) for o in r.ops), r.tip))
    npush = 0
    for kind, n, packed, maxp, limit in [("local-update", 2, False, ctx.pick(1, 2), ctx.pick(120, 3000)),
                                         ("local-update", 2, True, ctx.pick(1, 2), ctx.pick(80, 3000)),
                                         ("local-create", 2, False, ctx.pick(1, 2), ctx.pick(120, 3000)),
                                         ("wire-update", 2, True, ctx.pick(1, 2), ctx.pick(100, 3000)),
                                         ("wire-create", 2, False, ctx.pick(1, 2), ctx.pick(100, 3000)),
                                         ("wire-atomic-update", 2, False, ctx.pick(1, 2), ctx.pick(150, 3000)),
                                         ("wire-atomic-update", 2, True, ctx.pick(1, 2), ctx.pick(100, 3000))]:
        def run_once(prefix, kind=kind, n=n, packed=packed):
            r = PushRun(ctx, kind, n, packed)
            r.run(prefix)
            r.sched.run_obj = r
            return r.sched
        for s in sched.explore(run_once, max_preempt=maxp, limit=limit, rng=ctx.rng):
            r = s.run_obj
            tid += 1
            npush += 1
            t = r.trace(tid)
            traces.append(t)
            site = "dulwich/client.py:LocalGitClient.send_pack" if kind.startswith("local") else "dulwich/server.py:ReceivePackHandler"
            meta[tid] = {"sig": f"{site}|LostPush|{kind} actors={n} packed={packed}",
                         "desc": f"{n} concurrent pushes ({kind}, packed={packed}): results={[(o['a'], o['res'], o.get('excname')) for o in sorted(r.ops, key=lambda o: o['c'])]} "
                                 f"tip={r.tip} history={sorted(r.history)}",
                         "choices": s.choices(), "push_kind": kind, "n": n, "packed": packed}
            ctx.count()
            ctx.nontrivial(("push", kind, n, packed, tuple((o["a"], o["res"], o["exc"]) for o in r.ops), r.tip))
    ctx.log(f"push histories: {npush} executions")
    ctx.log(f"commit histories: {ncommit} executions")
    tid = mp_part(ctx, traces, meta, tid)
    ctx.sample({"kind": "commit-history", "trace": traces[-1], "meta": meta[traces[-1]["tid"]]["desc"]})
    n = judge(ctx, traces, meta)
    ctx.validated(n)
    binding_controls(ctx, traces)
    c08_model.validate_shapes(ctx)
    ctx.cov["rule"] = ("one real execution per schedule (bounded preemptions, system-call grain) of 2-3 actors performing ref operations "
                       "or commits from each initial layout {absent, loose, packed, both}; two branches and the symbolic ref HEAD re-pointed "
                       "concurrently with updates, reads and commits issued on HEAD (layouts loose, packed, mixed); distinct = distinct (layout, operations, "
                       "interval structure, results, final value); non-trivial = at least two operations overlap")
    ctx.assumptions += ["scheduled actors are greenlets with private DiskRefsContainer/Repo objects; only the file system is shared; "
                        "the real-process rounds use forked processes and CLOCK_MONOTONIC intervals (wider than the operations)",
                        "an operation that raised (FileLocked, FileNotFoundError...) is a legitimate loser and must have no effect",
                        "multi-ref reads (as_dict) are judged per ref, not as an atomic snapshot",
                        "reflog content and worktree-specific refs are not modelled"]
    return ctx.finish(exhaustive=False)


def replay(ctx, path):
    obj = json.load(open(path))
    print(json.dumps(obj, indent=1)[:6000])
    m = obj.get("meta", {})
    if "push_kind" in m:
        r = PushRun(ctx, m["push_kind"], m["n"], m["packed"])
        r.run(m["choices"])
        t = r.trace(1)
        print("re-executed:", [(o["a"], o["res"], o.get("excname")) for o in r.ops], "tip", r.tip)
        ctx.known = []
        judge(ctx, [t], {1: {"sig": obj["signature"], "desc": "replay"}})
    elif "sym_layout" in m:
        r = SymRun(ctx, m["sym_layout"], m["actors"])
        r.run(m["choices"])
        t = r.trace(1)
        print("re-executed:", [(o["a"], o["name"], o["res"], o.get("excname")) for o in r.ops], "final", r.final, "HEAD->", r.hfinal)
        ctx.known = []
        judge(ctx, [t], {1: {"sig": obj["signature"], "desc": "replay"}})
    elif "layout" in m:
        r = RefRun(ctx, m["layout"], m["actors"])
        r.run(m["choices"])
        t = r.trace(1)
        print("re-executed:", [(o["a"], o["name"], o["res"], o.get("excname")) for o in r.ops], "final", r.final)
        ctx.known = []
        judge(ctx, [t], {1: {"sig": obj["signature"], "desc": "replay"}})
    return 1 if ctx.violations else 0

"""C03 -- delta codec: apply(create(base, target), base) = target; bad deltas fail cleanly.

Specs: specs/Delta.tla (reference decoder Run/Decode, postcondition Cand/Post, reference encoder
Encode), DeltaEnum / DeltaStruct / DeltaRT (TLC enumerates the cases), DeltaTrace (TLC judges
recorded executions).  Binding:

  R  spec -> code   every state TLC enumerates (all byte strings up to a bound over an
                    opcode-covering alphabet x small bases; structured families: padded / huge
                    size varints, every copy mask, truncations, opcode 0, overruns, repeated
                    64 KiB copies) is run on the real apply_delta -- pure Python (extension
                    blocked) and Rust (release .so built from the working tree) -- in sandboxed
                    children; the real answer is compared with the one output the statement's
                    postcondition admits (computed by TLC), a death / panic / foreign exception /
                    excessive ru_maxrss growth is observed, never suffered.
                    Every (base, target) pair of DeltaRT is handed to the real encoders.
  T  code -> spec   deltas produced by the real encoders (py, rs, C git pack-objects) on
                    TLC-enumerated, hypothesis-generated and structured pairs (empty, identical,
                    >64 KiB runs, offsets needing 1..4 bytes) and the answers of every decoder
                    (py, rs, C git index-pack) are recorded as ndjson and judged by TLC with
                    DeltaTrace (byte level when small, op level when large); the same for
                    hypothesis/rng mutations of valid deltas on larger bases.
  G  C git          third opinion: the reference decoder is compared with git index-pack on a
                    sample of the enumerated cases (a disagreement is a machinery failure).
"""
from __future__ import annotations

import concurrent.futures as cf
import json
import os
import shutil
import signal
import subprocess
import sys

from .. import c03_data as D
from .. import rustext, tlc
from ..core import REPO, VERIF, MachineryError, git_available

PY = "/venv/bin/python"
CHILD = os.path.join(VERIF, "harness", "c03_child.py")
MODES = ("py", "rs")
DEC_SITE = {"py": "dulwich/pack.py:apply_delta", "rs": "crates/pack/src/lib.rs:apply_delta",
            "git": "git:patch_delta"}
ENC_SITE = {"py": "dulwich/pack.py:_create_delta_py", "rs": "crates/pack/src/lib.rs:create_delta",
            "git": "git:pack-objects", "ref": "specs/Delta.tla:Encode"}
SLACK_KB = 24 * 1024      # allocator / copy-on-write noise of a forked grandchild
KMEM = 4                  # base + delta + output, each possibly held twice (chunks + joined copy)
FULL_LIMIT = 700          # base + target + delta bytes carried into TLC as bytes
BASES = {1: b"", 2: b"ab", 3: b"abc"}


def budget_kb(blen, dlen, produced):
    return SLACK_KB + KMEM * (blen + dlen + produced) // 1024


# =========================================================================== workers
class Job:
    def __init__(self, ctx, mode, kind, **kw):
        self.ctx = ctx
        self.dir = ctx.tmpdir(f"job-{mode}-{kind}")
        self.spec = dict(kw, mode=mode, kind=kind, out=os.path.join(self.dir, "out.json"),
                         progress=os.path.join(self.dir, "progress"))
        self.jobfile = os.path.join(self.dir, "job.json")
        self.stderr = os.path.join(self.dir, "stderr")

    def run(self, timeout=3000):
        with open(self.jobfile, "w") as f:
            json.dump(self.spec, f)
        env = dict(os.environ, RUST_BACKTRACE="0", PYTHONDONTWRITEBYTECODE="1")
        with open(self.stderr, "wb") as err:
            try:
                p = subprocess.run([PY, CHILD, self.jobfile], stdout=subprocess.DEVNULL, stderr=err, env=env,
                                   timeout=timeout)
                self.rc = p.returncode
            except subprocess.TimeoutExpired:
                self.rc = -999
        if os.path.exists(self.spec["out"]):
            with open(self.spec["out"]) as f:
                return json.load(f)
        return None

    def progress(self):
        try:
            with open(self.spec["progress"]) as f:
                return int(f.read().strip() or 0)
        except (OSError, ValueError):
            return 0

    def err_tail(self):
        try:
            with open(self.stderr, "rb") as f:
                return f.read()[-1500:].decode("utf-8", "replace")
        except OSError:
            return ""

    def cleanup(self):
        shutil.rmtree(self.dir, ignore_errors=True)


def run_dump_slice(ctx, mode, path, start, end, third=0):
    """Run one slice of a DeltaEnum dump through the real decoder.  A worker death is bisected:
    the 256-state block in which it died is re-run with one forked grandchild per state."""
    results = []
    skip = 0
    for _ in range(200):
        j = Job(ctx, mode, "dump", path=path, start=start, end=end, skip=skip, third=third)
        res = j.run()
        if res is not None:
            results.append(res)
            j.cleanup()
            return results
        if j.rc >= 0 and j.rc != 0 and not j.progress():
            raise MachineryError(f"C03 worker failed (rc={j.rc}): {j.err_tail()}")
        m = max(j.progress(), skip)
        j.cleanup()
        if m > skip:
            j1 = Job(ctx, mode, "dump", path=path, start=start, end=end, skip=skip, limit=m - skip)
            r1 = j1.run()
            if r1 is None:
                raise MachineryError(f"C03 worker died again on a block it had passed: {j1.err_tail()}")
            results.append(r1)
            j1.cleanup()
        j2 = Job(ctx, mode, "dump", path=path, start=start, end=end, skip=m, limit=256, iso=True)
        r2 = j2.run()
        if r2 is None:
            raise MachineryError(f"C03 isolated worker died: {j2.err_tail()}")
        results.append(r2)
        j2.cleanup()
        skip = m + 256
    raise MachineryError("C03 worker keeps dying")


def run_case_jobs(ctx, kind, cases, nsplit):
    """cases -> {mode: {id: obs}} using nsplit workers per mode."""
    return run_case_jobs_chunks(ctx, kind, [cases[i::nsplit] for i in range(nsplit)])


# =========================================================================== verdict helpers
def signame(n):
    try:
        return signal.Signals(n).name
    except ValueError:
        return f"SIG{n}"


def clause_of(obs, declared):
    k = obs["k"]
    if k == "bytes":
        if declared is None or obs.get("len") != declared:
            return "length-differs-from-declared-size"
        return "not-slices-and-inserts"
    if k == "exception":
        return f"fails-with-{obs.get('cls')}"
    if k == "panic":
        return "panics"
    if k == "killed":
        return f"killed-{signame(obs.get('sig', 0))}"
    return k


class Findings:
    """Collects failing cases per signature and reports the smallest one of each."""

    def __init__(self, ctx):
        self.ctx = ctx
        self.best = {}

    def add(self, sig, what, replay_obj, size):
        cur = self.best.get(sig)
        key = (size, json.dumps(replay_obj, sort_keys=True, default=str))
        if cur is None or key < cur[0]:
            self.best[sig] = (key, what, replay_obj, (cur[3] if cur else 0) + 1)
        else:
            self.best[sig] = (cur[0], cur[1], cur[2], cur[3] + 1)

    def decoder(self, mode, clause, declared, base_desc, delta, obs, extra=None):
        sig = f"{DEC_SITE[mode]}|{clause}|declared={D.bucket(declared)}"
        o = {k: v for k, v in obs.items() if k not in ("id",)}
        what = (f"{mode} apply_delta: {clause} (declared target size {declared}, delta {len(delta)} bytes, "
                f"observed {o.get('k')}{' len ' + str(o['len']) if 'len' in o else ''})")
        rep = {"kind": "decode", "mode": mode, "base": base_desc, "delta": delta.hex(), "clause": clause,
               "declared": str(declared), "observed": o}
        rep.update(extra or {})
        self.add(sig, what, rep, len(delta))

    def encoder(self, enc, clause, base_r, target_r, blen, tlen, extra=None):
        sig = f"{ENC_SITE[enc]}|{clause}|{extra.get('class', '') if extra else ''}"
        what = f"{enc} create_delta: {clause} for base of {blen} bytes, target of {tlen} bytes"
        rep = {"kind": "encode", "mode": enc, "base": base_r, "target": target_r, "clause": clause}
        rep.update(extra or {})
        self.add(sig, what, rep, blen + tlen)

    def flush(self):
        for sig in sorted(self.best):
            _, what, rep, n = self.best[sig]
            rep = dict(rep, cases_with_this_signature=n)
            self.ctx.violation(sig, what, rep)
        self.best = {}


# =========================================================================== phase A: exhaustive strings
def phase_enum(ctx, fnd):
    runs = ctx.pick([("Delta_enum_q.cfg", "all strings <=5 over 12 bytes x 3 bases, extensions of a wrong source size pruned")],
                    [("Delta_enum_t5.cfg", "all strings <=5 over 12 bytes x 3 bases"),
                     ("Delta_enum_t6.cfg", "all strings <=6 over 12 bytes x 3 bases, extensions of a wrong source size pruned")])
    total = 0
    for cfg, label in runs:
        dump = os.path.join(ctx.scratch, cfg + ".dump")
        res = tlc.run("DeltaEnum.tla", cfg, workers=8, timeout=3000, dump_states=dump[:-5])
        ctx.add_tlc(f"DeltaEnum/{cfg} ({label})", res)
        ctx.log(f"DeltaEnum {cfg}: {res.distinct} states in {res.wall_s:.1f}s")
        parts = D.split_dump(dump, ctx.pick(5, 7))
        work = [(m, a, b) for m in MODES for (a, b) in parts]
        with cf.ThreadPoolExecutor(max_workers=len(work)) as ex:
            outs = list(ex.map(lambda w: (w, run_dump_slice(ctx, w[0], dump, w[1], w[2],
                                                            third=(res.distinct // 3000 + 1) if w[0] == "py" else 0)), work))
        seen = {m: 0 for m in MODES}
        oks, rejs = [], []
        for (mode, a, b), results in outs:
            for r in results:
                ran = sum(v for k, v in r["counts"].items() if "/" in k)
                seen[mode] += ran
                ctx.count(ran)
                ctx.validated(ran)
                for key, v in r["counts"].items():
                    ctx.cov.setdefault("enum_outcomes", {}).setdefault(f"{mode}:{key}", 0)
                    ctx.cov["enum_outcomes"][f"{mode}:{key}"] += v
                # non-trivial: the reference decoder got past the header (reached the op loop);
                # the states of one dump are pairwise distinct, so are (mode, slice, block, i)
                for i in range(r["nontrivial"]):
                    ctx.nontrivial(("enum", cfg, mode, a, r["skip"], i))
                oks += r.get("oks", [])
                rejs += r.get("rejs", [])
                for s in r["samples"]:
                    ctx.sample({"phase": "enum", "impl": mode, **s}, limit=2)
                for bad in r["bad"]:
                    declared = D.limbs_to_int(bad["dst"])
                    fnd.decoder(mode, clause_of(bad["obs"], declared), declared, ["hex", bad["base"]],
                                bytes.fromhex(bad["delta"]), bad["obs"],
                                {"expected": {"ref": bad["st"], "why": bad["why"], "admitted_output": bad["cout"] if bad["chas"] else None}})
                if r.get("counts", {}).get("bad-not-listed"):
                    ctx.log(f"{mode}: {r['counts']['bad-not-listed']} more failing cases not listed")
                for dr in r["drift"][:3]:
                    ctx.drift_event(f"{DEC_SITE[mode]} rejects a delta the reference decoder accepts: base={BASES[dr['bi']].hex()} delta={dr['delta']}")
                if r["ndrift"] > 3:
                    ctx.cov["drift"] += r["ndrift"] - min(3, len(r["drift"]))
        for m in MODES:
            if seen[m] != res.distinct:
                raise MachineryError(f"{cfg}: {m} ran {seen[m]} of {res.distinct} enumerated states")
        total += res.distinct
        os.remove(dump)
        git_opinion_enum(ctx, cfg, oks, rejs)
    return total


def git_opinion_enum(ctx, cfg, oks, rejs):
    """C git as third opinion on the enumerated strings: every delta the reference accepts (>= 4 bytes,
    git's DELTA_SIZE_MIN) must be resolved by git index-pack to the reference output; a sample of the
    rejected ones (beyond the header) must be refused by git.  Disagreement = the specification is wrong."""
    if not git_available():
        return
    oks = [o for o in oks if (varint_lens(bytes.fromhex(o[1])) or [99])[0] <= 9]
    items = [((bi, d), BASES[bi], bytes.fromhex(d)) for bi, d, _ in oks]
    got = git_decode_batch(ctx, items)
    for bi, d, rout in oks:
        want = D.git_blob_sha(bytes.fromhex(rout)).hex()
        if got.get((bi, d)) != want:
            raise MachineryError(f"reference decoder accepts base={BASES[bi]!r} delta={d} -> {rout}, C git says {got.get((bi, d))}")
    ctx.rng.shuffle(rejs)
    rejs = rejs[:ctx.pick(200, 1500)]

    def one(r):
        return r, git_decode_batch(ctx, [("k", BASES[r[0]], bytes.fromhex(r[1]))])["k"]

    with cf.ThreadPoolExecutor(max_workers=8) as ex:
        for r, g in ex.map(one, rejs):
            if g is not None:
                raise MachineryError(f"reference decoder rejects ({r[2]}) base={BASES[r[0]]!r} delta={r[1]}, C git accepts")
    ctx.cov.setdefault("git_third_opinion_enum", {})[cfg] = {"reference_accepts_git_agrees": len(oks), "reference_rejects_git_agrees": len(rejs)}


# =========================================================================== phase B: structured families
def phase_struct(ctx, fnd):
    cfg = "Delta_struct.cfg"
    dump = os.path.join(ctx.scratch, "struct.dump")
    res = tlc.run("DeltaStruct.tla", cfg, workers=8, timeout=1800, dump_states=dump[:-5], coverage=not ctx.quick)
    ctx.add_tlc(f"DeltaStruct/{cfg} (op templates: varint widths 1..11, declared sizes to 2^77, 128 copy masks, truncations, opcode 0, overruns)", res)
    states = [s for s in D.read_dump(dump) if not s["root"]]
    os.remove(dump)
    cases, meta = [], {}
    for i, s in enumerate(states):
        if s["st"] not in ("ok", "err"):
            raise MachineryError(f"DeltaStruct case outside the model: {s['fam']} {s['st']}")
        delta = bytes(s["pre"]) + bytes(s["unit"]) * s["reps"]
        s["delta"] = delta
        declared = D.limbs_to_int(s["dst"])
        iso = (declared is not None and declared >= (1 << 24)) or s["fam"] in ("amplify", "overrun") or len(delta) > 2000
        cid = f"s{i}"
        cases.append({"id": cid, "blen": s["blen"], "delta": delta.hex(), "iso": iso})
        meta[cid] = (s, delta, declared)
    # big-base cases together, so that few workers build the 16 MiB base
    cases.sort(key=lambda c: (c["blen"], c["id"]))
    n = len(cases)
    k = 6
    chunks = [cases[i * n // k:(i + 1) * n // k] for i in range(k)]
    obs = run_case_jobs_chunks(ctx, "cases", chunks)
    cand_cache = {}
    for mode in MODES:
        for cid, (s, delta, declared) in meta.items():
            o = obs[mode].get(cid)
            if o is None:
                raise MachineryError(f"no observation for {cid} ({mode})")
            ctx.count()
            ctx.validated()
            if s["why"] not in ("header", "src-size"):
                ctx.nontrivial(("struct", mode, s["blen"], delta.hex() if len(delta) < 64 else D.sha1(delta)))
            if cid not in cand_cache:
                cand_cache[cid] = D.sha1(D.materialise(D.pattern_base(s["blen"]), delta, s["csegs"])) if s["chas"] else None
            judge_obs(ctx, fnd, mode, o, cand_cache[cid], declared, s["blen"], ["pat", s["blen"]], delta, s["prod"],
                      s["st"], s["why"], {"family": s["fam"]})
    ctx.cov["struct_families"] = sorted({s["fam"] for s in states})
    ex = next((s for s in states if s["fam"] == "hdrdst" and len(s["dst"]) > 9), states[0])
    ctx.sample({"phase": "struct", "family": ex["fam"], "blen": ex["blen"], "delta": ex["delta"].hex(),
                "declared_target_size": str(D.limbs_to_int(ex["dst"])), "reference": [ex["st"], ex["why"]],
                "py": obs["py"][next(c for c, m in meta.items() if m[0] is ex)]["k"],
                "rs": obs["rs"][next(c for c, m in meta.items() if m[0] is ex)]["k"]}, limit=3)
    return states


def run_case_jobs_chunks(ctx, kind, chunks):
    """Like run_case_jobs but with caller-chosen chunks."""
    chunks = [c for c in chunks if c]
    d = ctx.tmpdir("cases")
    paths = []
    for i, ch in enumerate(chunks):
        p = os.path.join(d, f"c{i}.ndjson")
        with open(p, "w") as f:
            for c in ch:
                f.write(json.dumps(c, separators=(",", ":")) + "\n")
        paths.append(p)

    def one(mode, i):
        j = Job(ctx, mode, kind, path=paths[i])
        res = j.run()
        if res is None:
            p2 = paths[i] + f".{mode}.iso"
            with open(p2, "w") as f:
                for c in chunks[i]:
                    f.write(json.dumps(dict(c, iso=True), separators=(",", ":")) + "\n")
            j2 = Job(ctx, mode, kind, path=p2)
            res = j2.run()
            if res is None:
                raise MachineryError(f"C03 worker ({mode}, {kind}) died: rc={j2.rc} {j2.err_tail()}")
            j2.cleanup()
        j.cleanup()
        return mode, res

    out = {m: {} for m in MODES}
    with cf.ThreadPoolExecutor(max_workers=14) as ex:
        for mode, res in ex.map(lambda a: one(*a), [(m, i) for m in MODES for i in range(len(paths))]):
            for o in res["obs"]:
                out[mode][o["id"]] = o
    shutil.rmtree(d, ignore_errors=True)
    return out


def judge_obs(ctx, fnd, mode, o, cand_sha, declared, blen, base_desc, delta, produced, st, why, extra=None,
              allowed=None):
    """One decoder observation against the statement.  cand_sha = sha1 of the one output the
    postcondition admits (None: no output is admitted).  allowed (when TLC judged the bytes itself)
    overrides the sha comparison."""
    k = o["k"]
    x = dict(extra or {}, expected={"ref": st, "why": why, "admitted_output_sha1": cand_sha})
    if k == "bytes":
        ok = allowed if allowed is not None else (cand_sha is not None and o["sha"] == cand_sha)
        if not ok:
            fnd.decoder(mode, clause_of(o, declared), declared, base_desc, delta, o, x)
    elif k == "delta-error":
        if st == "ok":
            ctx.drift_event(f"{DEC_SITE[mode]} rejects a delta the reference decoder accepts: blen={blen} delta={delta[:40].hex()}")
    else:
        fnd.decoder(mode, clause_of(o, declared), declared, base_desc, delta, o, x)
    if o.get("rss_kb", 0) > budget_kb(blen, len(delta), produced):
        x = dict(x, rss_kb=o["rss_kb"], budget_kb=budget_kb(blen, len(delta), produced),
                 supplied_bytes=blen + len(delta), output_admitted_by_reference=produced)
        fnd.decoder(mode, f"memory-out-of-proportion(ref={why})", declared, base_desc, delta, o, x)


# =========================================================================== phase C: encoders, round trip
def rt_pairs_from_tlc(ctx):
    cfg = ctx.pick("Delta_rt_q.cfg", "Delta_rt_t.cfg")
    dump = os.path.join(ctx.scratch, "rt.dump")
    res = tlc.run("DeltaRT.tla", cfg, workers=8, timeout=1800, dump_states=dump[:-5], coverage=not ctx.quick)
    ctx.add_tlc(f"DeltaRT/{cfg} (round-trip lemma Decode(b, Encode(b,t)) = t, encoder lemmas)", res)
    pairs, refd = {}, []
    for s in D.read_dump(dump):
        if s["root"]:
            continue
        b, t = bytes(s["b"]), bytes(s["t"])
        pairs[(b, t)] = None
        refd.append((b, t, bytes(s["d"])))
    os.remove(dump)
    return list(pairs), refd


def hypothesis_pairs(ctx, n):
    from hypothesis import HealthCheck, Phase, given, seed, settings
    from hypothesis import strategies as st

    @st.composite
    def pair(draw):
        base = draw(st.one_of(st.binary(max_size=300),
                              st.lists(st.sampled_from([b"a", b"b", b"ab", b"\x00", b"\n", b"line\n"]), max_size=80).map(b"".join)))
        parts = []
        for _ in range(draw(st.integers(0, 6))):
            if base and draw(st.integers(0, 2)):
                a = draw(st.integers(0, len(base)))
                b = draw(st.integers(a, len(base)))
                parts.append(base[a:b])
            else:
                parts.append(draw(st.binary(max_size=150)))
        return base, b"".join(parts)

    out = []

    @seed(ctx.seed)
    @settings(max_examples=n, database=None, deadline=None, phases=[Phase.generate],
              suppress_health_check=list(HealthCheck))
    @given(pair())
    def collect(p):
        out.append(p)

    collect()
    return out


def structured_pairs(ctx):
    """(name, base recipe, target recipe, modes that encode it).  Covers: empty, identical, runs above
    64 KiB that need split copy ops, offsets needing 1, 2, 3 and 4 bytes, inserts above 127 bytes."""
    K = 1024
    P = []

    def add(name, base, target, modes=MODES):
        P.append((name, base, target, tuple(modes)))

    add("empty-empty", [], [])
    add("empty-to-x", [], [["rand", 1, 300]])
    add("x-to-empty", [["rand", 2, 300]], [])
    add("identical-small", [["text", 3, 20]], [["text", 3, 20]])
    add("identical-70k", [["rand", 4, 70 * K]], [["rand", 4, 70 * K]])
    add("identical-200k-text", [["text", 5, 6000]], [["text", 5, 6000]])
    add("insert-300", [["rep", 65, 10]], [["rand", 6, 300]])
    for n in (126, 127, 128, 129, 254, 255, 256, 381, 382):     # literal runs around the 127-byte insert limit
        add(f"insert-{n}", [["rep", 65, 10]], [["rand", 20 + n, n]])
    # common runs of exactly k * 0xFFFF and k * 0x10000 bytes (+-1) that are FOLLOWED by further ops (a run
    # that is the last op hides a bad trailing copy behind the decoders' leniency).  The run is one marker
    # byte plus zeros: difflib anchors it on the marker and extends it in linear time, Myers is linear too.
    run = lambda n: [["hex", "4d"], ["rep", 0, n - 1]]                                  # noqa: E731
    btail, ttail, lit = [["hex", "07" + "62" * 9]], [["hex", "09" + "74" * 11]], [["hex", "3c686561643e"]]
    for n in (65534, 65535, 65536, 65537, 131069, 131070, 131071, 131072, 131073):
        add(f"run-{n}-start", run(n) + btail, run(n) + ttail)                           # run, then a differing tail
        add(f"run-{n}-middle", run(n) + btail, lit + run(n) + ttail)                    # literal head, run, tail
        add(f"run-{n}-offset", [["rep", 0x50, 300]] + run(n) + btail, lit + run(n) + ttail)   # run at base offset 300
    for n in (65535, 131070):                                                           # and as the last op
        add(f"run-{n}-last", run(n) + btail, lit + run(n))
    add("run-70k-zero", [["rep", 0, 70 * K]], [["rep", 0, 70 * K], ["hex", "01"]])
    slow_py = MODES if not ctx.quick else ("rs",)      # SequenceMatcher needs >10 s on these
    add("prefix-140k", [["rand", 7, 140 * K], ["rand", 8, 100]], [["rand", 7, 140 * K], ["rand", 9, 50]], slow_py)
    add("suffix-66k-off1", [["hex", "ff"], ["rand", 10, 66 * K]], [["rand", 10, 66 * K]])
    add("off-2byte", [["rep", 0, 300], ["rand", 11, 200]], [["rand", 11, 200]])
    add("off-3byte", [["rep", 0, 70 * K], ["rand", 12, 200]], [["rand", 12, 200]])
    add("middle-edit-130k", [["rand", 13, 65 * K], ["rand", 14, 10], ["rand", 15, 65 * K]],
        [["rand", 13, 65 * K], ["rand", 16, 12], ["rand", 15, 65 * K]], slow_py)
    add("middle-edit-zero-runs", [["rep", 0, 66 * K], ["rand", 14, 10], ["rep", 1, 66 * K]],
        [["rep", 0, 66 * K], ["rand", 16, 12], ["rep", 1, 66 * K]])
    add("text-edit", [["text", 17, 400]], [["text", 17, 400], ["text", 18, 3]])
    # offsets needing 4 bytes: 16 MiB of zeros, then a tail that is the target (Rust: fast common-suffix
    # path; Python's SequenceMatcher needs ~10 s for it, thorough tier only)
    add("off-4byte", [["rep", 0, (1 << 24) + 5], ["rand", 19, 120]], [["rand", 19, 120]], slow_py)
    return P


def git_blobs(ctx, n):
    """Blob families for C git's encoder: texts with line edits (git only deltifies objects >= 50 bytes
    and only when the delta pays), plus large blobs whose common runs exceed 64 KiB (git then emits
    copy ops of 0x10000 bytes, encoded with size 0)."""
    rng = ctx.rng
    out = []
    for i in range(n):
        lines = D.blob([["text", 1000 + i, rng.randint(4, 200)]]).splitlines(True)
        fam = [b"".join(lines)]
        for _ in range(rng.randint(1, 3)):
            cur = list(lines)
            for _ in range(rng.randint(1, 4)):
                pos = rng.randrange(len(cur) + 1)
                op = rng.randrange(3)
                if op == 0:
                    cur[pos:pos] = [b"new line %d\n" % rng.randrange(1000)] * rng.randint(1, 3)
                elif op == 1 and cur:
                    del cur[pos % len(cur):pos % len(cur) + rng.randint(1, 5)]
                elif cur:
                    cur[pos % len(cur)] = rng.randbytes(rng.randint(1, 40)) + b"\n"
            fam.append(b"".join(cur))
        out.append(fam)
    K = 1024
    big = D.blob([["rand", 77, 200 * K]])
    out.append([big, big[:100 * K] + b"<edit>" + big[100 * K:], big[5:], big + b"tail"])
    z = D.blob([["rep", 0, 70 * K], ["rand", 78, 300]])
    out.append([z, z[:-1] + b"x", b"y" + z])
    return out


def git_encoder(ctx, families):
    """C git as encoder: store the blobs, let pack-objects deltify, read the deltas back.
    -> list of (base bytes, target bytes, delta bytes)."""
    d = ctx.tmpdir("gitenc")
    repo = os.path.join(d, "r.git")
    env = dict(os.environ, GIT_CONFIG_NOSYSTEM="1", HOME=d, GIT_CONFIG_GLOBAL="/dev/null")

    def git(*a, **kw):
        p = subprocess.run(["git", f"--git-dir={repo}", *a], capture_output=True, env=env, **kw)
        if p.returncode != 0:
            raise MachineryError(f"git {' '.join(a)} failed: {p.stderr[-500:]!r}")
        return p.stdout

    subprocess.run(["git", "init", "-q", "--bare", repo], check=True, env=env, capture_output=True)
    files, names, blobs = [], [], []
    for i, fam in enumerate(families):
        for k, data in enumerate(fam):
            p = os.path.join(d, f"{i}_{k}")
            with open(p, "wb") as f:
                f.write(data)
            files.append(p)
            names.append(f"f{i}")
            blobs.append(data)
    shas = git("hash-object", "-w", "--stdin-paths", input="\n".join(files).encode()).decode().split()
    content = dict(zip(shas, blobs))
    lines = [f"{s} {n}" for s, n in zip(shas, names)]
    pack = git("pack-objects", "--stdout", "--window=6", "--depth=10", "--delta-base-offset", "-q",
               input=("\n".join(lines) + "\n").encode())
    ppath = os.path.join(d, "p.pack")
    with open(ppath, "wb") as f:
        f.write(pack)
    p = subprocess.run(["git", "index-pack", ppath], capture_output=True, env=env)
    if p.returncode != 0:
        raise MachineryError(f"git index-pack on git's own pack failed: {p.stderr[-300:]!r}")
    with open(ppath[:-5] + ".idx", "rb") as f:
        idx = subprocess.run(["git", "show-index"], stdin=f, capture_output=True, env=env).stdout.decode()
    by_off = {int(l.split()[0]): l.split()[1] for l in idx.splitlines()}
    out = []
    off = 12
    nobj = int.from_bytes(pack[8:12], "big")
    for _ in range(nobj):
        t, size, base, payload, nxt = D.read_pack_entry(pack, off)
        if t == 6:
            out.append((content[by_off[base[1]]], content[by_off[off]], payload))
        elif t == 7:
            out.append((content[base[1].hex()], content[by_off[off]], payload))
        off = nxt
    shutil.rmtree(d, ignore_errors=True)
    return out


def git_decode_batch(ctx, items):
    """C git as decoder.  items: [(key, base, delta)] -> {key: sha1-of-result-blob hex | None (rejected)}.
    One index-pack for all; when it fails, one index-pack per delta."""
    d = ctx.tmpdir("gitdec")
    env = dict(os.environ, GIT_CONFIG_NOSYSTEM="1", HOME=d, GIT_CONFIG_GLOBAL="/dev/null")

    def attempt(sub, name):
        objs, bidx, entry = [], {}, {}
        for key, base, delta in sub:
            if base not in bidx:
                bidx[base] = len(objs)
                objs.append(("blob", base))
            entry[key] = len(objs)
            objs.append(("ofs_delta", bidx[base], delta))
        data, offs = D.write_pack(objs)
        p = os.path.join(d, name + ".pack")
        with open(p, "wb") as f:
            f.write(data)
        r = subprocess.run(["git", "index-pack", p], capture_output=True, env=env)
        if r.returncode != 0:
            return None
        with open(p[:-5] + ".idx", "rb") as f:
            idx = subprocess.run(["git", "show-index"], stdin=f, capture_output=True, env=env).stdout.decode()
        by_off = {int(l.split()[0]): l.split()[1] for l in idx.splitlines()}
        os.remove(p)
        os.remove(p[:-5] + ".idx")
        return {key: by_off[offs[entry[key]]] for key, _, _ in sub}

    out = {}

    def solve(sub, name):
        if not sub:
            return
        r = attempt(sub, name)
        if r is not None:
            out.update(r)
        elif len(sub) == 1:
            out[sub[0][0]] = None
        else:
            h = len(sub) // 2
            solve(sub[:h], name + "a")
            solve(sub[h:], name + "b")

    solve(items, "p")
    shutil.rmtree(d, ignore_errors=True)
    return out


def parse_verdicts(res):
    out = {}
    for line in res.output.splitlines():
        if line.startswith('"<<\\"VERDICT\\"'):
            v = tlc.tlaval.parse(line.strip()[1:-1].replace('\\"', '"'))
            out[v[1]] = v
    return out


def tlc_traces(ctx, traces, label):
    """-> {tid: verdict tuple}"""
    if not traces:
        return {}
    d = ctx.tmpdir("tr")
    out = {}
    B = 3000
    for i in range(0, len(traces), B):
        chunk = traces[i:i + B]
        path = os.path.join(d, f"t{i}.ndjson")
        with open(path, "w") as f:
            for t in chunk:
                f.write(json.dumps(t, separators=(",", ":")) + "\n")
        res = tlc.run("DeltaTrace.tla", "DeltaTrace.cfg", workers=1, timeout=3000, env={"TRACE_FILE": path},
                      java_opts=["-Xss512m"])
        ctx.add_tlc(f"DeltaTrace[{label}:{i}]", res)
        v = parse_verdicts(res)
        if len(v) != len(chunk):
            raise MachineryError(f"trace validation incomplete ({len(v)}/{len(chunk)} verdicts)\n{res.output[-2000:]}")
        out.update(v)
    shutil.rmtree(d, ignore_errors=True)
    return out


def obs_for_trace(impl, o):
    if o["k"] == "bytes":
        return {"impl": impl, "kind": "bytes", "out": list(bytes.fromhex(o["hex"]))}
    return {"impl": impl, "kind": o["k"], "out": []}


class Rec:
    """One delta produced by an encoder for (base, target)."""
    __slots__ = ("did", "enc", "pid", "brecipe", "trecipe", "delta", "_b", "_t")

    def __init__(self, did, enc, pid, brecipe, trecipe, delta, b=None, t=None):
        self.did, self.enc, self.pid, self.brecipe, self.trecipe, self.delta = did, enc, pid, brecipe, trecipe, delta
        self._b, self._t = b, t

    def bt(self):
        if self._b is None:
            self._b, self._t = D.blob(self.brecipe), D.blob(self.trecipe)
        return self._b, self._t


def phase_roundtrip(ctx, fnd):
    # ---- the pairs
    tlc_pairs, ref_deltas = rt_pairs_from_tlc(ctx)
    hyp = hypothesis_pairs(ctx, ctx.pick(250, 2500))
    struct = structured_pairs(ctx)
    pairs = []      # (pid, base recipe, target recipe, modes, origin)
    for i, (b, t) in enumerate(tlc_pairs):
        pairs.append((f"m{i}", [["hex", b.hex()]], [["hex", t.hex()]], MODES, "tlc"))
    for i, (b, t) in enumerate(hyp):
        pairs.append((f"h{i}", [["hex", b.hex()]], [["hex", t.hex()]], MODES, "hypothesis"))
    for name, b, t, modes in struct:
        pairs.append((f"x-{name}", b, t, modes, "structured"))
    pinfo = {p[0]: p for p in pairs}
    ctx.log(f"roundtrip: {len(pairs)} pairs")
    # ---- real encoders (R: TLC pairs -> code; plus the wider pairs)
    encd = ctx.tmpdir("enc")
    jobs = []
    for m in MODES:
        mine = [{"id": pid, "base": b, "target": t, "iso": origin == "structured"}
                for pid, b, t, modes, origin in pairs if m in modes]
        k = 4
        for i in range(k):
            ch = mine[i::k]
            if not ch:
                continue
            p = os.path.join(encd, f"{m}{i}.ndjson")
            with open(p, "w") as f:
                for c in ch:
                    f.write(json.dumps(c, separators=(",", ":")) + "\n")
            jobs.append((m, p, ch))

    def enc_one(a):
        m, p, ch = a
        j = Job(ctx, m, "encode", path=p)
        res = j.run()
        if res is None:
            p2 = p + ".iso"
            with open(p2, "w") as f:
                for c in ch:
                    f.write(json.dumps(dict(c, iso=True), separators=(",", ":")) + "\n")
            j2 = Job(ctx, m, "encode", path=p2)
            res = j2.run()
            if res is None:
                raise MachineryError(f"C03 encode worker died: {j2.err_tail()}")
        j.cleanup()
        return m, res

    deltas = []
    with cf.ThreadPoolExecutor(max_workers=10) as ex:
        for m, res in ex.map(enc_one, jobs):
            for o in res["obs"]:
                pid, b, t, _, origin = pinfo[o["id"]]
                ctx.count()
                if o["k"] != "bytes":
                    fnd.encoder(m, clause_of(o, None), b, t, len(D.blob(b)), len(D.blob(t)), {"observed": o, "class": origin})
                    continue
                deltas.append(Rec(f"{m}:{pid}", m, pid, b, t, bytes.fromhex(o["hex"])))
    shutil.rmtree(encd, ignore_errors=True)
    ctx.log(f"roundtrip: {len(deltas)} deltas from the dulwich encoders")
    # ---- reference encoder's deltas (spec -> code for the decoders) and C git as encoder
    for i, (b, t, d) in enumerate(ref_deltas):
        deltas.append(Rec(f"ref:{i}", "ref", None, [["hex", b.hex()]], [["hex", t.hex()]], d, b, t))
    if git_available():
        gd = git_encoder(ctx, git_blobs(ctx, ctx.pick(120, 1500)))
        ctx.cov["git_encoder_deltas"] = len(gd)
        for i, (b, t, d) in enumerate(gd):
            deltas.append(Rec(f"git:{i}", "git", None, [["hex", b.hex()]], [["hex", t.hex()]], d, b, t))
    else:
        ctx.assumptions.append("git not available: C git neither as encoder nor as decoder")
    ctx.log(f"roundtrip: {len(deltas)} deltas with reference and git encoders")
    # ---- every decoder on every delta
    dcases = []
    for rec in deltas:
        b, t = rec.bt()
        small = len(b) + len(t) + len(rec.delta) <= FULL_LIMIT
        dcases.append({"id": rec.did, "base": rec.brecipe, "delta": rec.delta.hex(), "iso": len(b) > 4096,
                       "keep_hex": (1 << 16) if small else 0})
    obs = run_case_jobs(ctx, "cases", dcases, 5)
    ctx.log("roundtrip: dulwich decoders done")
    gitres = {}
    if git_available():
        items = [(rec.did, rec.bt()[0], rec.delta) for rec in deltas if rec.enc != "git" and len(rec.delta) >= 4]
        gitres = git_decode_batch(ctx, items)
    ctx.log("roundtrip: git decoder done")
    # ---- TLC judges every execution
    traces = []
    for n, rec in enumerate(deltas, 1):
        b, t = rec.bt()
        d, did = rec.delta, rec.did
        full = len(b) + len(t) + len(d) <= FULL_LIMIT and all("hex" in obs[m][did] or obs[m][did]["k"] != "bytes" for m in MODES)
        ob = []
        if full:
            for m in MODES:
                ob.append(obs_for_trace(m, obs[m][did]))
            if did in gitres:
                g = gitres[did]
                if g is None:
                    ob.append({"impl": "git", "kind": "delta-error", "out": []})
                elif g == D.git_blob_sha(t).hex():
                    ob.append({"impl": "git", "kind": "bytes", "out": list(t)})
                else:
                    ob.append({"impl": "git", "kind": "other-object", "out": []})
        traces.append({"tid": n, "kind": "rt", "blen": len(b), "delta": list(d), "full": full,
                       "base": list(b) if full else [], "target": list(t) if full else [], "obs": ob})
    verdicts = tlc_traces(ctx, traces, "roundtrip")
    ctx.log("roundtrip: TLC verdicts done")
    pairings = {}
    for n, rec in enumerate(deltas, 1):
        b, t = rec.bt()
        d, did, enc = rec.delta, rec.did, rec.enc
        tr = traces[n - 1]
        _, _, st, why, dst, chas, prod, rt, allowed, eq, segs, csegs = verdicts[n]
        declared = D.limbs_to_int(dst)
        ctx.validated()
        if len(t) > 0:
            ctx.nontrivial(("rt", enc, D.sha1(b), D.sha1(t)))
        cand = None
        if not tr["full"]:
            rt = st == "ok" and D.materialise(b, d, segs) == t
            cand = D.sha1(D.materialise(b, d, csegs)) if chas else None
        dx = d.hex() if len(d) < 4096 else {"sha1": D.sha1(d), "len": len(d)}
        # the encoder: the reference decoder must yield the target
        if not rt:
            if enc in ("ref", "git"):
                raise MachineryError(f"reference decoder does not reproduce the target of a {enc} delta: base={b[:40].hex()} delta={d[:60].hex()}")
            fnd.encoder(enc, "roundtrip", rec.brecipe, rec.trecipe, len(b), len(t),
                        {"delta": dx, "decoder": "reference (Delta.tla)", "ref": [st, why], "class": "reference-decoder"})
        # the decoders
        for j, m in enumerate(MODES):
            o = obs[m][did]
            ctx.count()
            ctx.validated()
            pairings[f"{enc}->{m}"] = pairings.get(f"{enc}->{m}", 0) + 1
            if tr["full"]:
                judge_obs(ctx, fnd, m, o, None, declared, len(b), rec.brecipe, d, prod, st, why, {"encoder": enc}, allowed=allowed[j])
                same = eq[j]
            else:
                judge_obs(ctx, fnd, m, o, cand, declared, len(b), rec.brecipe, d, prod, st, why, {"encoder": enc})
                same = o["k"] == "bytes" and o["sha"] == D.sha1(t)
            if rt and not same and o["k"] in ("bytes", "delta-error"):
                # a valid delta that an encoder produced for (base, target) does not decode to the target
                x = {"encoder": enc, "target": rec.trecipe, "expected": {"ref": st, "target_sha1": D.sha1(t)}}
                fnd.decoder(m, "roundtrip", declared, rec.brecipe, d, o, x)
        if did in gitres:
            g = gitres[did]
            ctx.count()
            pairings[f"{enc}->git"] = pairings.get(f"{enc}->git", 0) + 1
            ok = g is not None and g == D.git_blob_sha(t).hex()
            if rt and not ok:
                if enc == "ref":
                    raise MachineryError(f"C git does not decode a reference-encoder delta: base={b.hex()} delta={d.hex()} git={g}")
                fnd.encoder(enc, "roundtrip", rec.brecipe, rec.trecipe, len(b), len(t),
                            {"delta": dx, "decoder": "C git index-pack", "git_result": g, "class": "git-decoder"})
    ctx.cov["pairings"] = pairings
    ctx.cov["roundtrip_pairs"] = {"tlc": len(tlc_pairs), "hypothesis": len(hyp), "structured": len(struct)}
    for rec in deltas:
        if rec.enc in MODES and rec.pid and rec.pid.startswith("h") and 8 < len(rec.delta) < 60:
            b, t = rec.bt()
            ctx.sample({"phase": "roundtrip", "encoder": rec.enc, "base": b.hex(), "target": t.hex(), "delta": rec.delta.hex(),
                        "decoders": {m: obs[m][rec.did]["k"] for m in MODES}, "git": gitres.get(rec.did)}, limit=4)
            break
    return deltas


# =========================================================================== phase D: mutated deltas
def mutate(rng, d: bytes) -> bytes:
    d = bytearray(d)
    for _ in range(rng.choice((1, 1, 1, 2, 3))):
        op = rng.randrange(8)
        pos = rng.randrange(len(d) + 1)
        special = rng.choice((0x00, 0x01, 0x7F, 0x80, 0x81, 0x90, 0xB0, 0xFF, rng.randrange(256)))
        if op == 0 and d:
            d[pos % len(d)] ^= 1 << rng.randrange(8)
        elif op == 1 and d:
            d[pos % len(d)] = special
        elif op == 2:
            d.insert(pos, special)
        elif op == 3 and d:
            del d[pos % len(d)]
        elif op == 4:
            d = d[:pos]
        elif op == 5 and d:
            a = rng.randrange(len(d))
            b = min(len(d), a + rng.randrange(1, 8))
            d[pos:pos] = d[a:b]
        elif op == 6:
            # widen a header varint with continuation bytes
            d[0:0] = bytes([0x80 | rng.randrange(128)] * rng.randrange(1, 11))
        elif op == 7 and len(d) > 2:
            d[1:1] = bytes([0x80 | rng.randrange(128)] * rng.randrange(1, 11))
    return bytes(d)


def phase_mutations(ctx, fnd, deltas):
    pool = [rec for rec in deltas if rec.enc in ("py", "rs", "git") and 4 <= len(rec.delta) <= 200
            and len(rec.bt()[0]) <= 400 and (rec.pid is None or not rec.pid.startswith("m"))]
    if not pool:
        raise MachineryError("no deltas to mutate")
    want = ctx.pick(1500, 20000)
    cases, meta = [], {}
    seen = set()
    tries = 0
    while len(cases) < want and tries < want * 5:
        tries += 1
        rec = pool[ctx.rng.randrange(len(pool))]
        b = rec.bt()[0]
        d = mutate(ctx.rng, rec.delta)
        if (b, d) in seen:
            continue
        seen.add((b, d))
        cid = f"u{len(cases)}"
        cases.append({"id": cid, "base": [["hex", b.hex()]], "delta": d.hex(), "iso": True, "keep_hex": 1 << 16})
        meta[cid] = (b, d)
    obs = run_case_jobs(ctx, "cases", cases, 6)
    traces, tmeta = [], {}
    for n, (cid, (b, d)) in enumerate(meta.items(), 1):
        full = all("hex" in obs[m][cid] or obs[m][cid]["k"] != "bytes" for m in MODES)
        ob = [obs_for_trace(m, obs[m][cid]) for m in MODES] if full else []
        traces.append({"tid": n, "kind": "mut", "blen": len(b), "delta": list(d), "full": full,
                       "base": list(b) if full else [], "target": [], "obs": ob})
        tmeta[n] = cid
    verdicts = tlc_traces(ctx, traces, "mutations")
    accepted = 0
    for n, cid in tmeta.items():
        b, d = meta[cid]
        _, _, st, why, dst, chas, prod, rt, allowed, eq, segs, csegs = verdicts[n]
        declared = D.limbs_to_int(dst)
        tr = traces[n - 1]
        cand = None
        if not tr["full"]:
            cand = D.sha1(D.materialise(b, d, csegs)) if chas else None
        accepted += st == "ok"
        for j, m in enumerate(MODES):
            ctx.count()
            ctx.validated()
            if why not in ("header", "src-size"):
                ctx.nontrivial(("mut", m, D.sha1(b + b"|" + d)))
            judge_obs(ctx, fnd, m, obs[m][cid], cand, declared, len(b), [["hex", b.hex()]], d, prod, st, why,
                      {"origin": "mutation"}, allowed=allowed[j] if tr["full"] else None)
    ctx.cov["mutations"] = {"cases": len(cases), "reference_accepts": accepted}
    b, d = meta["u0"]
    ctx.sample({"phase": "mutation", "base": b.hex(), "delta": d.hex(), "py": obs["py"]["u0"]["k"], "rs": obs["rs"]["u0"]["k"]}, limit=5)


# =========================================================================== phase P: the decoder inside the pack machinery
PACK_SITE = "dulwich/pack.py:DeltaChainIterator._resolve_object"


def phase_pack(ctx, fnd, deltas, states):
    """A sample of valid deltas (real encoders) and of structured bad deltas travels through a real
    pack file and dulwich's DeltaChainIterator (which calls apply_delta and guards empty payloads)."""
    rng = ctx.rng
    valid = [r for r in deltas if r.enc in ("py", "rs", "git") and len(r.bt()[0]) <= 4096 and len(r.delta) <= 600]
    rng.shuffle(valid)
    cases, meta = [], {}
    for r in valid[:ctx.pick(150, 1500)]:
        cid = f"p{len(cases)}"
        t = 3 if len(r.bt()[1]) == 0 else rng.choice((1, 2, 3, 4))
        cases.append({"id": cid, "type": t, "base": r.brecipe, "delta": r.delta.hex(), "iso": False})
        meta[cid] = (r.bt()[0], r.delta, r.bt()[1], t)
    bad = [s for s in states if s["blen"] <= 300 and len(s["delta"]) <= 600
           and (D.limbs_to_int(s["dst"]) or 0) < (1 << 24)]
    rng.shuffle(bad)
    for s in bad[:ctx.pick(250, 2500)]:
        cid = f"p{len(cases)}"
        t = rng.choice((1, 2, 3, 4))
        cases.append({"id": cid, "type": t, "blen": s["blen"], "delta": s["delta"].hex(), "iso": False})
        meta[cid] = (D.pattern_base(s["blen"]), s["delta"], None, t)
    obs = run_case_jobs(ctx, "pack", cases, 3)
    traces = []
    order = list(meta)
    for n, cid in enumerate(order, 1):
        b, d, t, _ = meta[cid]
        full = all("hex" in obs[m][cid] or obs[m][cid]["k"] != "bytes" for m in MODES)
        traces.append({"tid": n, "kind": "rt" if t is not None else "mut", "blen": len(b), "delta": list(d), "full": full,
                       "base": list(b) if full else [], "target": list(t) if full and t is not None else [],
                       "obs": [obs_for_trace(m, obs[m][cid]) for m in MODES] if full else []})
    verdicts = tlc_traces(ctx, traces, "pack")
    guard = 0
    for n, cid in enumerate(order, 1):
        b, d, t, typ = meta[cid]
        _, _, st, why, dst, chas, prod, rt, allowed, eq, segs, csegs = verdicts[n]
        declared = D.limbs_to_int(dst)
        tr = traces[n - 1]
        cand = None if tr["full"] or not chas else D.sha1(D.materialise(b, d, csegs))
        for j, m in enumerate(MODES):
            o = obs[m][cid]
            ctx.count()
            ctx.validated()
            ctx.nontrivial(("pack", m, typ, D.sha1(b + b"|" + d)))
            x = {"via": "two-object pack, UnpackedObjectIterator", "type_num": typ}
            k = o["k"]
            empty_guard = k == "delta-error" and typ != 3 and st == "ok" and declared == 0
            guard += empty_guard
            ok_bytes = k == "bytes" and (allowed[j] if tr["full"] else (cand is not None and o["sha"] == cand))
            if k == "bytes" and not o.get("base_ok", True):
                ok_bytes = False
            if k == "bytes" and not ok_bytes or k not in ("bytes", "delta-error"):
                sig = f"{PACK_SITE}[{m}]|{clause_of(o, declared)}|declared={D.bucket(declared)}"
                fnd.add(sig, f"{m}: delta resolved through a pack file: {clause_of(o, declared)}",
                        {"kind": "pack", "mode": m, "type": typ, "base": [["hex", b.hex()]], "delta": d.hex(), "observed": o, **x}, len(d))
            elif t is not None and rt and not empty_guard and not (k == "bytes" and (eq[j] if tr["full"] else o["sha"] == D.sha1(t))):
                sig = f"{PACK_SITE}[{m}]|roundtrip|declared={D.bucket(declared)}"
                fnd.add(sig, f"{m}: a valid encoder-produced delta inside a pack does not resolve to the target ({k})",
                        {"kind": "pack", "mode": m, "type": typ, "base": [["hex", b.hex()]], "delta": d.hex(), "observed": o, **x}, len(d))
    ctx.cov["pack_path"] = {"cases": len(cases), "empty_payload_guard_hits": guard}


# =========================================================================== phase W: the encoder inside the pack writer
WRITER_SITE = "dulwich/pack.py:deltas_from_sorted_objects"


def blob_families(ctx, n):
    """Families of 3-5 related blobs: versions of one ancestor that share prefixes / middles of different
    length, so that several candidate bases in a window produce deltas of different size."""
    rng = ctx.rng
    fams = []
    for i in range(n):
        anc = rng.randbytes(rng.randint(120, 260)) if i % 2 else D.blob([["text", 500 + i, rng.randint(5, 9)]])[:260]
        fam = {anc}
        for _ in range(rng.randint(2, 4)):
            k = rng.randrange(4)
            cut = rng.randint(len(anc) // 4, len(anc))
            if k == 0:
                v = anc[:cut] + rng.randbytes(rng.randint(1, 60))                   # shares a prefix
            elif k == 1:
                v = rng.randbytes(rng.randint(1, 30)) + anc[len(anc) - cut:]         # shares a suffix
            elif k == 2:
                a = rng.randint(0, len(anc) // 2)
                v = anc[:a] + rng.randbytes(rng.randint(1, 20)) + anc[a + rng.randint(0, 40):]   # edit in the middle
            else:
                v = anc[:cut] + b"tail-%d" % rng.randrange(100)                      # nearly a prefix
            fam.add(v)
        if len(fam) >= 3:
            fams.append(sorted(fam, key=lambda b: (-len(b), b)))
    # the documented circumstance: Z close to X, less close to Y, sizes X > Y > Z
    r1, r2 = rng.randbytes(4000), rng.randbytes(2000)
    fams.append([r1, r1[:1500] + r2, r1[:3000] + b"tail-z"])
    return fams


def phase_deltify(ctx, fnd):
    import itertools
    fams = blob_families(ctx, ctx.pick(24, 300))
    cases, meta = [], {}
    for fi, fam in enumerate(fams):
        perms = list(itertools.permutations(range(len(fam))))
        ctx.rng.shuffle(perms)
        perms = [tuple(range(len(fam)))] + perms[:ctx.pick(5, 11)]
        for pi, perm in enumerate(perms):
            order = [fam[j] for j in perm]
            for via, w in (("sorted", None), ("sorted", 2)) + ((("deltify", None), ("write", None)) if pi < 2 else ()):
                cid = f"w{len(cases)}"
                cases.append({"id": cid, "blobs": [[["hex", b.hex()]] for b in order], "window": w, "via": via})
                meta[cid] = (order, via, w)
    obs = run_case_jobs(ctx, "deltify", cases, 3)
    # recorded (base, delta, object) triples -> one trace per distinct triple and mode
    triples = {}

    def bad(m, clause, order, via, w, extra):
        fnd.add(f"{WRITER_SITE}[{m}]|{clause}|via={via}", f"{m}: pack writer with deltify ({via}): {clause}",
                {"kind": "deltify", "mode": m, "blobs": [[["hex", b.hex()]] for b in order], "window": w, "via": via, **extra},
                sum(map(len, order)))

    for m in MODES:
        for cid, (order, via, w) in meta.items():
            o = obs[m][cid]
            ctx.count()
            by_sha = {D.git_blob_sha(b).hex(): b for b in order}
            if o["k"] in ("exception", "panic"):
                bad(m, clause_of(o, None), order, via, w, {"observed": o})
                continue
            if o["k"] == "pack":
                pack = bytes.fromhex(o["pack"])
                at = {off: sha for sha, off in o["offsets"].items()}
                entries = []
                try:
                    off = 12
                    for _ in range(int.from_bytes(pack[8:12], "big")):
                        start = off
                        t, size, base, payload, off = D.read_pack_entry(pack, off)
                        bsha = None if base is None else (at.get(base[1]) if base[0] == "ofs" else base[1].hex())
                        entries.append([at.get(start), bsha, payload.hex(), len(payload)] if base is not None or t == 3
                                       else [at.get(start), "?", "", 0])
                except Exception as e:  # noqa: BLE001 - an unreadable pack is an observation about the writer
                    bad(m, "unreadable-pack", order, via, w, {"error": repr(e)[:200]})
                    continue
            else:
                entries = o["entries"]
            if sorted(e[0] or "" for e in entries) != sorted(by_sha):
                bad(m, "objects-missing-or-renamed", order, via, w, {"entries": [e[:2] for e in entries]})
                continue
            for sha, bsha, payload, dlen in entries:
                payload = bytes.fromhex(payload)
                tgt = by_sha[sha]
                if bsha is None:
                    if payload != tgt:
                        bad(m, "full-entry-differs-from-object", order, via, w, {"object": sha})
                    continue
                if bsha not in by_sha or dlen != len(payload):
                    bad(m, "roundtrip", order, via, w, {"object": sha, "base": bsha, "why": "unknown base / recorded length differs"})
                    continue
                triples.setdefault((m, by_sha[bsha], tgt, payload), (order, via, w))
    traces, keys = [], list(triples)
    for n, (m, b, t, d) in enumerate(keys, 1):
        full = len(b) + len(t) + len(d) <= FULL_LIMIT
        traces.append({"tid": n, "kind": "rt", "blen": len(b), "delta": list(d), "full": full,
                       "base": list(b) if full else [], "target": list(t) if full else [], "obs": []})
    verdicts = tlc_traces(ctx, traces, "deltify")
    for n, key in enumerate(keys, 1):
        m, b, t, d = key
        order, via, w = triples[key]
        _, _, st, why, dst, chas, prod, rt, allowed, eq, segs, csegs = verdicts[n]
        if not traces[n - 1]["full"]:
            rt = st == "ok" and D.materialise(b, d, segs) == t
        ctx.validated()
        ctx.nontrivial(("deltify", m, D.sha1(b), D.sha1(t), D.sha1(d)))
        if not rt:
            bad(m, "roundtrip", order, via, w, {"object": D.git_blob_sha(t).hex(), "base": D.git_blob_sha(b).hex(),
                                                  "delta": d.hex() if len(d) < 2000 else D.sha1(d), "ref": [st, why]})
    # C git reads the packs the deltifying writer produced
    ngit = 0
    if git_available():
        d0 = ctx.tmpdir("wgit")
        env = dict(os.environ, GIT_CONFIG_NOSYSTEM="1", HOME=d0, GIT_CONFIG_GLOBAL="/dev/null")
        for m in MODES:
            for cid, (order, via, w) in meta.items():
                o = obs[m][cid]
                if o["k"] != "pack":
                    continue
                p = os.path.join(d0, "w.pack")
                with open(p, "wb") as f:
                    f.write(bytes.fromhex(o["pack"]))
                r = subprocess.run(["git", "index-pack", p], capture_output=True, env=env)
                ngit += 1
                got = set()
                if r.returncode == 0:
                    with open(p[:-5] + ".idx", "rb") as f:
                        got = {l.split()[1] for l in subprocess.run(["git", "show-index"], stdin=f, capture_output=True, env=env).stdout.decode().splitlines()}
                if r.returncode != 0 or got != {D.git_blob_sha(b).hex() for b in order}:
                    bad(m, "roundtrip", order, via, w, {"decoder": "C git index-pack", "git": r.stderr.decode("utf-8", "replace")[-200:]})
        shutil.rmtree(d0, ignore_errors=True)
    ctx.cov["pack_writer_deltify"] = {"families": len(fams), "cases": len(cases), "distinct_recorded_deltas": len(keys),
                                      "packs_read_by_git": ngit}
    if keys:
        m, b, t, d = keys[0]
        ctx.sample({"phase": "deltify", "impl": m, "base": b.hex()[:80], "object": t.hex()[:80], "recorded_delta": d.hex()[:80]}, limit=6)


# =========================================================================== phase E: encoder primitives
def phase_prims(ctx, fnd):
    offs = [0, 1, 0x7F, 0xFF, 0x100, 0x101, 0xFF00, 0xFFFF, 0x10000, 0x10001, 0xFF0000, 0xFFFFFF, 0x1000000,
            0x1000001, 0x1234567, 0xFF000FF, 0xFFFFFFF]
    lens = [1, 2, 0x7F, 0x80, 0xFF, 0x100, 0x101, 0x1234, 0xFF00, 0xFFFF]
    sizes = [0, 1, 127, 128, 129, 255, 256, 16383, 16384, (1 << 21) - 1, 1 << 21, (1 << 28) - 1, 1 << 28, (1 << 31) - 1,
             1 << 31, (1 << 32) - 1, 1 << 32, (1 << 35) + 5, (1 << 56) - 1, 1 << 56, (1 << 63) - 1, 1 << 63]
    j = Job(ctx, "py", "prims", ops=[[o, n] for o in offs for n in lens], sizes=[str(s) for s in sizes])
    res = j.run()
    if res is None:
        raise MachineryError(f"prims worker died: {j.err_tail()}")
    j.cleanup()
    traces, meta = [], {}
    for r in res["ops"]:
        tid = len(traces) + 1
        ctx.count()
        if "exc" in r:
            fnd.add(f"dulwich/pack.py:_encode_copy_operation|fails-with-{r['exc']}|", f"_encode_copy_operation({r['off']}, {r['n']}) raised {r['exc']}",
                    {"kind": "prim", "op": [r["off"], r["n"]]}, 0)
            continue
        traces.append({"tid": tid, "kind": "op", "off": r["off"], "n": r["n"], "bytes": list(bytes.fromhex(r["hex"]))})
        meta[tid] = ("op", r)
    for r in res["sizes"]:
        tid = len(traces) + 1
        ctx.count()
        if "exc" in r:
            fnd.add(f"dulwich/pack.py:_delta_encode_size|fails-with-{r['exc']}|", f"_delta_encode_size({r['n']}) raised {r['exc']}",
                    {"kind": "prim", "size": r["n"]}, 0)
            continue
        traces.append({"tid": tid, "kind": "size", "nd": D.int_to_limbs(int(r["n"])), "bytes": list(bytes.fromhex(r["hex"]))})
        meta[tid] = ("size", r)
    for i, t in enumerate(traces, 1):
        if t["tid"] != i:
            meta[i] = meta.pop(t["tid"])
            t["tid"] = i
    # negative controls of the binding: observations that contradict the statement must be refused by
    # DeltaTrace (a trace specification that accepts them would make the whole check vacuous)
    n0 = len(traces)
    ab, good, tgt = [97, 98], [2, 3, 0x90, 2, 1, 120], [97, 98, 120]
    ctl = [
        ("corrupted output byte", {"kind": "rt", "delta": good, "obs": [{"impl": "x", "kind": "bytes", "out": [97, 99, 120]}]}),
        ("output one byte short", {"kind": "rt", "delta": good, "obs": [{"impl": "x", "kind": "bytes", "out": [97, 98]}]}),
        ("process killed", {"kind": "mut", "delta": good, "obs": [{"impl": "x", "kind": "killed", "out": []}]}),
        ("foreign exception", {"kind": "mut", "delta": good, "obs": [{"impl": "x", "kind": "exception", "out": []}]}),
        ("output for a delta that declares 2^64", {"kind": "mut", "delta": [2] + [0x80] * 9 + [2], "obs": [{"impl": "x", "kind": "bytes", "out": []}]}),
        ("truncated insert accepted", {"kind": "mut", "delta": [2, 1, 5, 120], "obs": [{"impl": "x", "kind": "bytes", "out": [120]}]}),
        ("wrong op bytes", {"kind": "op", "off": 256, "n": 5, "bytes": [0x91, 1, 5]}),
        ("wrong size bytes", {"kind": "size", "nd": [0, 1], "bytes": [0x80, 0x02]}),
    ]
    for name, t in ctl:
        t = dict(t, tid=len(traces) + 1)
        if t["kind"] in ("rt", "mut"):
            t.update(blen=2, full=True, base=ab, target=tgt if t["kind"] == "rt" else [])
        traces.append(t)
    v = tlc_traces(ctx, traces, "prims+controls")
    for i, (name, t) in enumerate(ctl, n0 + 1):
        vv = v[i]
        refused = (not vv[3]) if t["kind"] in ("op", "size") else (not vv[8][0] or (t["kind"] == "rt" and not vv[9][0]))
        if not refused:
            raise MachineryError(f"negative control '{name}' was accepted by DeltaTrace: {vv}")
    ctx.cov["binding_negative_controls_refused"] = len(ctl)
    traces = traces[:n0]
    for tid, (kind, r) in meta.items():
        ctx.validated()
        ctx.nontrivial(("prim", kind, json.dumps(r, sort_keys=True)))
        if not v[tid][3]:
            if kind == "op":
                fnd.add("dulwich/pack.py:_encode_copy_operation|roundtrip|", f"_encode_copy_operation({r['off']}, {r['n']}) = {r['hex']} does not parse back to that copy",
                        {"kind": "prim", "op": [r["off"], r["n"]], "bytes": r["hex"]}, r["off"] + r["n"])
            else:
                fnd.add("dulwich/pack.py:_delta_encode_size|roundtrip|", f"_delta_encode_size({r['n']}) = {r['hex']} does not parse back to that size",
                        {"kind": "prim", "size": r["n"], "bytes": r["hex"]}, int(r["n"]).bit_length())


# =========================================================================== phase G: C git as third opinion on the spec
def varint_lens(d: bytes):
    out, i = [], 0
    for _ in range(2):
        n = 0
        while True:
            if i >= len(d):
                return None
            n += 1
            c = d[i]
            i += 1
            if not c & 0x80:
                break
        out.append(n)
    return out


def phase_git_opinion(ctx, struct_states):
    if not git_available():
        return
    # outside git's quirks: delta >= 4 bytes (DELTA_SIZE_MIN), complete headers of <= 9 bytes each
    # (no 64-bit shift overflow), bases below 1 MiB (cost)
    cand = []
    for s in struct_states:
        d = bytes(s["delta"])
        vl = varint_lens(d)
        if len(d) < 4 or vl is None or max(vl) > 9 or s["blen"] > (1 << 20) or len(d) > 4000:
            continue
        cand.append(s)
    ctx.rng.shuffle(cand)
    acc = [s for s in cand if s["st"] == "ok"][:ctx.pick(400, 3000)]
    rej = [s for s in cand if s["st"] != "ok"][:ctx.pick(150, 1200)]
    items = [((s["blen"], bytes(s["delta"])), D.pattern_base(s["blen"]), bytes(s["delta"])) for s in acc]
    res = git_decode_batch(ctx, items)
    for s in acc:
        d = bytes(s["delta"])
        want = D.git_blob_sha(D.materialise(D.pattern_base(s["blen"]), d, s["segs"])).hex()
        if res.get((s["blen"], d)) != want:
            raise MachineryError(f"reference decoder accepts, C git says {res.get((s['blen'], d))}: blen={s['blen']} delta={d.hex()}")

    def one(s):
        d = bytes(s["delta"])
        return s, git_decode_batch(ctx, [("k", D.pattern_base(s["blen"]), d)])["k"]

    with cf.ThreadPoolExecutor(max_workers=8) as ex:
        for s, g in ex.map(one, rej):
            if g is not None:
                raise MachineryError(f"reference decoder rejects ({s['why']}), C git accepts: blen={s['blen']} delta={bytes(s['delta']).hex()}")
    ctx.cov["git_third_opinion"] = {"reference_accepts_git_agrees": len(acc), "reference_rejects_git_agrees": len(rej)}


# =========================================================================== entry
def run(ctx):
    rustext.build()
    fnd = Findings(ctx)
    n_enum = phase_enum(ctx, fnd)
    ctx.log(f"enum done: {n_enum} states x 2 implementations")
    states = phase_struct(ctx, fnd)
    ctx.log(f"struct done: {len(states)} cases x 2 implementations")
    phase_git_opinion(ctx, states)
    ctx.log("git third opinion done")
    deltas = phase_roundtrip(ctx, fnd)
    ctx.log(f"roundtrip done: {len(deltas)} deltas")
    phase_mutations(ctx, fnd, deltas)
    ctx.log("mutations done")
    phase_pack(ctx, fnd, deltas, states)
    ctx.log("pack path done")
    phase_deltify(ctx, fnd)
    ctx.log("pack writer (deltify) done")
    phase_prims(ctx, fnd)
    fnd.flush()
    ctx.cov["rule"] = (
        "decoder cases: every state TLC enumerates (DeltaEnum: byte strings over the 12-byte opcode alphabet x 3 bases; "
        "DeltaStruct: op-template families) plus rng mutations of real encoder output, each run on pure-Python and Rust "
        "apply_delta; encoder cases: (base, target) pairs from DeltaRT, hypothesis and a structured list, encoded by "
        "py / rs / C git, decoded by py / rs / C git / the reference. A decoder case is non-trivial when the reference "
        "decoder gets past the two size headers (reaches the op loop); an encoder case when the target is non-empty; "
        "distinct = distinct (implementation, base, delta) resp. (encoder, base, target)")
    ctx.assumptions += [
        "children run with RLIMIT_AS = 2 GiB: an allocation beyond it fails (as under ulimit -v / a container limit) and must surface as the delta error",
        f"memory clause: growth of ru_maxrss over one apply_delta call <= {SLACK_KB} KiB + {KMEM} x (|base| + |delta| + output the reference decoder admits) ",
        "C git 2.39.5 refuses deltas shorter than 4 bytes (DELTA_SIZE_MIN; only deltas to an empty target are that short, git never creates them): such deltas are not offered to git",
        "SHA-1 equality stands for byte equality for outputs above 512 bytes and for git's results",
        "Rust extension = release profile built from the working tree by harness/rustext.py",
    ]
    return ctx.finish(exhaustive=False)


def replay(ctx, path):
    with open(path) as f:
        obj = json.load(f)
    def short(v):
        if isinstance(v, str) and len(v) > 300:
            return v[:200] + f"...({len(v)} chars)"
        if isinstance(v, list):
            return [short(x) for x in v]
        if isinstance(v, dict):
            return {k: short(x) for k, x in v.items()}
        return v

    print(json.dumps(short(obj), indent=1))
    rustext.build()
    ctx.known = []
    fnd = Findings(ctx)
    kind = obj.get("kind")
    if kind == "decode":
        base_r = obj["base"]
        if base_r and base_r[0] == "pat":
            base = D.pattern_base(base_r[1])
            case = {"id": "r", "blen": base_r[1], "delta": obj["delta"], "iso": True, "keep_hex": 1 << 16}
        else:
            base = D.blob(base_r if base_r and isinstance(base_r[0], list) else [base_r])
            case = {"id": "r", "base": [["hex", base.hex()]], "delta": obj["delta"], "iso": True, "keep_hex": 1 << 16}
        d = bytes.fromhex(obj["delta"])
        mode = obj["mode"]
        obs = run_case_jobs(ctx, "cases", [case], 1)
        for m in MODES:
            print(f"observed {m}: { {k: v for k, v in obs[m]['r'].items() if k != 'hex'} }")
        full = len(base) + len(d) <= FULL_LIMIT and all("hex" in obs[m]["r"] or obs[m]["r"]["k"] != "bytes" for m in MODES)
        tr = {"tid": 1, "kind": "mut", "blen": len(base), "delta": list(d), "full": full, "base": list(base) if full else [],
              "target": [], "obs": [obs_for_trace(m, obs[m]["r"]) for m in MODES] if full else []}
        v = tlc_traces(ctx, [tr], "replay")[1]
        _, _, st, why, dst, chas, prod, rt, allowed, eq, segs, csegs = v
        declared = D.limbs_to_int(dst)
        print(f"reference decoder: {st} ({why}); declared target size {declared}; postcondition admits an output: {chas}")
        cand = None if full or not chas else D.sha1(D.materialise(base, d, csegs))
        for j, m in enumerate(MODES):
            if m != mode:
                continue
            o = obs[m]["r"]
            judge_obs(ctx, fnd, m, o, cand, declared, len(base), base_r, d, prod, st, why, allowed=allowed[j] if full else None)
            if obj.get("clause") == "roundtrip" and obj.get("expected", {}).get("target_sha1"):
                if not (o["k"] == "bytes" and o["sha"] == obj["expected"]["target_sha1"]):
                    fnd.decoder(m, "roundtrip", declared, base_r, d, o)
    elif kind == "encode":
        base, target = D.blob(obj["base"]), D.blob(obj["target"])
        mode = obj["mode"]
        d0 = ctx.tmpdir("re")
        p = os.path.join(d0, "e.ndjson")
        with open(p, "w") as f:
            f.write(json.dumps({"id": "r", "base": obj["base"], "target": obj["target"], "iso": True}) + "\n")
        res = Job(ctx, mode, "encode", path=p).run()
        o = res["obs"][0]
        print(f"observed {mode} create_delta: { {k: (v if k != 'hex' else v[:200]) for k, v in o.items()} }")
        if o["k"] != "bytes":
            fnd.encoder(mode, clause_of(o, None), obj["base"], obj["target"], len(base), len(target), {"class": ""})
        else:
            d = bytes.fromhex(o["hex"])
            tr = {"tid": 1, "kind": "rt", "blen": len(base), "delta": list(d), "full": False, "base": [], "target": [], "obs": []}
            v = tlc_traces(ctx, [tr], "replay")[1]
            ok = v[2] == "ok" and D.materialise(base, d, v[10]) == target
            print(f"reference decoder on that delta: {v[2]} ({v[3]}); equals target: {ok}")
            if not ok:
                fnd.encoder(mode, "roundtrip", obj["base"], obj["target"], len(base), len(target), {"class": "reference-decoder"})
            if obj.get("decoder") == "C git index-pack" and git_available() and len(d) >= 4:
                g = git_decode_batch(ctx, [("k", base, d)])["k"]
                print(f"C git: {g}; target blob {D.git_blob_sha(target).hex()}")
                if g != D.git_blob_sha(target).hex():
                    fnd.encoder(mode, "roundtrip", obj["base"], obj["target"], len(base), len(target), {"class": "git-decoder"})
    elif kind == "pack":
        b, d, mode = D.blob(obj["base"]), bytes.fromhex(obj["delta"]), obj["mode"]
        case = {"id": "r", "type": obj["type"], "base": obj["base"], "delta": obj["delta"], "iso": True}
        obs = run_case_jobs(ctx, "pack", [case], 1)
        for m in MODES:
            print(f"observed {m} (through a pack file): { {k: v for k, v in obs[m]['r'].items() if k != 'hex'} }")
        full = all("hex" in obs[m]["r"] or obs[m]["r"]["k"] != "bytes" for m in MODES)
        tr = {"tid": 1, "kind": "mut", "blen": len(b), "delta": list(d), "full": full, "base": list(b) if full else [],
              "target": [], "obs": [obs_for_trace(m, obs[m]["r"]) for m in MODES] if full else []}
        v = tlc_traces(ctx, [tr], "replay")[1]
        _, _, st, why, dst, chas, prod, rt, allowed, eq, segs, csegs = v
        declared = D.limbs_to_int(dst)
        print(f"reference decoder: {st} ({why}); declared target size {declared}; postcondition admits an output: {chas}")
        o = obs[mode]["r"]
        j = MODES.index(mode)
        cand = D.materialise(b, d, csegs) if chas and not full else None
        good = o["k"] == "delta-error" or (o["k"] == "bytes" and (allowed[j] if full else (cand is not None and o["sha"] == D.sha1(cand))))
        if "roundtrip" in obj.get("signature", "") and o["k"] != "bytes":
            good = False
        if not good:
            fnd.add(obj.get("signature", "pack"), f"{mode}: {clause_of(o, declared)} through a pack file", {"kind": "pack"}, 0)
    elif kind == "deltify":
        case = {"id": "r", "blobs": obj["blobs"], "window": obj.get("window"), "via": obj["via"]}
        o = run_case_jobs(ctx, "deltify", [case], 1)[obj["mode"]]["r"]
        order = [D.blob(r) for r in obj["blobs"]]
        by_sha = {D.git_blob_sha(b).hex(): b for b in order}
        print(f"observed {obj['mode']} ({obj['via']}): {o['k']}")
        entries = o.get("entries")
        if o["k"] == "pack":
            pack = bytes.fromhex(o["pack"])
            at = {off: sha for sha, off in o["offsets"].items()}
            entries, off = [], 12
            for _ in range(int.from_bytes(pack[8:12], "big")):
                start = off
                t, size, base, payload, off = D.read_pack_entry(pack, off)
                entries.append([at.get(start), None if base is None else (at.get(base[1]) if base[0] == "ofs" else base[1].hex()), payload.hex(), len(payload)])
        traces, info = [], []
        for sha, bsha, payload, dlen in entries or []:
            print(f"  object {sha} base {bsha} payload {dlen} bytes")
            if bsha and bsha in by_sha and sha in by_sha:
                traces.append({"tid": len(traces) + 1, "kind": "rt", "blen": len(by_sha[bsha]), "delta": list(bytes.fromhex(payload)),
                               "full": False, "base": [], "target": [], "obs": []})
                info.append((sha, bsha, bytes.fromhex(payload)))
        v = tlc_traces(ctx, traces, "replay")
        for n, (sha, bsha, d) in enumerate(info, 1):
            ok = v[n][2] == "ok" and D.materialise(by_sha[bsha], d, v[n][10]) == by_sha[sha]
            print(f"  reference decoder: apply(recorded delta, {bsha[:8]}) == {sha[:8]}: {ok} ({v[n][2]}/{v[n][3]})")
            if not ok:
                fnd.add(obj.get("signature", "deltify"), "recorded (base, delta) does not rebuild the object", {"kind": "deltify"}, 0)
        if not entries:
            fnd.add(obj.get("signature", "deltify"), f"writer failed: {o}", {"kind": "deltify"}, 0)
    elif kind == "prim":
        j = Job(ctx, "py", "prims", ops=[obj["op"]] if "op" in obj else [], sizes=[obj["size"]] if "size" in obj else [])
        res = j.run()
        print(json.dumps({k: res[k] for k in ("ops", "sizes")}))
        traces = []
        for r in res["ops"]:
            if "hex" in r:
                traces.append({"tid": len(traces) + 1, "kind": "op", "off": r["off"], "n": r["n"], "bytes": list(bytes.fromhex(r["hex"]))})
        for r in res["sizes"]:
            if "hex" in r:
                traces.append({"tid": len(traces) + 1, "kind": "size", "nd": D.int_to_limbs(int(r["n"])), "bytes": list(bytes.fromhex(r["hex"]))})
        v = tlc_traces(ctx, traces, "replay")
        bad = [t for t in traces if not v[t["tid"]][3]] or ([1] if not traces else [])
        print(f"TLC: parses back to the same value: {not bad}")
        if bad:
            fnd.add(obj.get("signature", "prim"), "encoder primitive does not round-trip", {"kind": "prim"}, 0)
    else:
        print("nothing to re-execute for this record")
    n = len(fnd.best)
    for sig in fnd.best:
        print(f"REPRODUCED {sig}: {fnd.best[sig][1]}")
    if not n:
        print("not reproduced on the current tree")
    return 1 if n else 0

"""C20 -- configuration files round-trip and mean the same to dulwich and git.

Spec: specs/Config.tla (GitRead / GitWrite / DulRead / DulWrite and the property), with
  ConfigCases.tla  enumeration of case spaces (values, subsections, names, hand-written files),
  ConfigOps.tla    set/add/remove/rewrite histories of one ConfigFile object,
  ConfigTrace.tla  validation of recorded real executions.
Binding:
  R  every case TLC enumerates is executed on the real dulwich writer/reader and the real git
     binary (dulwich writes -> dulwich reads, git reads; git writes -> dulwich reads, git reads);
     the model's bytes/readings are compared with the real ones (difference = drift for dulwich,
     machinery failure for git: the git automaton is validated first, on hand-written files where
     dulwich is not involved); every transition of the ConfigOps state graph is replayed on a real
     ConfigFile object;
  T  executions on inputs TLC does not enumerate (every byte value, random configurations with
     several sections / multi-valued keys, every ConfigOps state incl. git-driven histories) are
     recorded as ndjson and judged by TLC against ConfigTrace.
A VIOLATION is raised only from what the real code returned (a value, key, subsection or order that
differs after a round trip / between dulwich and git), never from the model.
"""
from __future__ import annotations

import concurrent.futures as cf
import hashlib
import json
import os
import re
import shutil

from .. import c20_real as R
from .. import tlc
from ..core import MachineryError

VARIANT_KEYS = ("QuoteSemi", "CrRaw", "QuoteAnySpace", "ValueStripGit", "HdrEscAware")
ASIS = dict.fromkeys(VARIANT_KEYS, False)
FIXED = dict(ASIS, QuoteSemi=True, CrRaw=True, ValueStripGit=True, HdrEscAware=True)
CLAUSES = ("RoundTrip", "InteropDG", "InteropGD")
SITE = {"val": "dulwich/config.py:_format_string+_parse_string",
        "sub": "dulwich/config.py:_escape_subsection+_parse_section_header_line",
        "name": "dulwich/config.py:ConfigFile.write_to_file+from_file",
        "cfg": "dulwich/config.py:ConfigFile.write_to_file+from_file"}
KIND = {"val": "value", "sub": "subsection", "name": "name"}
SPECIAL = frozenset(b' \t"\\#;\n\r\x0b\x0c')


def tb(v):
    return "TRUE" if v else "FALSE"


def consts(variant, **extra):
    c = {k: tb(variant[k]) for k in VARIANT_KEYS}
    c.update(extra)
    return c


def sec(name, hs, sub, items):
    return {"sec": name, "hs": hs, "sub": sub, "items": list(items)}


def cfg_of(space, x: bytes):
    """mirror of ConfigCases!CfgOf"""
    if space == "val":
        return [sec(b"s", False, b"", [(b"k", x)])]
    if space == "sub":
        return [sec(b"s", True, x, [(b"k", b"v")])]
    if space == "name":
        return [sec(x, False, b"", [(b"k" + x, b"v")])]
    raise KeyError(space)


def cfg_hex(cfg):
    return [{"sec": s["sec"].hex(), "hs": s["hs"], "sub": s["sub"].hex(), "items": [[k.hex(), v.hex()] for k, v in s["items"]]} for s in cfg]


def cfg_unhex(c):
    return [sec(bytes.fromhex(s["sec"]), s["hs"], bytes.fromhex(s["sub"]), [(bytes.fromhex(k), bytes.fromhex(v)) for k, v in s["items"]]) for s in c]


def cfg_show(cfg):
    return "; ".join(f"[{s['sec']!r}{' ' + repr(s['sub']) if s['hs'] else ''}] " + ", ".join(f"{k!r}={v!r}" for k, v in s["items"]) for s in cfg)


# --------------------------------------------------------------------------- which declared variant is the tree?
def probe_variant():
    """Config.tla declares variants of the writer/reader (constants, all FALSE = dulwich 671b511).  The
    model that is bound to the tree is the one whose five probe behaviours match the real code (public
    API only).  The property verdicts never depend on this choice; it decides what counts as drift."""
    def w(v):
        return R.dul_write([sec(b"s", False, b"", [(b"k", v)])])

    v = dict(ASIS)
    try:
        v["QuoteSemi"] = b'"a;b"' in w(b"a;b")
        v["CrRaw"] = b"\r" in w(b"a\rb")
        v["QuoteAnySpace"] = b'"\x0ba"' in w(b"\x0ba")
        ok, c, _ = R.dul_read(b"[s]\n\tk = \x0ba\n")
        v["ValueStripGit"] = bool(ok and c and c[0]["items"] and c[0]["items"][0][1] == b"\x0ba")
        ok, c, _ = R.dul_read(b'[s "a\\"#b"]\n\tk = v\n')
        v["HdrEscAware"] = bool(ok)
    except Exception:       # noqa: BLE001 - a tree that cannot even do this is judged by the cases below
        pass
    return v


# --------------------------------------------------------------------------- TLC runs
def load_json_dump(path):
    if not path.endswith(".dump"):
        path += ".dump"
    out = []
    with open(path, encoding="utf-8") as f:
        for line in f:
            if line.startswith('/\\ j = "'):
                s = line[8:].rstrip()[:-1]
                if s:
                    out.append(json.loads(s.replace('\\"', '"')))
    return out


def tlc_cases(d, space, maxlen, variant, workers, invariants=(), dump=True, timeout=1500):
    cfg = os.path.join(d, f"cases_{space}_{maxlen}_{'inv' if invariants else 'gen'}_{hashlib.sha1(repr(sorted(variant.items())).encode()).hexdigest()[:6]}.cfg")
    tlc.write_cfg(cfg, spec="Spec", constants=consts(variant, Space=f'"{space}"', MaxLen=maxlen), invariants=invariants)
    dumpp = cfg[:-4] if dump else None
    res = tlc.run("ConfigCases.tla", cfg, workers=workers, dump_states=dumpp, timeout=timeout)
    return res, dumpp


# --------------------------------------------------------------------------- findings bookkeeping
class Book:
    """collects per-kind drift and spec-vs-git mismatches so that each kind is reported once"""

    def __init__(self, ctx):
        self.ctx = ctx
        self.drift = {}
        self.spec = {}
        self.stats = {}

    def add_drift(self, kind, example):
        n, ex = self.drift.get(kind, (0, None))
        self.drift[kind] = (n + 1, ex if ex is not None else example)

    def add_spec(self, kind, example):
        n, ex = self.spec.get(kind, (0, None))
        self.spec[kind] = (n + 1, ex if ex is not None else example)

    def flush(self):
        for kind, (n, ex) in sorted(self.drift.items()):
            self.ctx.drift_event(f"{kind}: the real dulwich code differs from the specification on {n} case(s), e.g. {ex}")
        self.ctx.cov["drift_cases"] = sum(n for n, _ in self.drift.values())
        self.ctx.cov.update(self.stats)
        if self.spec and not self.ctx.violations:
            msg = "; ".join(f"{k}: {n} case(s), e.g. {ex}" for k, (n, ex) in sorted(self.spec.items()))
            raise MachineryError(f"Config.tla's git automaton / git writer disagrees with the git binary: {msg}")
        if self.spec:
            self.ctx.cov["spec_vs_git_mismatches"] = {k: n for k, (n, _) in self.spec.items()}


def minimal(S):
    """elements of S no proper subsequence of which is in S (strings are short: <= 2^len - 2 subsequences each).
    Subsequences rather than one-character deletions, so that parity-like causes ('"' '"' '"' '#' fails, '"' '"' '#'
    does not) still reduce to their shortest witness ('"' '#')."""
    import itertools
    out = []
    for x in S:
        n = len(x)
        if not any(bytes(sub) in S for k in range(n - 1, -1, -1) for sub in itertools.combinations(x, k)):
            out.append(x)
    return sorted(out, key=lambda b: (len(b), b))


def report(ctx, space, clause, x: bytes, cfg, detail, predicted, variant):
    kind = KIND.get(space, "case")
    sig = f"{SITE[space]}|{clause}|{kind}={x.hex()}"
    what = (f"{clause} fails for {kind} {x!r}: {detail}"
            + ("" if predicted else "  [Config.tla with the tree's variant predicts no failure here]"))
    ctx.violation(sig, what, {"kind": "case", "space": space, "clause": clause, "x": x.hex(), "cfg": cfg_hex(cfg),
                              "detail": detail, "model_predicts_failure": predicted, "variant": variant})


# --------------------------------------------------------------------------- C20 on observed results
def clause_results(cfg, o):
    """C20 clauses on observed results.  -> dict clause -> (holds, detail)"""
    res = {}
    ok, rc, exc = o["dr"]
    if ok and R.norm(rc) == R.norm(cfg):
        res["RoundTrip"] = (True, "")
    else:
        res["RoundTrip"] = (False, f"dulwich wrote {o['dw']!r} and read back " + (cfg_show(rc) if ok else f"an error ({exc})"))
    gok, gents = o["gr"]
    if gok and R.same_meaning(gents, R.flat(cfg)):
        res["InteropDG"] = (True, "")
    else:
        res["InteropDG"] = (False, f"dulwich wrote {o['dw']!r}; git config --list " + (f"reads {gents!r}" if gok else "rejects the file"))
    if o.get("gw") is None:
        res["InteropGD"] = (True, "n/a")
    else:
        ok2, rc2, exc2 = o["dg"]
        stored = ok2 and R.same_meaning(R.flat(rc2), R.flat(cfg))
        asgit = ok2 and o.get("gg") is not None and o["gg"][0] and R.same_meaning(R.flat(rc2), o["gg"][1])
        if stored or asgit:
            res["InteropGD"] = (True, "")
        else:
            res["InteropGD"] = (False, f"git wrote {o['gw']!r}; dulwich reads " + (cfg_show(rc2) if ok2 else f"an error ({exc2})")
                                + (f", git reads {o['gg'][1]!r}" if o.get("gg") else ""))
    return res


# --------------------------------------------------------------------------- R: configuration spaces
class Acc:
    """what one chunk of a configuration space contributes (picklable: chunks run in worker processes)"""

    def __init__(self):
        self.real_fail = {c: set() for c in CLAUSES}
        self.model_fail = {c: set() for c in CLAUSES}
        self.drift, self.spec = {}, {}
        self.n = self.refused = self.git_ran = self.dulwich_only = self.git_processes = 0
        self.nontrivial = set()
        self.sample = None

    def add_drift(self, kind, example):
        n, ex = self.drift.get(kind, (0, None))
        self.drift[kind] = (n + 1, ex if ex is not None else example)

    def add_spec(self, kind, example):
        n, ex = self.spec.get(kind, (0, None))
        self.spec[kind] = (n + 1, ex if ex is not None else example)


def _cfg_chunk_job(args):
    """worker process: one chunk of enumerated configurations on the real dulwich and the real git"""
    space, path, full_len, seed, modulus, scratch = args
    R.GIT_WORKERS = 3
    with open(path, encoding="utf-8") as f:
        cases = [json.loads(line) for line in f]
    acc = Acc()
    _replay_cfg_chunk(acc, space, cases, full_len, seed, modulus, scratch)
    acc.sample = cases[len(cases) // 3]
    return acc


def split_json_dump(dump, outdir, chunk):
    """the JSON of every state of a TLC dump, as files of <= chunk lines (no parsing here)"""
    if not dump.endswith(".dump"):
        dump += ".dump"
    paths, buf = [], []

    def flush():
        p = os.path.join(outdir, f"{os.path.basename(dump)}.{len(paths)}.ndjson")
        with open(p, "w", encoding="utf-8") as f:
            f.write("\n".join(buf) + "\n")
        paths.append(p)
        buf.clear()
    with open(dump, encoding="utf-8") as f:
        for line in f:
            if line.startswith('/\\ j = "'):
                s = line[8:].rstrip()[:-1]
                if s:
                    buf.append(s.replace('\\"', '"'))
                    if len(buf) >= chunk:
                        flush()
    if buf:
        flush()
    return paths


def explain(ctx, space, x, clause):
    """the observed results for one case, in words (re-executed; used for the few cases that are reported)"""
    cfg = cfg_of(space, x)
    o = execute_cfgs(ctx, [cfg])[0]
    return clause_results(cfg, o)[clause][1] or "(not reproduced when executed alone)"


def replay_cfg_space(ctx, book, space, dump, variant, full_len, procs):
    """every enumerated configuration on the real dulwich writer/reader; the real git on every case up to length
    full_len (quick 3, thorough 4), on every 8th (quick) / 4th (thorough) longer one, and on every case where
    dulwich's bytes are not the model's.  Chunks run in worker processes.  -> (number of cases, a sample case)"""
    d = ctx.tmpdir("chunks")
    paths = split_json_dump(dump, d, ctx.pick(11000, 30000))
    jobs = [(space, p, full_len, ctx.seed, ctx.pick(8, 4), ctx.scratch) for p in paths]
    if len(jobs) == 1:
        accs = [_cfg_chunk_job(jobs[0])]
    else:
        accs = list(procs.map(_cfg_chunk_job, jobs))
    real_fail = {c: set() for c in CLAUSES}
    model_fail = {c: set() for c in CLAUSES}
    total = refused = 0
    stats = {"git_ran": 0, "dulwich_only": 0}
    for a in accs:
        total += a.n
        refused += a.refused
        stats["git_ran"] += a.git_ran
        stats["dulwich_only"] += a.dulwich_only
        ctx.count(a.n)
        ctx.validated(a.n)
        for x in a.nontrivial:
            ctx.nontrivial((space, x))
        ctx.cov["git_processes"] = ctx.cov.get("git_processes", 0) + a.git_processes
        for cl in CLAUSES:
            real_fail[cl] |= a.real_fail[cl]
            model_fail[cl] |= a.model_fail[cl]
        for kind, (n, ex) in a.drift.items():
            for _ in range(n):
                book.add_drift(kind, ex)
        for kind, (n, ex) in a.spec.items():
            for _ in range(n):
                book.add_spec(kind, ex)
    # ---- property verdicts: minimal failing cases, separately for failures the tree's model predicts
    summary = {}
    for cl in CLAUSES:
        rf = real_fail[cl]
        pred, unpred = rf & model_fail[cl], rf - model_fail[cl]
        summary[cl] = {"failing": len(rf), "predicted_by_model": len(pred), "model_only": len(model_fail[cl] - rf)}
        for S, p in ((pred, True), (unpred, False)):
            for x in minimal(S):
                report(ctx, space, cl, x, cfg_of(space, x), explain(ctx, space, x, cl), p, variant)
    summary["git_refused_to_store"] = refused
    ctx.cov.setdefault("spaces", {})[space] = dict(summary, cases=total, **stats)
    shutil.rmtree(d, ignore_errors=True)
    return total, accs[0].sample


def _replay_cfg_chunk(acc, space, cases, full_len, seed, modulus, scratch):
    xs = [bytes(c["x"]) for c in cases]
    cfgs = [cfg_of(space, x) for x in xs]
    mdw = [bytes(c["dw"]) for c in cases]
    mgr = [R.gitres_from_json(c["gr"][0]) if c["gr"] else (True, R.flat(cfg)) for c, cfg in zip(cases, cfgs)]
    # dulwich writes, dulwich reads
    outs = []
    for cfg in cfgs:
        o = {}
        try:
            o["dw"], o["dwexc"] = R.dul_write(cfg), ""
        except Exception as e:          # noqa: BLE001
            o["dw"], o["dwexc"] = None, type(e).__name__
        o["dr"] = R.dul_read(o["dw"]) if o["dw"] is not None else (False, [], "write:" + o["dwexc"])
        outs.append(o)
    # which cases go through the git binary
    for o, x, m in zip(outs, xs, mdw):
        o["git"] = len(x) <= full_len or o["dw"] != m or (int.from_bytes(hashlib.sha1(x).digest()[:4], "big") + seed) % modulus == 0
    gi = [i for i, o in enumerate(outs) if o["git"]]
    acc.git_ran += len(gi)
    acc.dulwich_only += len(outs) - len(gi)
    # git reads dulwich's bytes (batched where the model expects git to accept exactly these bytes)
    st = {}
    batch = [outs[i]["dw"] is not None and outs[i]["dw"] == mdw[i] and mgr[i][0] for i in gi]
    grs = R.git_read_smart(scratch, [outs[i]["dw"] if outs[i]["dw"] is not None else b"[" for i in gi], batch, st)
    # git writes, dulwich reads
    gws = R.git_write_single_many(scratch, [(R.git_key(cfgs[i][0], cfgs[i][0]["items"][0][0]), cfgs[i][0]["items"][0][1]) for i in gi])
    need = []
    for i, g, gw in zip(gi, grs, gws):
        o, cfg = outs[i], cfgs[i]
        o["gr"] = g if o["dw"] is not None else (False, [])
        o["gw"] = gw
        if gw is not None:
            o["dg"] = R.dul_read(gw)
            if not (o["dg"][0] and R.same_meaning(R.flat(o["dg"][1]), R.flat(cfg))):
                need.append(i)
    # where dulwich does not read the stored value from git's file: what does git itself read from it?
    ggs = R.git_read_many(scratch, [outs[i]["gw"] for i in need])
    for i, g in zip(need, ggs):
        outs[i]["gg"] = g
    acc.git_processes += st.get("git_read_processes", 0) + len(gws) + len(need)
    for c, x, cfg, o, m_dw, m_gr in zip(cases, xs, cfgs, outs, mdw, mgr):
        acc.n += 1
        if SPECIAL & set(x):
            acc.nontrivial.add(x)
        if not o["git"]:
            # dulwich only: the round trip, and the reader on the bytes Config.tla says git writes (conformance only)
            if not c["rt"]:
                acc.model_fail["RoundTrip"].add(x)
            ok, rc, exc = o["dr"]
            if not (ok and R.norm(rc) == R.norm(cfg)):
                acc.real_fail["RoundTrip"].add(x)
            m_dr = R.dulres_from_json(c["dr"][0]) if c["dr"] else (True, cfg)
            if (ok, rc) != m_dr:
                acc.add_drift(f"{space}/DulRead", f"file {o['dw']!r}: real {o['dr']!r}, model {m_dr!r}")
            dg = o["dr"] if bytes(c["gw"]) == o["dw"] else R.dul_read(bytes(c["gw"]))
            m_dg = R.dulres_from_json(c["dg"][0]) if c["dg"] else (True, cfg)
            if (dg[0], dg[1]) != m_dg:
                acc.add_drift(f"{space}/DulRead(git)", f"file {bytes(c['gw'])!r}: real {dg!r}, model {m_dg!r}")
            if o["dw"] != m_dw:
                acc.add_drift(f"{space}/DulWrite", f"{KIND[space]} {x!r}: real {o['dw']!r}, model {m_dw!r}")
            continue
        for cl, flag in zip(CLAUSES, ("rt", "dgok", "gd")):
            if not c[flag]:
                acc.model_fail[cl].add(x)
        res = clause_results(cfg, o)
        for cl in CLAUSES:
            if not res[cl][0]:
                acc.real_fail[cl].add(x)
        # ---- conformance of the model with the real programs
        if o["dw"] != m_dw:
            acc.add_drift(f"{space}/DulWrite", f"{KIND[space]} {x!r}: real {o['dw']!r}, model {m_dw!r}")
        else:
            m_dr = R.dulres_from_json(c["dr"][0]) if c["dr"] else (True, cfg)
            if (o["dr"][0], o["dr"][1]) != m_dr:
                acc.add_drift(f"{space}/DulRead", f"file {o['dw']!r}: real {o['dr']!r}, model {m_dr!r}")
            if (o["gr"][0], o["gr"][1]) != (m_gr[0], m_gr[1] if m_gr[0] else []):
                acc.add_spec(f"{space}/GitRead", f"file {o['dw']!r}: git {o['gr']!r}, model {m_gr!r}")
        if o["gw"] is None:
            acc.refused += 1
            continue
        m_gw = bytes(c["gw"])
        if o["gw"] != m_gw:
            acc.add_spec(f"{space}/GitWrite", f"{KIND[space]} {x!r}: git {o['gw']!r}, model {m_gw!r}")
        else:
            m_dg = R.dulres_from_json(c["dg"][0]) if c["dg"] else (True, cfg)
            if (o["dg"][0], o["dg"][1]) != m_dg:
                acc.add_drift(f"{space}/DulRead(git)", f"file {o['gw']!r}: real {o['dg']!r}, model {m_dg!r}")
            if "gg" in o:
                m_gg = R.gitres_from_json(c["gg"][0]) if c["gg"] else (True, R.flat(cfg))
                if (o["gg"][0], o["gg"][1]) != (m_gg[0], m_gg[1] if m_gg[0] else []):
                    acc.add_spec(f"{space}/GitRead(git)", f"file {o['gw']!r}: git {o['gg']!r}, model {m_gg!r}")


# --------------------------------------------------------------------------- R: hand-written files (reader automata)
def replay_file_space(ctx, book, space, cases):
    files = [bytes(c["f"]) for c in cases]
    mgr = [R.gitres_from_json(c["gr"]) for c in cases]
    st = {}
    grs = R.git_read_smart(ctx.scratch, files, [m[0] for m in mgr], st)
    ctx.cov["git_processes"] = ctx.cov.get("git_processes", 0) + st.get("git_read_processes", 0)
    agree = 0
    for c, f, m, g in zip(cases, files, mgr, grs):
        ctx.count()
        ctx.validated()
        ctx.nontrivial((space, f))
        if (m[0], m[1] if m[0] else []) != g:
            book.add_spec(f"{space}/GitRead", f"file {f!r}: git {g!r}, model {m!r}")
        m_dr = R.dulres_from_json(c["dr"])
        ok, rc, exc = R.dul_read(f)
        if (ok, rc) != m_dr:
            book.add_drift(f"{space}/DulRead", f"file {f!r}: real {(ok, rc, exc)!r}, model {m_dr!r}")
        if ok == g[0] and (not ok or R.same_meaning(R.flat(rc), g[1])):
            agree += 1
    ctx.cov.setdefault("spaces", {})[space] = {"cases": len(cases), "dulwich_and_git_read_the_same": agree}


# --------------------------------------------------------------------------- T: batch trace validation with TLC
def obs_dul(r):
    ok, rc, _ = r
    return {"ok": bool(ok), "cfg": R.cfg_to_json(rc) if ok else []}


def obs_git(r):
    ok, ents = r
    return {"ok": bool(ok), "ents": [{"k": list(k), "hv": v is not None, "v": list(v or b"")} for k, v in ents] if ok else []}


def trace_record(tid, cfg, o, fresh):
    hasgw = o.get("gw") is not None
    none_d, none_g = {"ok": False, "cfg": []}, {"ok": False, "ents": []}
    return {"tid": tid, "cfg": R.cfg_to_json(cfg), "dw": list(o["dw"] or b""), "dr": obs_dul(o["dr"]), "gr": obs_git(o["gr"]),
            "hasgw": hasgw, "fresh": bool(fresh), "gw": list(o["gw"]) if hasgw else [],
            "dg": obs_dul(o["dg"]) if hasgw else none_d, "gg": obs_git(o["gg"]) if hasgw and o.get("gg") is not None else none_g}


def validate_traces(ctx, d, records, variant, label, workers=8):
    """-> {tid: verdict dict}"""
    verdicts = {}
    B = 20000
    for lo in range(0, len(records), B):
        chunk = records[lo:lo + B]
        path = os.path.join(d, f"traces_{label}_{lo}.ndjson")
        with open(path, "w") as f:
            for r in chunk:
                f.write(json.dumps(r, separators=(",", ":")) + "\n")
        cfg = os.path.join(d, f"trace_{label}_{lo}.cfg")
        tlc.write_cfg(cfg, spec="TraceSpec", constants=consts(variant))
        res = tlc.run("ConfigTrace.tla", cfg, workers=workers, timeout=1500, env={"TRACE_FILE": path}, dump_states=cfg[:-4])
        ctx.add_tlc(f"ConfigTrace[{label}:{lo}] ({len(chunk)} recorded executions)", res)
        got = {v["tid"]: v for v in load_json_dump(cfg[:-4])}
        if len(got) != len(chunk):
            raise MachineryError(f"trace validation incomplete ({len(got)}/{len(chunk)} verdicts)\n{res.output[-3000:]}")
        verdicts.update(got)
    return verdicts


# --------------------------------------------------------------------------- shrinking of failing recorded executions
class RealOracle:
    """does clause X fail for this configuration on the real code?  (memoised; used for shrinking only)"""

    def __init__(self, ctx):
        self.ctx = ctx
        self.memo = {}

    def fails(self, clause, cfgs):
        keys = [(clause, json.dumps(cfg_hex(c), sort_keys=True)) for c in cfgs]
        todo = [i for i, k in enumerate(keys) if k not in self.memo]
        if todo:
            sub = [cfgs[i] for i in todo]
            outs = []
            for cfg in sub:
                o = {}
                try:
                    o["dw"] = R.dul_write(cfg)
                except Exception as e:          # noqa: BLE001
                    o["dw"] = None
                o["dr"] = R.dul_read(o["dw"]) if o["dw"] is not None else (False, [], "write")
                o["gr"] = (True, R.flat(cfg))
                outs.append(o)
            if clause == "InteropDG":
                for o, g in zip(outs, R.git_read_many(self.ctx.scratch, [o["dw"] or b"[" for o in outs])):
                    o["gr"] = g
            if clause == "InteropGD":
                gws = R.git_ops(self.ctx.scratch, [R.git_add_history(c) for c in sub])
                ggs = R.git_read_many(self.ctx.scratch, gws)
                for o, gw, gg in zip(outs, gws, ggs):
                    o["gw"], o["dg"], o["gg"] = gw, R.dul_read(gw), gg
            for i, cfg, o in zip(todo, sub, outs):
                self.memo[keys[i]] = not clause_results(cfg, o)[clause][0]
        return [self.memo[k] for k in keys]

    @staticmethod
    def _shrink(cfg):
        """generator: yields lists of configurations to test, receives the list of 'fails' answers;
        returns (space, x, cfg) of a small configuration that still fails"""
        def digest(c):
            return hashlib.sha1(json.dumps(cfg_hex(c), sort_keys=True).encode()).digest()[:8]
        # 1. a single item
        singles = [[sec(s["sec"], s["hs"], s["sub"], [it])] for s in cfg for it in s["items"]]
        ans = (yield singles) if singles else []
        hits = [c for c, f in zip(singles, ans) if f]
        if not hits:
            return "cfg", digest(cfg), cfg
        s = hits[0][0]
        k, v = s["items"][0]
        # 2. is it the value, the subsection or the names?
        ans = yield [cfg_of("val", v), cfg_of("sub", s["sub"])]
        if ans[0]:
            space, x = "val", v
        elif s["hs"] and ans[1]:
            space, x = "sub", s["sub"]
        else:
            return "cfg", digest(hits[0]), hits[0]
        # 3. a single byte of it, else greedy one-byte deletions
        bs = sorted(set(x))
        ans = yield [cfg_of(space, bytes([c])) for c in bs]
        for c, f in zip(bs, ans):
            if f:
                return space, bytes([c]), cfg_of(space, bytes([c]))
        changed = True
        while changed and len(x) > 1:
            changed = False
            cands = [x[:i] + x[i + 1:] for i in range(len(x))]
            ans = yield [cfg_of(space, c) for c in cands]
            for cnd, f in zip(cands, ans):
                if f:
                    x, changed = cnd, True
                    break
        return space, x, cfg_of(space, x)

    def shrink_all(self, tasks):
        """tasks: [(clause, cfg)] -> [(space, x, small cfg)]; the questions of all tasks are answered in batches.
        Fast path: if a single byte of one of the values / subsections, stored alone, already fails the clause on the
        real code, that one-byte case is the witness (smallest first); otherwise the configuration is shrunk step by step."""
        def singles(cfg):
            out = set()
            for s in cfg:
                out |= {("val", c) for _, v in s["items"] for c in v}
                if s["hs"]:
                    out |= {("sub", c) for c in s["sub"]}
            return sorted(out)
        for cl in CLAUSES:
            cands = sorted({sc for c, cfg in tasks if c == cl for sc in singles(cfg)})
            self.fails(cl, [cfg_of(sp, bytes([c])) for sp, c in cands])                            # fills the memo
        results, pending, gens = {}, {}, {}
        for i, (cl, cfg) in enumerate(tasks):
            cands = singles(cfg)
            for (sp, c), f in zip(cands, self.fails(cl, [cfg_of(sp, bytes([c])) for sp, c in cands])):
                if f:
                    results[i] = (sp, bytes([c]), cfg_of(sp, bytes([c])))
                    break
            else:
                gens[i] = self._shrink(cfg)
        for i, g in gens.items():
            try:
                pending[i] = next(g)
            except StopIteration as e:
                results[i] = e.value
        while pending:
            for cl in CLAUSES:
                self.fails(cl, [c for i, q in pending.items() if tasks[i][0] == cl for c in q])     # fills the memo
            nxt = {}
            for i, q in pending.items():
                try:
                    nxt[i] = gens[i].send(self.fails(tasks[i][0], q))
                except StopIteration as e:
                    results[i] = e.value
            pending = nxt
        return [results[i] for i in range(len(tasks))]


def judge_records(ctx, book, oracle, records, meta, verdicts, variant):
    """records judged by TLC -> violations (property clauses on observed results) and drift"""
    nfail = {c: 0 for c in CLAUSES}
    failing = []        # (tid, clause, predicted by the tree's model)
    for r in records:
        v = verdicts[r["tid"]]
        m = meta[r["tid"]]
        ctx.validated()
        for d in v["drift"]:
            if d.startswith("Git"):
                book.add_spec(f"{m['src']}/{d}", f"cfg {cfg_show(m['cfg'])}")
            else:
                book.add_drift(f"{m['src']}/{d}", f"cfg {cfg_show(m['cfg'])}")
        for cl, holds, pred_holds in zip(CLAUSES, v["obs"], v["model"]):
            if not holds:
                nfail[cl] += 1
                failing.append((r["tid"], cl, not pred_holds))
    # failures the tree's model predicts are shrunk on the real code to their smallest witness; the others are
    # kept as they are (no shrinking into known territory)
    shr = [f for f in failing if f[2]]
    small = dict(zip([(t, cl) for t, cl, _ in shr], oracle.shrink_all([(cl, meta[t]["cfg"]) for t, cl, _ in shr])))
    for tid, cl, predicted in failing:
        m = meta[tid]
        detail = clause_results(m["cfg"], m["o"])[cl][1]
        if predicted:
            space, x, sm = small[(tid, cl)]
        else:
            space, x, sm = "cfg", hashlib.sha1(json.dumps(cfg_hex(m["cfg"]), sort_keys=True).encode()).digest()[:8], m["cfg"]
        if space == "cfg":
            ctx.violation(f"{SITE['cfg']}|{cl}|config={x.hex()}", f"{cl} fails for configuration {cfg_show(sm)} ({m['src']}): {detail}",
                          {"kind": "case", "space": "cfg", "clause": cl, "cfg": cfg_hex(sm), "detail": detail,
                           "model_predicts_failure": predicted, "variant": variant, "history": m.get("history"),
                           "mixed": m.get("mixed", False)})
        else:
            report(ctx, space, cl, x, sm, f"(shrunk from {cfg_show(m['cfg'])}, {m['src']}) {detail}", predicted, variant)
    return nfail


# --------------------------------------------------------------------------- T: inputs TLC does not enumerate
def sweep_cases():
    """every byte value 1..255 alone and next to ordinary characters, as value and as subsection"""
    out = []
    for c in range(1, 256):
        ch = bytes([c])
        for v in (ch, b"a" + ch, ch + b"a", b"a" + ch + b"b"):
            out.append(cfg_of("val", v))
        if c != 10:
            for s in (ch, b"a" + ch + b"b"):
                out.append(cfg_of("sub", s))
    return out


def random_cases(ctx, n):
    """n configurations drawn with ctx.rng: 1-3 sections (names from the legal classes, optional subsection over all
    bytes but NUL/LF), 1-4 items each from a small key pool (so that multi-valued keys and case variants of one key are
    frequent), values over all bytes 1..255 with the special characters over-represented."""
    rng = ctx.rng
    specials = b' \t"\\#;\n\r\x0b\x0c=[]ntb.\x08\x7f\x80\xff-'
    plain = b"abcXYZ019"
    alnum = b"abcxyzABC019-"

    def byte(no_lf=False):
        while True:
            r = rng.random()
            c = rng.choice(specials) if r < 0.45 else rng.choice(plain) if r < 0.8 else rng.randint(1, 255)
            if not (no_lf and c == 10):
                return c

    def key():
        if rng.random() < 0.6:
            return rng.choice([b"k", b"K", b"j"])
        return bytes([rng.choice(b"abkKjJ")] + [rng.choice(alnum) for _ in range(rng.randint(0, 2))])
    got = []
    while len(got) < n:
        seen, cfg = set(), []
        for _ in range(rng.randint(1, 3)):
            name = bytes(rng.choice(alnum) for _ in range(rng.randint(1, 4)))
            sub = bytes(byte(True) for _ in range(rng.randint(0, 6))) if rng.random() < 0.6 else None
            if (name.lower(), sub) in seen or name.lower() in (b"include", b"includeif"):
                continue
            seen.add((name.lower(), sub))
            items = [(key(), bytes(byte() for _ in range(rng.randint(0, 12)))) for _ in range(rng.randint(1, 4))]
            cfg.append(sec(name, sub is not None, sub or b"", items))
        if cfg:
            got.append(cfg)
    return got


def execute_cfgs(ctx, cfgs, histories=None, initial=None):
    """the full real pipeline for arbitrary configurations; git reads are batched with bisection"""
    outs = []
    for cfg in cfgs:
        o = {}
        try:
            o["dw"], o["dwexc"] = R.dul_write(cfg), ""
        except Exception as e:          # noqa: BLE001
            o["dw"], o["dwexc"] = None, type(e).__name__
        o["dr"] = R.dul_read(o["dw"]) if o["dw"] is not None else (False, [], "write:" + o["dwexc"])
        outs.append(o)
    st = {}
    grs = R.git_read_smart(ctx.scratch, [o["dw"] if o["dw"] is not None else b"[" for o in outs], [o["dw"] is not None for o in outs], st)
    hist = histories if histories is not None else [R.git_add_history(c) for c in cfgs]
    gws = R.git_ops(ctx.scratch, [h or [] for h in hist], initial)
    ggs = R.git_read_smart(ctx.scratch, gws, [True] * len(gws), st)
    for o, g, h, gw, gg in zip(outs, grs, hist, gws, ggs):
        o["gr"] = g if o["dw"] is not None else (False, [])
        if h is not None:
            o["gw"], o["dg"], o["gg"] = gw, R.dul_read(gw), gg
    ctx.cov["git_processes"] = ctx.cov.get("git_processes", 0) + st.get("git_read_processes", 0) + sum(len(h or []) for h in hist)
    return outs


# --------------------------------------------------------------------------- R+T: histories (ConfigOps)
SEC_MENU = [(b"s",), (b"S",), (b"s", b"x"), (b"S", b"X")]
KEY_MENU = [b"k", b"K", b"j"]
VAL_MENU = [b"1", b' a"\\#', b""]
_LAB = re.compile(r"(\w+)(?:\((\d+)(?:,(\d+))?(?:,(\d+))?\))?$")


def node_cfg(st):
    return [sec(bytes(s["sec"]), bool(s["hs"]), bytes(s["sub"]), [(bytes(i["k"]), bytes(i["v"])) for i in s["items"]]) for s in st["cfg"]]


def parse_label(lab):
    m = _LAB.match(lab.replace(" ", ""))
    if not m:
        raise MachineryError(f"unexpected action label {lab!r}")
    return m.group(1), tuple(int(g) for g in m.groups()[1:] if g is not None)


def apply_op(c, act, args, tmp):
    from dulwich.config import ConfigFile
    if act == "Set":
        c.set(SEC_MENU[args[0] - 1], KEY_MENU[args[1] - 1], VAL_MENU[args[2] - 1])
    elif act == "Add":
        c.add(SEC_MENU[args[0] - 1], KEY_MENU[args[1] - 1], VAL_MENU[args[2] - 1])
    elif act == "Remove":
        c.remove(SEC_MENU[args[0] - 1], KEY_MENU[args[1] - 1])
    elif act == "Rewrite":
        c.write_to_path(tmp)
        c = ConfigFile.from_path(tmp)
    else:
        raise MachineryError(f"unknown action {act}")
    return c


def show_op(act, args):
    if act == "Rewrite":
        return "write_to_path; from_path"
    t = SEC_MENU[args[0] - 1]
    name = f"{t!r}, {KEY_MENU[args[1] - 1]!r}"
    return f"{act.lower()}({name}{', ' + repr(VAL_MENU[args[2] - 1]) if len(args) > 2 else ''})"


def git_op(act, args):
    if act == "Rewrite":
        return None
    t = SEC_MENU[args[0] - 1]
    key = b".".join(t) + b"." + KEY_MENU[args[1] - 1]
    if act == "Set":
        return [b"--replace-all", b"--", key, VAL_MENU[args[2] - 1]]
    if act == "Add":
        return [b"--add", b"--", key, VAL_MENU[args[2] - 1]]
    return [b"--unset-all", b"--", key]


def ops_tlc(d, variant, mi, workers, coverage=False):
    cfgp = os.path.join(d, "ops.cfg")
    tlc.write_cfg(cfgp, spec="Spec", constants=consts(variant, MaxItems=mi, NSec=4, NKey=3, NVal=2),
                  invariants=["InvRoundTrip", "InvInteropDG"], properties=["RewriteIsIdentity"])
    dot = os.path.join(d, "ops.dot")
    return tlc.run("ConfigOps.tla", cfgp, workers=workers, dump_dot=dot, timeout=1500, coverage=coverage), dot


def ops_phase(ctx, book, fut, mi, variant, tid0):
    from dulwich.config import ConfigFile
    res, dot = fut.result()
    ctx.add_tlc(f"ConfigOps (MaxItems={mi}, 4 sections x 3 keys x 2 values; set/add/remove/rewrite)", res)
    if not ctx.quick:
        # vacuity: every action of the history model is taken (coverage run on the small bound; -coverage is slow)
        d2 = ctx.tmpdir("opscov")
        rc, _ = ops_tlc(d2, variant, 2, 4, coverage=True)
        ctx.add_tlc("ConfigOps (MaxItems=2) with -coverage 1: every action taken", rc)
        cov = {a: int(t) for a, _, t in re.findall(r"^<(\w+) line [^>]*>: (\d+):(\d+)", rc.output, re.M)}
        dead = [a for a in ("Set", "Add", "Remove", "Rewrite") if cov.get(a, 0) == 0]
        ctx.cov["ops_action_coverage"] = {a: cov.get(a, 0) for a in ("Set", "Add", "Remove", "Rewrite")}
        if dead:
            raise MachineryError(f"ConfigOps: actions never taken (vacuous model): {dead}")
    ctx.log("ConfigOps model checked")
    g = tlc.load_dot(dot)
    ctx.log("graph loaded")
    init = g.init[0]
    for es in g.edges.values():
        es.sort()               # deterministic breadth-first tree: histories are named by their labels only
    parent, order = {init: None}, [init]
    for n in order:
        for lab, dst in g.edges.get(n, []):
            if dst not in parent:
                parent[dst] = (n, lab)
                order.append(dst)
    if len(order) != len(g.nodes):
        raise MachineryError("ConfigOps graph: unreachable nodes in the dump")
    labels = {}

    def path_to(n):
        out = []
        while parent[n] is not None:
            p, lab = parent[n]
            out.append(lab)
            n = p
        return out[::-1]

    def lab(l):
        if l not in labels:
            labels[l] = parse_label(l)
        return labels[l]
    tmp = os.path.join(ctx.tmpdir("ops"), "config")
    nedges = nmis = 0
    node_real = {}
    bad = []            # (history, real result, model state): the stored values are not what the object holds

    def means(c):
        return R.meaning(R.flat(c))
    for n in order:
        path = path_to(n)
        want = node_cfg(g.nodes[n])
        # the state itself, then every transition out of it, each on a fresh object brought to n by the real operations
        clean = True
        for l, dst in [(None, n)] + g.edges.get(n, []):
            c = ConfigFile()
            try:
                for pl in path:
                    c = apply_op(c, *lab(pl), tmp)
            except Exception as e:      # noqa: BLE001 - the real code refuses a history the model allows:
                if l is None:           # reported where it first happened (as a transition out of a clean state)
                    nmis += 1
                    book.add_drift("ops/state", f"{path}: the real code raises {type(e).__name__}")
                    node_real[n] = ([], path)
                    clean = False
                continue
            if l is None:
                got = R.dul_project(c)
                if got != want:
                    nmis += 1
                    book.add_drift("ops/state", f"after {path}: real {cfg_show(got)}, model {cfg_show(want)}")
                clean = means(got) == means(want)
                node_real[n] = (got, path)
                continue
            act, args = lab(l)
            try:
                c = apply_op(c, act, args, tmp)
                got = R.dul_project(c)
            except Exception as e:      # noqa: BLE001
                got = f"{type(e).__name__}: {e}"
            nedges += 1
            ctx.count()
            wdst = node_cfg(g.nodes[dst])
            if got != wdst:
                nmis += 1
                book.add_drift(f"ops/{act}", f"after {path} + {l}: real {got if isinstance(got, str) else cfg_show(got)}, model {cfg_show(wdst)}")
                if clean and (isinstance(got, str) or means(got) != means(wdst)):
                    bad.append((path + [l], got, wdst))
            ctx.nontrivial(("ops", n, l))
    ctx.log("transitions replayed")
    bad.sort(key=lambda t: (len(t[0]), t[0]))
    for hist, got, wdst in bad[:5]:
        show = " ; ".join(show_op(*lab(x)) for x in hist)
        ctx.violation(f"dulwich/config.py:ConfigDict.set+add+remove|History|ops={'>'.join(x.replace(' ', '') for x in hist)}",
                      f"after the history [{show}] the ConfigFile holds {got if isinstance(got, str) else cfg_show(got)}; "
                      f"the stored values (git's case rules, per-variable order) are {cfg_show(wdst)}",
                      {"kind": "history", "history": hist, "expected": cfg_hex(wdst), "variant": variant})
    ctx.validated(nedges)
    # every state as a recorded execution (real files through write_to_path/from_path), a sample with git-driven histories
    nodes = [n for n in order if node_real[n][0]]
    # a sample of the states is recorded for TLC (all states and transitions were replayed and compared above)
    pos = {n: i for i, n in enumerate(order)}
    nodes = sorted(ctx.rng.sample(nodes, min(ctx.pick(1500, 15000), len(nodes))), key=pos.get)
    nsample = ctx.pick(200, 3000)
    chosen = set(ctx.rng.sample(nodes, min(nsample, len(nodes))))
    cfgs = [node_real[n][0] for n in nodes]
    hists = [([h for h in (git_op(*lab(pl)) for pl in node_real[n][1]) if h] if n in chosen else None) for n in nodes]
    outs = execute_cfgs(ctx, cfgs, hists)
    records, meta = [], {}
    tid = tid0
    for n, cfg, o, h in zip(nodes, cfgs, outs, hists):
        tid += 1
        ctx.count()
        if h is not None and not (o["gg"][0] and R.meaning(o["gg"][1]) == means(node_cfg(g.nodes[n]))):
            # git's own commands for the same history: validates the set/add/remove semantics of ConfigOps
            book.add_spec("ops/git-history", f"{node_real[n][1]}: git reads {o['gg']!r}, ConfigOps state {cfg_show(node_cfg(g.nodes[n]))}")
        records.append(trace_record(tid, cfg, o, fresh=False))
        meta[tid] = {"src": "ops", "cfg": cfg, "o": o, "history": node_real[n][1]}
    # mixed histories: dulwich writes the state before the last operation, git performs the last operation on that file
    byn = dict(zip(nodes, outs))
    mixed = [n for n in nodes if n in chosen and parent[n] is not None and lab(parent[n][1])[0] != "Rewrite"]
    gws = R.git_ops(ctx.scratch, [[git_op(*lab(parent[n][1]))] for n in mixed],
                    [(byn[parent[n][0]]["dw"] if parent[n][0] in byn else
                      (R.dul_write(node_real[parent[n][0]][0]) if node_real[parent[n][0]][0] else b"")) for n in mixed])
    st = {}
    ggs = R.git_read_smart(ctx.scratch, gws, [True] * len(gws), st)
    ctx.cov["git_processes"] = ctx.cov.get("git_processes", 0) + st.get("git_read_processes", 0) + len(mixed)
    for n, gw, gg in zip(mixed, gws, ggs):
        tid += 1
        ctx.count()
        o = dict(byn[n], gw=gw, dg=R.dul_read(gw), gg=gg)
        if not (gg[0] and R.meaning(gg[1]) == means(node_cfg(g.nodes[n]))):
            book.add_spec("ops/git-mixed", f"{node_real[n][1]}: git reads {gg!r}, ConfigOps state {cfg_show(node_cfg(g.nodes[n]))}")
        records.append(trace_record(tid, node_real[n][0], o, fresh=False))
        meta[tid] = {"src": "ops-mixed", "cfg": node_real[n][0], "o": o, "history": node_real[n][1], "mixed": True}
    ctx.cov["ops_replay"] = {"mixed_histories": len(mixed), "states": len(g.nodes), "transitions": g.n_edges(), "transitions_replayed": nedges,
                             "mismatches": nmis, "histories_with_wrong_meaning": len(bad), "states_recorded": len(records), "git_driven_histories": len(chosen)}
    ctx.sample({"kind": "history", "ops": node_real[order[len(order) // 2]][1], "state": cfg_show(node_real[order[len(order) // 2]][0])})
    return records, meta, tid


# --------------------------------------------------------------------------- R+T: one file, a long-lived owner and external writers
SH_KEYS = {1: ((b"user",), b"name"), 2: ((b"alias",), b"co")}
SH_VALS = {1: {1: b"alice", 2: b"carol"}, 2: {1: b"c1", 2: b"c2"}}
SH_T0 = 1_600_000_000 * 10**9
SH_SITE = {"ReadFresh": "dulwich/repo.py:Repo.get_config", "WritePreserves": "dulwich/repo.py:Repo.get_config+ConfigFile.write_to_path",
           "RefusedAtomic": "dulwich/config.py:ConfigFile.write_to_path"}


class SharedWorld:
    """a real repository whose .git/config is shared by a long-lived Repo object (the owner), the git binary and a
    second dulwich handle; after every rewrite the file has the same size and the same mtime as before"""

    def __init__(self, ctx, n):
        from dulwich.repo import Repo
        self.root = os.path.join(ctx.tmpdir(f"shared{n}"), "r")
        Repo.init(self.root, mkdir=True).close()
        self.path = os.path.join(self.root, ".git", "config")
        self.env = R.git_env(os.path.dirname(self.root))
        for k in (1, 2):
            self.git_set(k, 1)
        with open(self.path, "rb") as f:
            self.template = f.read()

    def git_set(self, k, v):
        import subprocess
        sec, name = SH_KEYS[k]
        subprocess.run([b"git", b"config", b"-f", self.path.encode(), b".".join(sec) + b"." + name, SH_VALS[k][v]], env=self.env, check=True)

    def observe(self):
        with open(self.path, "rb") as f:
            data = f.read()
        ok, cfg, _ = R.dul_read(data)
        m = R.meaning(R.flat(cfg)) if ok else {}
        out = []
        for k in (1, 2):
            sec, name = SH_KEYS[k]
            vals = m.get(R.fullkey(sec[0], False, b"", name))
            inv = {b: i for i, b in SH_VALS[k].items()}
            out.append(0 if not vals else inv.get(vals[-1], 9) if len(vals) == 1 else 9)
        return out, data

    def same_tick(self):
        os.utime(self.path, ns=(SH_T0, SH_T0))

    def run(self, labels):
        """execute one history on a fresh long-lived Repo; -> events (ConfigSharedTrace vocabulary)"""
        from dulwich.config import ConfigFile
        from dulwich.repo import Repo
        with open(self.path, "wb") as f:
            f.write(self.template)
        self.same_tick()
        repo = Repo(self.root)
        ev = []
        try:
            for lab in labels:
                act, a = parse_label(lab)
                e = {"op": "", "w": 0, "k": 0, "v": 0, "ret": 0, "raised": False, "lock": False, "same": True}
                if act == "OwnerRead":
                    sec, name = SH_KEYS[a[0]]
                    try:
                        got = repo.get_config().get(sec, name)
                    except KeyError:
                        got = None
                    inv = {b: i for i, b in SH_VALS[a[0]].items()}
                    e.update(op="read", k=a[0], ret=0 if got is None else inv.get(got, 9))
                elif act == "OwnerSet":
                    sec, name = SH_KEYS[a[0]]
                    c = repo.get_config()
                    c.set(sec, name, SH_VALS[a[0]][a[1]])
                    c.write_to_path()
                    e.update(op="oset", k=a[0], v=a[1])
                elif act == "ExtSet":
                    if a[0] == 1:
                        self.git_set(a[1], a[2])
                    else:
                        sec, name = SH_KEYS[a[1]]
                        c = ConfigFile.from_path(self.path)
                        c.set(sec, name, SH_VALS[a[1]][a[2]])
                        c.write_to_path()
                    e.update(op="ext", w=a[0], k=a[1], v=a[2])
                elif act == "Refused":
                    # the owner regenerates the file from what it holds; a section git does not allow (newline in the
                    # subsection, refused by the writer) comes right after the first key's section
                    c = repo.get_config()
                    c2 = ConfigFile()
                    for sct in c.sections():
                        for k, v in c.items(sct):
                            c2.add(sct, k, v)
                        if sct == SH_KEYS[1][0]:
                            c2.set((b"zz", b"a\nb"), b"k", b"v")
                    before = self.observe()[1]
                    try:
                        c2.write_to_path(self.path)
                    except Exception:       # noqa: BLE001
                        e["raised"] = True
                    e["lock"] = os.path.exists(self.path + ".lock")
                    if e["lock"]:
                        os.remove(self.path + ".lock")
                    e.update(op="refused", same=self.observe()[1] == before)
                else:
                    raise MachineryError(f"unknown action {lab}")
                if act != "OwnerRead":
                    self.same_tick()
                e["after"] = self.observe()[0]
                ev.append(e)
        finally:
            repo.close()
        return ev


def shared_tlc(d):
    dot = os.path.join(d, "shared.dot")
    runs = [("ConfigShared_mc.cfg", None, tlc.run("ConfigShared.tla", "ConfigShared_mc.cfg", workers=1, dump_dot=dot, timeout=300))]
    for cfg, expect in (("ConfigShared_cached.cfg", "ReadFresh"), ("ConfigShared_cachedw.cfg", "WritePreserves"), ("ConfigShared_commit.cfg", "RefusedAtomic")):
        runs.append((cfg, expect, tlc.run("ConfigShared.tla", cfg, workers=1, timeout=300)))
    return runs, dot


def judge_shared(ctx, d, records, label):
    path = os.path.join(d, f"shared_{label}.ndjson")
    with open(path, "w") as f:
        for r in records:
            f.write(json.dumps(r, separators=(",", ":")) + "\n")
    cfg = os.path.join(d, f"shared_{label}.cfg")
    tlc.write_cfg(cfg, spec="TraceSpec")
    res = tlc.run("ConfigSharedTrace.tla", cfg, workers=4, timeout=900, env={"TRACE_FILE": path}, dump_states=cfg[:-4])
    ctx.add_tlc(f"ConfigSharedTrace[{label}] ({len(records)} recorded histories)", res)
    got = {v["tid"]: v for v in load_json_dump(cfg[:-4])}
    if len(got) != len(records):
        raise MachineryError(f"shared-file trace validation incomplete ({len(got)}/{len(records)})\n{res.output[-2000:]}")
    return got


def shared_phase(ctx, book, d, fut):
    runs, dot = fut.result()
    for cfg, expect, res in runs:
        if expect is None:
            ctx.add_tlc("ConfigShared (long-lived owner + external writers, same-size same-tick rewrites; refused rewrite)", res)
        else:
            ctx.add_tlc(f"{cfg} negative control, expects {expect}", res, require_ok=False)
            if expect not in res.violated:
                raise MachineryError(f"negative control {cfg} did not find {expect}\n{res.output[-1500:]}")
    g = tlc.load_dot(dot)
    for es in g.edges.values():
        es.sort()
    depth = ctx.pick(3, 4)
    paths = []

    def walk(n, labs, nodes):
        if labs:
            paths.append((list(labs), list(nodes)))
        if len(labs) < depth:
            for l, dst in g.edges.get(n, []):
                walk(dst, labs + [l], nodes + [dst])
    walk(g.init[0], [], [])
    paths = [p for p in paths if len(p[0]) == depth]        # every behaviour of that length (shorter ones are their prefixes)
    nw = 4
    worlds = [SharedWorld(ctx, i) for i in range(nw)]

    def work(i):
        return [(j, worlds[i].run(paths[j][0])) for j in range(i, len(paths), nw)]
    evs = {}
    with cf.ThreadPoolExecutor(nw) as ex:
        for part in ex.map(work, range(nw)):
            evs.update(part)
    records = []
    for j, (labs, nodes) in enumerate(paths):
        ev = evs[j]
        ctx.count()
        ctx.nontrivial(("shared", tuple(labs)))
        for e, n in zip(ev, nodes):
            st = g.nodes[n]
            if list(st["file"]) != e["after"] or (e["op"] == "read" and st["last"]["ret"] != e["ret"]):
                book.add_drift("shared/state", f"{labs}: after {e['op']} the file says {e['after']} (read returned {e['ret']}), ConfigShared {list(st['file'])}")
                break
        records.append({"tid": j + 1, "ev": ev})
    verdicts = judge_shared(ctx, d, records, "graph")
    bad = {}
    for j, (labs, _) in enumerate(paths):
        v = verdicts[j + 1]
        ctx.validated()
        if v["prop"] != "ok":
            bad.setdefault((v["prop"], tuple(labs[:v["at"]])), records[j])
    # shortest failing histories first; a history that extends a reported one is the same finding
    for cl in ("ReadFresh", "WritePreserves", "RefusedAtomic"):
        hs = sorted((h for c, h in bad if c == cl), key=lambda h: (len(h), h))
        for h in hs[:3]:
            rec = bad[(cl, h)]
            e = rec["ev"][len(h) - 1]
            ctx.violation(f"{SH_SITE[cl]}|{cl}|ops={'>'.join(x.replace(' ', '') for x in h)}",
                          f"{cl} fails after the history {list(h)} on one .git/config shared by a long-lived Repo, git config and a second dulwich "
                          f"handle (every rewrite keeps size and mtime): last event {e}",
                          {"kind": "shared", "history": list(h), "clause": cl, "events": rec["ev"][:len(h)]})
    ctx.cov["shared_file"] = {"states": len(g.nodes), "transitions": g.n_edges(), "depth": depth, "behaviours_replayed": len(paths),
                              "failing": {cl: sum(1 for c, _ in bad if c == cl) for cl in SH_SITE}}
    ctx.sample({"kind": "shared-file history", "ops": paths[len(paths) // 2][0], "events": evs[len(paths) // 2]})


def replay_shared(ctx, obj):
    w = SharedWorld(ctx, 0)
    ev = w.run(obj["history"])
    print(f"replay shared-file history  signature: {obj.get('signature')}")
    for l, e in zip(obj["history"], ev):
        print(f"  {l:16s} -> {e}")
    v = judge_shared(ctx, ctx.tmpdir("tlc"), [{"tid": 1, "ev": ev}], "replay")[1]
    print(f"  TLC verdict: {v}")
    bad = v["prop"] != "ok"
    print("  => " + (f"VIOLATION reproduced ({v['prop']} at event {v['at']})" if bad else "not reproduced on this tree"))
    return 1 if bad else 0


# --------------------------------------------------------------------------- model checking proper + negative controls
def model_check(ctx, d, variant, pool):
    """(a) with the proposed repairs (FIXED variant) the three clauses are invariants of every configuration
    space; (b) each repair switched off alone re-creates its defect: TLC must find the violation."""
    futs = []
    L = ctx.pick(3, 4)
    for space, ml in (("val", L), ("sub", ctx.pick(3, 4)), ("name", 2)):
        futs.append((f"ConfigCases[{space}<={ml}] repaired variant, C20 clauses as invariants", None,
                     pool.submit(tlc_cases, d, space, ml, FIXED, 2, ("PropRoundTrip", "PropInteropDG", "PropInteropGD"), False)))
    for key, space, ml in (("QuoteSemi", "val", 1), ("CrRaw", "val", 1), ("ValueStripGit", "val", 1), ("HdrEscAware", "sub", 2)):
        futs.append((f"ConfigCases[{space}<={ml}] negative control {key}=FALSE", key,
                     pool.submit(tlc_cases, d, space, ml, dict(FIXED, **{key: False}), 1, ("PropRoundTrip", "PropInteropDG", "PropInteropGD"), False)))
    return futs


def finish_model_check(ctx, futs):
    for name, key, fut in futs:
        res, _ = fut.result()
        if key is None:
            ctx.add_tlc(name, res)
        else:
            ctx.add_tlc(name, res, require_ok=False)
            if not any(v.startswith("Prop") for v in res.violated):
                raise MachineryError(f"{name}: TLC did not find the expected violation\n{res.output[-1500:]}")


# --------------------------------------------------------------------------- entry
def run(ctx):
    if shutil.which("git") is None:
        raise MachineryError("git binary not found: C20 needs it as the third implementation")
    d = ctx.tmpdir("tlc")
    variant = probe_variant()
    ctx.cov["model_variant"] = dict(variant)
    ctx.log("model variant bound to this tree:", {k: v for k, v in variant.items() if v} or "all FALSE (dulwich 671b511)")
    book = Book(ctx)
    plan = [("val", ctx.pick(4, 5)), ("fval", ctx.pick(3, 4)), ("fhdr", ctx.pick(3, 4)), ("sub", ctx.pick(3, 4)), ("name", ctx.pick(2, 3))]
    order = ["sub", "name", "val"]      # val last: its enumeration takes longest
    import multiprocessing
    with cf.ThreadPoolExecutor(3) as pool, cf.ProcessPoolExecutor(4, mp_context=multiprocessing.get_context("spawn")) as procs:
        gens = {sp: pool.submit(tlc_cases, d, sp, ml, variant, ctx.pick(4, 6) if sp == "val" else ctx.pick(2, 1)) for sp, ml in plan}
        mi = ctx.pick(2, 3)
        opsfut = pool.submit(ops_tlc, d, variant, mi, ctx.pick(2, 6))
        mc = model_check(ctx, d, variant, pool)
        shfut = pool.submit(shared_tlc, d)
        # 1. the git automaton first, on hand-written files (dulwich's writer is not involved)
        for sp, ml in plan:
            if sp not in ("fval", "fhdr"):
                continue
            res, dump = gens[sp].result()
            ctx.add_tlc(f"ConfigCases[{sp}<={ml}] hand-written files: GitRead / DulRead", res)
            cases = load_json_dump(dump)
            replay_file_space(ctx, book, sp, cases)
            ctx.log(f"{sp}<={ml}: {len(cases)} files read by git and by dulwich")
            ctx.sample({"kind": "file", "bytes": repr(bytes(cases[len(cases) // 2]["f"]))})
        if book.spec:
            book.flush()
        # 2. configuration spaces on the real writer/readers
        for sp in order:
            ml = dict(plan)[sp]
            res, dump = gens[sp].result()
            ctx.add_tlc(f"ConfigCases[{sp}<={ml}] tree variant: DulWrite/DulRead/GitRead/GitWrite per case", res)
            n, c = replay_cfg_space(ctx, book, sp, dump, variant, ctx.pick(3, 4), procs)
            ctx.log(f"{sp}<={ml}: {n} configurations through dulwich and git  {ctx.cov['spaces'][sp]}")
            ctx.sample({"kind": sp, KIND[sp]: repr(bytes(c["x"])), "dulwich_writes": repr(bytes(c["dw"])), "git_writes": repr(bytes(c["gw"]))})
        finish_model_check(ctx, mc)
    # 3. histories
    records, meta, tid = ops_phase(ctx, book, opsfut, mi, variant, 0)
    ctx.log(f"histories: {ctx.cov['ops_replay']}")
    # 3b. one file shared by a long-lived owner and external writers; refused rewrites
    shared_phase(ctx, book, d, shfut)
    ctx.log(f"shared file: {ctx.cov['shared_file']}")
    # 4. inputs TLC does not enumerate
    extra = sweep_cases()
    nsweep = len(extra)
    extra += random_cases(ctx, ctx.pick(300, 4000))
    ctx.log(f"executing {len(extra)} more configurations (byte sweep, random)")
    outs = execute_cfgs(ctx, extra)
    ctx.log("executed")
    for i, (cfg, o) in enumerate(zip(extra, outs)):
        tid += 1
        ctx.count()
        ctx.nontrivial(("rec", json.dumps(cfg_hex(cfg), sort_keys=True)))
        records.append(trace_record(tid, cfg, o, fresh=True))
        meta[tid] = {"src": "bytes" if i < nsweep else "random", "cfg": cfg, "o": o}
    ctx.sample({"kind": "recorded", "cfg": cfg_show(extra[-1]), "dulwich_writes": repr(outs[-1]["dw"])})
    verdicts = validate_traces(ctx, d, records, variant, "all", workers=ctx.pick(6, 8))
    ctx.log("judged by TLC")
    oracle = RealOracle(ctx)
    nfail = judge_records(ctx, book, oracle, records, meta, verdicts, variant)
    ctx.cov["recorded"] = {"byte_sweep": nsweep, "random_configurations": len(extra) - nsweep, "history_states": len(records) - len(extra), "failing": nfail}
    ctx.log(f"recorded executions judged by TLC: {len(records)}  failing clauses: {nfail}")
    book.flush()
    ctx.cov["rule"] = ("cases: (a) every string over the special-character alphabets up to the length bound, as value / subsection / "
                       "section+key name / hand-written file tail, enumerated by TLC and executed on the real dulwich and git; (b) every "
                       "transition of the ConfigOps state graph on a real ConfigFile; (c) recorded executions (every byte value, "
                       "random configurations, every ConfigOps state, git-driven histories) judged by TLC.  distinct = distinct input; "
                       "non-trivial = the string contains a character the writer must quote/escape or the reader treats specially "
                       "(blank, TAB, '\"', '\\', '#', ';', LF, CR, VT, FF), every hand-written file, every history transition, every recorded configuration")
    ctx.assumptions += [
        "git 2.39.5 (Debian 1:2.39.5-0+deb12u3, quotes CR on writing) is the reference for InteropDG/InteropGD; Config.tla's git automaton "
        "is compared with it on every case of this run",
        "InteropGD is judged leniently where git cannot read back its own file unchanged: dulwich must return the stored values or what git itself reads",
        "section names without '.', no include/includeIf sections, no NUL; subsections without LF",
        "the model bound to the tree is the declared variant selected by five probes of the public API (see coverage.model_variant)",
        f"every enumerated case ran on the real dulwich writer and reader; the git binary ran on every case up to length {ctx.pick(3, 4)} and on "
        f"every {ctx.pick('8th', '4th')} longer value (coverage.spaces.*.git_ran / dulwich_only), and on every case where dulwich's bytes differ from Config.tla's",
    ]
    return ctx.finish(exhaustive=True)      # every case of every enumerated space was executed on the real dulwich code


# --------------------------------------------------------------------------- replay
def replay_history(ctx, obj):
    from dulwich.config import ConfigFile
    tmp = os.path.join(ctx.tmpdir("ops"), "config")
    want = cfg_unhex(obj["expected"])
    c = ConfigFile()
    print(f"replay history  signature: {obj.get('signature')}")
    got = None
    for l in obj["history"]:
        act, args = parse_label(l)
        try:
            c = apply_op(c, act, args, tmp)
            got = R.dul_project(c)
            print(f"  {show_op(act, args):60s} -> {cfg_show(got)}")
        except Exception as e:      # noqa: BLE001
            got = f"{type(e).__name__}: {e}"
            print(f"  {show_op(act, args):60s} -> {got}")
            break
    print(f"  stored values (Config.tla / git's case rules): {cfg_show(want)}")
    bad = isinstance(got, str) or R.meaning(R.flat(got)) != R.meaning(R.flat(want))
    print("  => " + ("VIOLATION reproduced (History)" if bad else "not reproduced on this tree"))
    return 1 if bad else 0


def replay(ctx, path):
    obj = json.load(open(path))
    if obj.get("kind") == "history":
        return replay_history(ctx, obj)
    if obj.get("kind") == "shared":
        return replay_shared(ctx, obj)
    cfg = cfg_unhex(obj["cfg"])
    clause = obj.get("clause")
    print(f"replay {path}\n  signature: {obj.get('signature')}\n  configuration: {cfg_show(cfg)}")
    hist = initial = None
    if obj.get("history"):
        hist = [[h for h in (git_op(*parse_label(l)) for l in obj["history"]) if h]]
        print(f"  history: {obj['history']}" + ("  (dulwich writes the state before the last operation, git performs the last one)" if obj.get("mixed") else "  (performed by git)"))
        if obj.get("mixed"):
            from dulwich.config import ConfigFile
            c = ConfigFile()
            for l in obj["history"][:-1]:
                c = apply_op(c, *parse_label(l), os.path.join(ctx.tmpdir("ops"), "config"))
            initial, hist = [R.dul_write_obj(c)], [hist[0][-1:]]
    o = execute_cfgs(ctx, [cfg], hist, initial)[0]
    print(f"  dulwich writes   {o['dw']!r}")
    print(f"  dulwich reads    {(cfg_show(o['dr'][1]) if o['dr'][0] else 'ERROR ' + o['dr'][2])}")
    print(f"  git reads        {o['gr'][1] if o['gr'][0] else 'ERROR (git rejects the file)'}")
    print(f"  git writes       {o.get('gw')!r}")
    if o.get("gw") is not None:
        print(f"  dulwich reads it {(cfg_show(o['dg'][1]) if o['dg'][0] else 'ERROR ' + o['dg'][2])}")
        print(f"  git reads it     {o['gg'][1] if o['gg'][0] else 'ERROR'}")
    res = clause_results(cfg, o)
    d = ctx.tmpdir("tlc")
    variant = probe_variant()
    v = validate_traces(ctx, d, [trace_record(1, cfg, o, fresh=hist is None)], variant, "replay", workers=1)[1]
    for cl, pred in zip(CLAUSES, v["model"]):
        print(f"  {cl:10s} observed: {'holds' if res[cl][0] else 'FAILS'}   Config.tla ({'/'.join(k for k, x in variant.items() if x) or 'as-is variant'}) predicts: {'holds' if pred else 'fails'}"
              + (f"\n             {res[cl][1]}" if not res[cl][0] else ""))
    print(f"  drift: {v['drift'] or 'none'}")
    failing = [cl for cl in CLAUSES if not res[cl][0]]
    bad = (clause in failing) if clause else bool(failing)
    print("  => " + (f"VIOLATION reproduced ({clause or failing})" if bad else "not reproduced on this tree"))
    return 1 if bad else 0

"""C05 -- fetch, clone and push transfer a complete, byte-identical object closure.

Specs: specs/TransferOps.tla (objects, closures, shallow cuts, MissingObjectFinder, graph walker, ack
implementations), specs/Transfer.tla (one transfer as a state machine + the properties as
invariants), specs/TransferCases.tla (case enumeration), specs/TransferTrace.tla (judge),
specs/TransferShallow.tla (where the shallow-info part of the conversation sits and how the client
reads it).

  1. TLC model-checks Transfer over several bounded case spaces (negotiation-focused,
     object-graph-focused, work-set order) + negative controls that must fail.
  2. spec -> code: TLC enumerates the same case spaces (TransferCases, deterministic sample);
     every case is materialised as two real repositories (harness/c05_lib.py writes the objects
     with zlib/hashlib, no dulwich) and the transfer is executed over LocalGitClient, a dulwich
     TCP server and dulwich's WSGI smart-HTTP application on loopback, C git upload-pack /
     receive-pack under the dulwich client, the C git client (git://, http://) against the dulwich
     servers, and the porcelain commands (harness/c05_exec.py); the pack on the wire is captured
     and parsed by an independent parser, the receiving directory is projected by a fresh Repo
     (and git cat-file / fsck).  Every behaviour of TransferShallow is replayed on the real
     _handle_upload_pack_head / _handle_upload_pack_tail with a scripted can_read().
  3. code -> spec: every executed transfer -- those of 2 and larger seeded random histories,
     long negotiations, packed/deltified senders, clone, push, depth-limited sequences -- is
     written to ndjson and judged by TLC with TransferTrace: property clauses on the real sets
     (VIOLATION), conformance of the pack content and of the have/ACK dialogue with the model
     (SPEC-DRIFT).
"""
from __future__ import annotations

import concurrent.futures as cf
import json
import multiprocessing as mp
import os
import threading
import time

from .. import tlc
from .. import c05_exec as X
from ..core import MachineryError
from ..tlaval import to_py

POOL = [[["b", 1]], [["b", 1], ["b", 2]], [["t", 1], ["b", 3]], [["t", 1], ["b", 2]], [["t", 3], ["b", 1]]]
POOL_LINK = [0, 0, 0, -1, 0]      # t4 carries a gitlink; -1: to a foreign commit, k > 0: to commit k of the universe
ALL_MODES = '{"single", "multi", "detailed"}'
INVARIANTS = ["TypeOK", "Antecedent", "ReceiverComplete", "NoLoss", "SenderSound", "WantValidation",
              "ThinResolvable", "Confluent", "HavesSound"]

# the bounded case spaces (constants of Transfer.tla); the committed specs/Transfer_*.cfg are the
# same configurations for reading
SPACES = {
    # negotiation: every DAG on 3 commits, one tree, no tags; sender heads x receiver heads x wants
    # x ack mode x "sender keeps unreferenced objects" x forged wants; have/ACK interleavings
    "neg3": dict(NC=3, NTP=1, NT=0, MaxHeads=3, MaxWants=2, Modes=ALL_MODES, IncTag="{FALSE}", Thin="{FALSE}",
                 SFull="{FALSE, TRUE}", Forge="TRUE", MaxInVain=2, AtomicNeg="FALSE", PopAny="FALSE"),
    # object graph: 2 commits x all 16 root-tree assignments over 4 pool trees (shared blobs, shared
    # subtree, gitlink) x <= 1 tag (of a commit / tree / blob) x include-tag x thin-pack
    "obj2": dict(NC=2, NTP=4, NT=1, MaxHeads=2, MaxWants=2, Modes='{"detailed"}', IncTag="{FALSE, TRUE}", Thin="{TRUE}",
                 SFull="{FALSE}", Forge="FALSE", MaxInVain=2, AtomicNeg="TRUE", PopAny="FALSE"),
    # MissingObjectFinder work set popped in every order
    "pop2": dict(NC=2, NTP=4, NT=1, MaxHeads=2, MaxWants=1, Modes='{"detailed"}', IncTag="{TRUE}", Thin="{FALSE}",
                 SFull="{FALSE}", Forge="FALSE", MaxInVain=2, AtomicNeg="TRUE", PopAny="TRUE"),
    # dangling objects: the receiver also holds <= 2 objects of the sender that its refs do not reach and whose
    # closure it lacks (a tip left by an interrupted transfer / partial prune); replayed as pushes over every
    # transport and as fetches with explicit wants
    "dang2": dict(NC=2, NTP=3, NT=0, MaxHeads=2, MaxWants=1, Modes='{"detailed"}', IncTag="{FALSE}", Thin="{TRUE}",
                  SFull="{FALSE}", Forge="FALSE", MaxInVain=2, AtomicNeg="TRUE", PopAny="FALSE", MaxDangle=2),
    # ---- thorough only
    # every DAG on 4 commits (diamonds, criss-cross), one sender branch
    "neg4": dict(NC=4, NTP=1, NT=0, MaxHeads=1, MaxWants=1, Modes=ALL_MODES, IncTag="{FALSE}", Thin="{FALSE}",
                 SFull="{FALSE}", Forge="FALSE", MaxInVain=2, AtomicNeg="FALSE", PopAny="FALSE"),
    # all 5 pool trees (nested subtree) on 2 commits
    "obj2w": dict(NC=2, NTP=5, NT=1, MaxHeads=2, MaxWants=2, Modes='{"detailed"}', IncTag="{FALSE, TRUE}", Thin="{TRUE}",
                  SFull="{FALSE}", Forge="FALSE", MaxInVain=2, AtomicNeg="TRUE", PopAny="FALSE"),
    "obj3": dict(NC=3, NTP=3, NT=1, MaxHeads=3, MaxWants=1, Modes='{"detailed"}', IncTag="{FALSE}", Thin="{TRUE}",
                 SFull="{FALSE}", Forge="FALSE", MaxInVain=2, AtomicNeg="TRUE", PopAny="FALSE"),
    # tag chains: <= 2 tags, the second may tag the first
    "tag2": dict(NC=2, NTP=2, NT=2, MaxHeads=2, MaxWants=2, Modes='{"detailed"}', IncTag="{FALSE, TRUE}", Thin="{TRUE}",
                 SFull="{FALSE}", Forge="FALSE", MaxInVain=2, AtomicNeg="TRUE", PopAny="FALSE"),
    "pop3": dict(NC=2, NTP=3, NT=2, MaxHeads=2, MaxWants=1, Modes='{"detailed"}', IncTag="{TRUE}", Thin="{FALSE}",
                 SFull="{FALSE}", Forge="FALSE", MaxInVain=2, AtomicNeg="TRUE", PopAny="TRUE"),
}
NEGATIVE = {   # name -> (constants, invariant that must be reported violated)
    "nc_parents": (dict(NC=2, NTP=3, NT=1, MaxHeads=2, MaxWants=1, Modes='{"detailed"}', IncTag="{FALSE}", Thin="{FALSE}",
                        SFull="{FALSE}", Forge="FALSE", MaxInVain=2, AtomicNeg="TRUE", PopAny="FALSE",
                        Bug='"RemoteHasParents"'), "ReceiverComplete"),
    "nc_tagged": (dict(NC=2, NTP=3, NT=1, MaxHeads=2, MaxWants=1, Modes='{"detailed"}', IncTag="{TRUE}", Thin="{FALSE}",
                       SFull="{FALSE}", Forge="FALSE", MaxInVain=2, AtomicNeg="TRUE", PopAny="FALSE",
                       Bug='"TaggedAny"'), "SenderSound"),
    "nc_wants": (dict(NC=2, NTP=3, NT=1, MaxHeads=2, MaxWants=1, Modes='{"detailed"}', IncTag="{FALSE}", Thin="{FALSE}",
                      SFull="{TRUE}", Forge="TRUE", MaxInVain=2, AtomicNeg="TRUE", PopAny="FALSE",
                      Bug='"NoWantCheck"'), "WantValidation"),
    # a sender that leaves out a wanted tip because the receiver holds that one object (dangling)
    "nc_dangle": (dict(NC=2, NTP=2, NT=0, MaxHeads=2, MaxWants=1, Modes='{"detailed"}', IncTag="{FALSE}", Thin="{TRUE}",
                       SFull="{FALSE}", Forge="FALSE", MaxInVain=2, AtomicNeg="TRUE", PopAny="FALSE", MaxDangle=1,
                       Bug='"SkipPresentWant"'), "ReceiverComplete"),
}

SITE = {
    ("fetch", "porcelain"): "dulwich/porcelain/__init__.py:fetch",
    ("fetch", "porcelain-pull"): "dulwich/porcelain/__init__.py:pull",
    ("clone", "porcelain"): "dulwich/porcelain/__init__.py:clone",
    ("push", "porcelain"): "dulwich/porcelain/__init__.py:push",
    ("fetch", "local"): "dulwich/repo.py:BaseRepo.fetch",
    ("fetch", "localpack"): "dulwich/client.py:LocalGitClient.fetch_pack",
    ("fetch", "mofapi"): "dulwich/object_store.py:MissingObjectFinder",
    ("fetch", "tcp"): "dulwich/server.py:UploadPackHandler.handle",
    ("fetch", "http"): "dulwich/client.py:AbstractHttpGitClient.fetch_pack",
    ("fetch", "githttp"): "dulwich/web.py:handle_service_request",
    ("clone", "http"): "dulwich/client.py:GitClient.clone",
    ("push", "http"): "dulwich/client.py:AbstractHttpGitClient.send_pack",
    ("push", "githttp"): "dulwich/server.py:ReceivePackHandler.handle",
    ("fetch", "gitserver"): "dulwich/client.py:TraditionalGitClient.fetch_pack",
    ("fetch", "gitclient"): "dulwich/server.py:UploadPackHandler.handle",
    ("clone", "local"): "dulwich/client.py:LocalGitClient.clone",
    ("clone", "tcp"): "dulwich/client.py:GitClient.clone",
    ("clone", "gitserver"): "dulwich/client.py:GitClient.clone",
    ("clone", "gitclient"): "dulwich/server.py:UploadPackHandler.handle",
    ("push", "local"): "dulwich/client.py:LocalGitClient.send_pack",
    ("push", "tcp"): "dulwich/client.py:TraditionalGitClient.send_pack",
    ("push", "gitserver"): "dulwich/client.py:TraditionalGitClient.send_pack",
    ("push", "gitclient"): "dulwich/server.py:ReceivePackHandler.handle",
}

MAX_TLC_WORKERS = 8


class Tokens:
    def __init__(self, n):
        self.free = n
        self.cv = threading.Condition()

    def run(self, spec, cfg, **kw):
        k = kw.get("workers", 1)
        with self.cv:
            while self.free < k:
                self.cv.wait()
            self.free -= k
        try:
            return tlc.run(spec, cfg, **kw)
        finally:
            with self.cv:
                self.free += k
                self.cv.notify_all()


TOKENS = Tokens(MAX_TLC_WORKERS - 3)      # enumeration and model checking
JTOKENS = Tokens(3)                       # judging executed transfers (one worker each): never waits for the former


def run_big(spec, cfg, **kw):
    """a model-checking run that may reach millions of states: bounded heap, state queue and
    fingerprints spill to the disk, not to /dev/shm (which is RAM)"""
    import shutil
    meta = os.path.join("/verif/out/tmp", f"c05-tlc-{os.getpid()}-{time.time_ns()}")
    os.makedirs(meta, exist_ok=True)
    try:
        return TOKENS.run(spec, cfg, metadir=meta, java_opts=["-Xmx3g"], **kw)
    finally:
        shutil.rmtree(meta, ignore_errors=True)


def write_cfg(d, name, consts, *, spec, invariants=(), extra=None):
    c = dict(consts)
    c.setdefault("Bug", '"none"')
    c.setdefault("MaxDangle", 0)
    if extra:
        c.update(extra)
    path = os.path.join(d, name + ".cfg")
    tlc.write_cfg(path, spec=spec, constants=c, invariants=list(invariants))
    return path


# --------------------------------------------------------------------------- cases -> jobs
def h32(*xs):
    h = 2166136261
    for x in xs:
        for ch in str(x):
            h = ((h ^ ord(ch)) * 16777619) & 0xFFFFFFFF
    return h


def case_from_state(cs):
    c = to_py(cs)
    return {
        "U": {"par": [sorted(p) for p in c["par"]], "tr": list(c["tr"]), "ent": POOL, "lnk": POOL_LINK,
              "tg": [list(o) for o in c["tg"]]},
        "sh": sorted(c["sh"]), "full": int(c["full"]), "rh": sorted(c["rh"]), "rt": sorted(c["rt"]),
        "wants": sorted(list(o) for o in c["wants"]),
        "forged": int(not set(map(tuple, c["wants"])) <= set(map(tuple, c["srefs"]))),
        "mode": c["mode"], "inctag": bool(c["inctag"]), "thin": bool(c["thin"]),
        "rdang": sorted(list(o) for o in c.get("dg", ())),
    }


def case_key(c):
    u = c["U"]
    s = "par=" + "/".join(",".join(map(str, p)) or "-" for p in u["par"])
    s += " tr=" + ",".join(map(str, u["tr"]))
    if len(u["ent"]) != len(POOL) or u["ent"] != POOL:
        s += " ent=" + "/".join(",".join(f"{o[0]}{o[1]}" for o in e) or "-" for e in u["ent"])
    if any(x > 0 for x in u["lnk"]):
        s += " gitlink=" + ",".join(f"t{j}->c{x}" for j, x in enumerate(u["lnk"], 1) if x > 0)
    s += " tg=" + (",".join(f"{o[0]}{o[1]}" for o in u["tg"]) or "-")
    s += " sh=" + ",".join(map(str, c["sh"])) + (" full" if c.get("full") else "")
    s += " rh=" + (",".join(map(str, c["rh"])) or "-") + " rt=" + (",".join(map(str, c["rt"])) or "-")
    s += " wants=" + ",".join(f"{o[0]}{o[1]}" for o in c["wants"])
    if c.get("rdang"):
        s += " receiver-dangling=" + ",".join(f"{o[0]}{o[1]}" for o in c["rdang"])
    return s


def caps_key(j):
    c = j.get("caps", {})
    bits = [c.get("mode", "detailed")]
    for k in ("inctag", "nodone", "v2"):
        if c.get(k):
            bits.append(k)
    for k in ("thin", "ofs", "sideband"):
        if k in c and not c[k]:
            bits.append("no-" + k)
    if j.get("sgrafts"):
        bits.append("sender-grafts:" + ";".join(f"c{c}<-" + (",".join(f"c{q}" for q in ps) or "root") for c, ps in j["sgrafts"]))
    if j.get("sshal"):
        bits.append("sender-shallow:" + ",".join(f"c{i}" for i in j["sshal"]))
    if j.get("via"):
        bits.append("via:" + j["via"])
    if j.get("default_refspec"):
        bits.append("default-refspec")
    if j.get("slayout", "loose") != "loose":
        bits.append("s:" + j["slayout"])
    if j.get("rlayout", "loose") != "loose":
        bits.append("r:" + j["rlayout"])
    return "+".join(bits)


def gitlink_targets(U, j):
    """commits of the universe that tree j can name in a gitlink without the object ids becoming
    circular: no ancestor-or-self of the commit may have tree j below its root tree"""
    ent = U["ent"]

    def below(t, seen):
        if t in seen:
            return seen
        seen.add(t)
        for o in ent[t - 1]:
            if o[0] == "t":
                below(o[1], seen)
        return seen
    holds = [j in below(t, set()) for t in U["tr"]]          # per commit: its tree contains tree j
    dirty = list(holds)
    for i, ps in enumerate(U["par"]):                        # parents have smaller numbers
        dirty[i] = dirty[i] or any(dirty[p - 1] for p in ps)
    return [i + 1 for i in range(len(U["par"])) if not dirty[i]]


def vary_gitlinks(U, h):
    """the model does not care what a gitlink names; the replay lets it name a commit of the same
    universe in two cases out of three"""
    lnk = list(U["lnk"])
    used = set()
    todo = list(U["tr"])
    while todo:
        t = todo.pop()
        if t not in used:
            used.add(t)
            todo.extend(o[1] for o in U["ent"][t - 1] if o[0] == "t")
    for j, x in enumerate(lnk, 1):
        if x and j in used and h % 3:
            cand = gitlink_targets(U, j)
            if cand:
                lnk[j - 1] = cand[(h >> 2) % len(cand)]
        h >>= 3
    return dict(U, lnk=lnk)


def via_of(h):
    return ["path", "tcp", "http"][(h >> 27) % 3]


def jobs_for_case(ctx, c, space, k, gitfrac, tid0):
    """the executions of one enumerated case; k = running number (rotates the capability sets)"""
    out = []
    h = h32(ctx.seed, space, k)
    c = dict(c, U=vary_gitlinks(c["U"], h >> 4))

    def job(op, transport, caps=None, **kw):
        j = {key: c[key] for key in ("U", "sh", "full", "rh", "rt", "wants", "forged")}
        if c.get("rdang"):
            j["rdang"] = c["rdang"]
        j.update(kw)
        j.update(op=op, transport=transport, space=space, caps=caps or {})
        j["gitcheck"] = int((h >> 3) % ctx.pick(4, 2) == 0)
        out.append(j)
    layout = ["loose", "loose", "gitpack", "loose", "bitmap", "loose", "loose", "loose"][(h >> 5) % 8]
    rlayout = ["loose", "loose", "loose", "gitpack", "loose", "loose", "loose", "loose"][(h >> 9) % 8]
    if space.startswith("dang"):
        # the receiver holds dangling objects of the sender (the cases without any are those of obj2): a push over
        # the in-process client always, one over a rotating other transport, and a fetch with explicit wants
        if not c.get("rdang"):
            return out
        job("push", "local")
        tr = ["tcp", "http", "gitserver", "gitclient", "githttp", "porcelain"][(h >> 22) % 6]
        job("push", tr, **({"via": via_of(h)} if tr == "porcelain" else {}))
        job("fetch", ["local", "localpack", "tcp", "gitserver"][(h >> 25) % 4],
            caps={"mode": c["mode"]} if (h >> 25) % 4 >= 2 else None)
        # the commands that decide themselves what to ask for (determine_wants_all looks into the receiver's store)
        if (h >> 28) % 2 == 0:
            job("fetch", "porcelain", via=via_of(h))
        return out
    if c["forged"]:
        # a request for an object that is not an advertised value, to every dulwich server
        job("fetch", "tcp", caps={"mode": c["mode"]}, slayout=layout)
        job("fetch", "http", caps={"mode": c["mode"]}, slayout=layout)
        return out
    if k % 2 == 0:
        job("fetch", "local", slayout=layout, rlayout=rlayout)
    else:
        job("fetch", "localpack", slayout=layout, rlayout=rlayout)
    job("fetch", "tcp", caps={"mode": c["mode"], "inctag": c["inctag"], "nodone": bool((h >> 11) & 1)},
        slayout=layout, rlayout=rlayout)
    if c["inctag"] and c["U"]["tg"]:
        job("fetch", "mofapi", caps={"inctag": True}, slayout=layout, rlayout=rlayout)
    # depth-limited variants of the DAG-focused cases (one step, sometimes a deepening second one)
    if space.startswith("neg") and (h >> 7) % ctx.pick(5, 3) == 0 and all(w[0] == "c" for w in c["wants"]):
        d = 1 + (h >> 15) % 2
        steps = [{"wants": c["wants"], "depth": d}]
        nxt = (h >> 16) % 4
        if nxt == 1:
            steps.append({"wants": c["wants"], "depth": d + 1})
        elif nxt == 2:
            steps.append({"wants": c["wants"], "depth": 0x7FFFFFFF})
        elif nxt == 3:
            steps.append({"wants": [["c", i] for i in c["sh"]], "depth": 0})
        tr = ["local", "localpack", "tcp", "gitserver", "gitclient", "http", "githttp", "tcp"][(h >> 18) % 8]
        caps = {"mode": c["mode"]} if tr in ("tcp", "gitserver", "http") else {}
        job("fetch", tr, caps=caps, steps=steps, depth=d, slayout=layout, rlayout="loose")
    # the porcelain commands: they choose the refs that get written
    pg = (h >> 24) % ctx.pick(6, 5)
    via = ["path", "tcp", "http"][(h >> 27) % 3]
    named = all(tuple(w) in {("c", i) for i in c["sh"]} | {("g", m + 1) for m in range(len(c["U"]["tg"]))} for w in c["wants"])
    if pg == 0:
        job("fetch", "porcelain", via=via, slayout=layout, rlayout=rlayout)
    elif pg == 1 and named and all(w[0] == "c" for w in c["wants"]):
        job("fetch", "porcelain-pull", via=via, slayout=layout, rlayout=rlayout, rhead_unborn=1,
            default_refspec=int((h >> 29) % 3 == 0))
    elif pg == 2 and named:
        job("push", "porcelain", via=via, slayout=layout, rlayout=rlayout)
    elif pg == 3 and not c["rh"] and not c["rt"]:
        job("clone", "porcelain", via=via, slayout=layout)
    g = (h >> 13) % gitfrac
    if g == 4:
        job("fetch", "http", caps={"mode": c["mode"], "nodone": bool((h >> 11) & 1)}, slayout=layout, rlayout=rlayout)
    elif g == 5:
        job("fetch", "githttp", slayout=layout, rlayout=rlayout)
    if g == 0:
        job("fetch", "gitserver", caps={"mode": c["mode"], "inctag": c["inctag"], "thin": c["thin"] and bool((h >> 17) & 1),
                                        "ofs": bool((h >> 18) & 1), "sideband": bool((h >> 19) & 1),
                                        "v2": bool((h >> 20) & 1)}, slayout=layout, rlayout=rlayout)
    elif g == 1:
        job("fetch", "gitclient", caps={"inctag": c["inctag"], "v2": bool((h >> 20) & 1),
                                        "keep_pack": bool((h >> 21) & 1)}, slayout=layout, rlayout=rlayout)
    elif g == 2:
        job("push", ["local", "tcp", "gitserver", "gitclient", "http", "githttp"][(h >> 22) % 6], slayout=layout, rlayout=rlayout)
    elif g == 3 and not c["rh"] and not c["rt"]:
        job("clone", ["local", "tcp", "gitserver", "gitclient", "http"][(h >> 22) % 5], slayout=layout)
    return out


# --------------------------------------------------------------------------- code -> spec: larger cases
def random_case(rng, n_lo=4, n_hi=8):
    n = rng.randint(n_lo, n_hi)
    nt = rng.randint(3, 7)          # trees
    nb = rng.randint(2, 6)          # blobs
    ent, lnk = [], []
    for t in range(1, nt + 1):
        kids = [["b", b] for b in rng.sample(range(1, nb + 1), rng.randint(1, min(3, nb)))]
        if t > 1:
            for s in rng.sample(range(1, t), rng.randint(0, min(2, t - 1))):
                kids.append(["t", s])
        ent.append(sorted(kids))
        lnk.append(-1 if rng.random() < 0.25 else 0)
    par = []
    shape = rng.choice(["any", "any", "linear", "crisscross", "roots"])
    for i in range(1, n + 1):
        if i == 1:
            p = []
        elif shape == "linear":
            p = [i - 1]
        elif shape == "roots" and i <= 2:
            p = []
        elif shape == "crisscross":
            p = [1] if i <= 3 else [i - 2 - (i % 2), i - 1 - (i % 2)]
        else:
            p = sorted(rng.sample(range(1, i), min(i - 1, rng.choice([0, 1, 1, 1, 2, 2, 3]))))
        par.append(p)
    tr = [rng.randint(1, nt) for _ in range(n)]
    for j in range(1, nt + 1):          # half of the gitlinks name a commit of this very history
        if lnk[j - 1] and rng.random() < 0.5:
            cand = gitlink_targets({"par": par, "tr": tr, "ent": ent}, j)
            if cand:
                lnk[j - 1] = rng.choice(cand)
                try:                    # two gitlinks can close a cycle through each other's commits
                    X.L.Universe(par, tr, ent, lnk, [])
                except ValueError:
                    lnk[j - 1] = -1
    tg = []
    for m in range(1, rng.randint(0, 3) + 1):
        kind = rng.choice("ccctbg" if m > 1 else "ccctb")
        tg.append({"c": ["c", rng.randint(1, n)], "t": ["t", rng.randint(1, nt)], "b": ["b", rng.randint(1, nb)],
                   "g": ["g", rng.randint(1, max(1, m - 1))]}[kind])
    sh = sorted(rng.sample(range(1, n + 1), rng.randint(1, min(3, n))))
    rh = sorted(rng.sample(range(1, n + 1), rng.randint(0, min(3, n))))
    rt = sorted(rng.sample(range(1, len(tg) + 1), rng.randint(0, len(tg)))) if tg else []
    refs = [["c", i] for i in sh] + [["g", m] for m in range(1, len(tg) + 1)]
    wants = sorted(rng.sample(refs, rng.randint(1, min(3, len(refs)))))
    skew = {}
    if rng.random() < 0.3:
        for i in rng.sample(range(1, n + 1), rng.randint(1, n)):
            skew[str(i)] = 1_000_000_000 + rng.randint(0, 100 * n)
    return {"U": {"par": par, "tr": tr, "ent": ent, "lnk": lnk, "tg": tg}, "sh": sh, "full": int(rng.random() < 0.3),
            "rh": rh, "rt": rt, "wants": wants, "forged": 0, "skew": skew,
            "mode": rng.choice(["single", "multi", "detailed", "detailed"]), "inctag": rng.random() < 0.4,
            "thin": rng.random() < 0.7}


def long_case(n_private, n_common, both_heads):
    """receiver: c1..c<n_common> shared with the sender plus a private chain of n_private commits on
    top of c1; sender: the common chain plus one more commit.  Exercises long have lists and the
    in_vain cut-off (MAX_IN_VAIN = 256) once an ACK has been seen."""
    nc = n_common
    par = [[]] + [[i] for i in range(1, nc)]             # 1..nc linear
    par.append([nc])                                       # nc+1: the wanted tip
    first = nc + 2
    par.append([1])
    for i in range(first + 1, first + n_private):
        par.append([i - 1])
    n = len(par)
    tr = [1 + (i % 2) for i in range(n)]
    return {"U": {"par": par, "tr": tr, "ent": POOL, "lnk": POOL_LINK, "tg": []}, "sh": [nc + 1], "full": 0,
            "rh": ([nc] if both_heads else []) + [n], "rt": [], "wants": [["c", nc + 1]], "forged": 0,
            "mode": "detailed", "inctag": False, "thin": True, "big": False}


def extra_jobs(ctx):
    rng = ctx.rng
    out = []
    n_rand = ctx.pick(60, 1500)
    transports = [("fetch", "local"), ("fetch", "localpack"), ("fetch", "mofapi"), ("fetch", "tcp"), ("fetch", "tcp"), ("fetch", "gitserver"),
                  ("fetch", "gitclient"), ("fetch", "http"), ("fetch", "githttp"),
                  ("push", "local"), ("push", "tcp"), ("push", "gitserver"), ("push", "gitclient"), ("push", "http"), ("push", "githttp"),
                  ("clone", "local"), ("clone", "tcp"), ("clone", "gitserver"), ("clone", "gitclient"), ("clone", "http"),
                  ("fetch", "porcelain"), ("fetch", "porcelain-pull"), ("clone", "porcelain"), ("push", "porcelain")]
    for i in range(n_rand):
        c = random_case(rng)
        for op, tr in rng.sample(transports, ctx.pick(2, 3)):
            caps = {"mode": c["mode"], "inctag": c["inctag"], "nodone": rng.random() < 0.3}
            if tr == "gitserver":
                caps.update(thin=c["thin"], ofs=rng.random() < 0.6, sideband=rng.random() < 0.6, v2=rng.random() < 0.4)
            if tr == "gitclient":
                caps = {"inctag": c["inctag"], "v2": rng.random() < 0.4, "keep_pack": rng.random() < 0.5}
            j = {k: c[k] for k in ("U", "sh", "full", "rh", "rt", "wants", "forged", "skew")}
            j.update(op=op, transport=tr, caps=caps, space="random", gitcheck=int(rng.random() < 0.5),
                     slayout=rng.choice(["loose", "gitpack", "gitpack", "bitmap"]),
                     rlayout=rng.choice(["loose", "loose", "gitpack"]))
            if tr == "porcelain-pull" and not all(w[0] == "c" for w in c["wants"]):
                continue        # pulling a tag makes a branch point at the tag object: not this property's business
            if tr.startswith("porcelain"):
                j.update(via=rng.choice(["path", "tcp", "http"]), rhead_unborn=int(tr == "porcelain-pull"),
                         default_refspec=int(rng.random() < 0.3))
            if op in ("fetch", "clone") and tr not in ("mofapi", "porcelain-pull") and rng.random() < 0.35:
                # depth-limited, then perhaps deepened / unshallowed / followed by an ordinary fetch
                d = rng.randint(1, 3)
                steps = [{"wants": c["wants"], "depth": d}]
                if op == "fetch":
                    nxt = rng.choice(["", "deepen", "unshallow", "plain", "plain"])
                    if nxt == "deepen":
                        steps.append({"wants": c["wants"], "depth": d + rng.randint(1, 2)})
                    elif nxt == "unshallow":
                        steps.append({"wants": c["wants"], "depth": 0x7FFFFFFF})
                    elif nxt == "plain":
                        steps.append({"wants": [["c", i] for i in c["sh"]], "depth": 0})
                j.update(steps=steps, depth=d, rlayout="loose")
            out.append(j)
    # depth-limited fetch by a client with a private history: several unacknowledged haves go out
    # while the server's shallow-info section is already waiting to be read
    for (npriv, depth) in ctx.pick([(12, 1), (12, 2)], [(6, 1), (6, 2), (12, 1), (3, 2), (20, 3)]):
        par = [[], [1], [2], [1]] + [[i] for i in range(4, 3 + npriv)]
        n = len(par)
        base = {"U": {"par": par, "tr": [1 + (i % 3) for i in range(n)], "ent": POOL, "lnk": POOL_LINK, "tg": []},
                "sh": [3], "full": 0, "rh": [n], "rt": [], "wants": [["c", 3]], "forged": 0}
        for tr in ("tcp", "gitserver", "http", "gitclient", "local"):
            for mode in (("detailed",) if ctx.quick or tr in ("gitclient", "local") else ("detailed", "multi")):
                j = dict(base)
                steps = [{"wants": [["c", 3]], "depth": depth}]
                if not ctx.quick:
                    steps.append({"wants": [["c", 3]], "depth": 0x7FFFFFFF})
                j.update(op="fetch", transport=tr, caps={"mode": mode} if tr != "gitclient" else {}, space="shallow",
                         gitcheck=1, steps=steps, depth=depth)
                out.append(j)
        # the same repository, shallow after the first step, then fetches without a depth over protocol v2
        j = dict(base)
        j.update(op="fetch", transport="gitserver", caps={"mode": "detailed", "v2": True}, space="shallow", gitcheck=1, depth=depth,
                 rh=[], steps=[{"wants": [["c", 2]], "depth": depth}, {"wants": [["c", 3]], "depth": 0}])
        out.append(j)
    # ---- a gitlink that names a commit of the same repository (a branch embedded as a submodule):
    # the embedding commit is common, the embedded commit is wanted
    link = lambda k: [0, 0, 0, k, 0]
    shapes = [
        # c2 (tree t4 -> c1) is what the receiver has, c3 its child; c1 and c3 are wanted
        dict(par=[[], [], [2]], tr=[1, 4, 2], lnk=link(1), tg=[], sh=[1, 3], rh=[2], rt=[], wants=[["c", 1], ["c", 3]]),
        # the receiver's own tip c2 is asked for again together with the commit its gitlink names
        dict(par=[[], []], tr=[1, 4], lnk=link(1), tg=[], sh=[1, 2], rh=[2], rt=[], wants=[["c", 1], ["c", 2]]),
        # the embedded commit is wanted through a tag; it has history of its own
        dict(par=[[], [1], [], [3]], tr=[2, 3, 4, 5], lnk=link(2), tg=[["c", 2]], sh=[4], rh=[3], rt=[], wants=[["g", 1], ["c", 4]]),
        # the gitlink sits in a subtree of the common commit (t6 = {t4, b3})
        dict(par=[[], [], [2]], tr=[1, 6, 3], lnk=link(1) + [0], ent=POOL + [[["t", 4], ["b", 3]]], tg=[], sh=[1, 3], rh=[2], rt=[],
             wants=[["c", 1], ["c", 3]]),
    ]
    trs = [("fetch", "local"), ("fetch", "tcp"), ("fetch", "http"), ("push", "tcp"), ("fetch", "localpack"), ("fetch", "mofapi"),
           ("fetch", "gitclient"), ("fetch", "githttp"), ("push", "local"), ("push", "http"), ("push", "porcelain"),
           ("fetch", "porcelain"), ("push", "gitserver")]
    for si, sh in enumerate(shapes[:ctx.pick(2, 4)]):
        for op, tr in trs[:ctx.pick(4, len(trs))]:
            j = {"U": {"par": sh["par"], "tr": sh["tr"], "ent": sh.get("ent", POOL), "lnk": sh["lnk"], "tg": sh["tg"]},
                 "sh": sh["sh"], "full": 0, "rh": sh["rh"], "rt": sh["rt"], "wants": sh["wants"], "forged": 0}
            j.update(op=op, transport=tr, caps={"mode": "detailed"} if tr in ("tcp", "http") else {}, space="gitlink", gitcheck=1,
                     slayout=["loose", "gitpack"][si % 2])
            if tr == "porcelain":
                j["via"] = ["tcp", "http", "path"][si % 3]
            out.append(j)
    # ---- a shallow clone fetches again with a depth: its old boundary stays out of reach of the new
    # depth while a merge brings in a side branch that joins the main line below that boundary
    #   c1 - c2(old tip, old boundary) - c3 .. c(2+m) - T      T = merge(c(2+m), B),  B = child of c1 (or of a root c0 chain)
    def refetch(m, depth, deep_side):
        par = [[], [1]] + [[i] for i in range(2, 2 + m)]            # c1, c2, main line up to c(2+m)
        top = 2 + m
        if deep_side:                                                 # the side branch has two commits
            par += [[1], [top + 1], [top, top + 2]]
        else:
            par += [[1], [top, top + 1]]
        n = len(par)
        return {"U": {"par": par, "tr": [1 + (i % 3) for i in range(n)], "ent": POOL, "lnk": POOL_LINK, "tg": []},
                "sh": [2, n], "full": 0, "rh": [], "rt": [], "wants": [["c", 2]], "forged": 0,
                "steps": [{"wants": [["c", 2]], "depth": 1}, {"wants": [["c", n]], "depth": depth}], "depth": 1}
    variants = ctx.pick([(2, 3, False), (1, 2, False)],
                        [(2, 3, False), (1, 2, False), (3, 3, False), (2, 4, True), (3, 4, True), (1, 3, True), (2, 2, False)])
    rtrs = ctx.pick(["tcp", "http", "local", "gitclient"],
                    ["tcp", "http", "local", "localpack", "gitclient", "githttp", "gitserver", "porcelain"])
    for (m, depth, deep) in variants:
        for tr in rtrs:
            for mode in (("detailed",) if ctx.quick or tr not in ("tcp", "http") else ("detailed", "multi", "single")):
                j = refetch(m, depth, deep)
                j.update(op="fetch", transport=tr, caps={"mode": mode} if tr in ("tcp", "http", "gitserver") else {},
                         space="refetch", gitcheck=1)
                if tr == "porcelain":
                    j["via"] = "tcp"
                out.append(j)
    # ---- state of the SENDING repository that must never shape what it sends: an info/grafts file
    # (hiding a parent, adding a fake one; every object present) and a sender that is a shallow clone
    # (then a transfer that needs what is missing has to fail, not succeed truncated)
    #   c1 - c2 - c3 - c4      c5 = child of c1 on a branch of its own
    sc = {"U": {"par": [[], [1], [2], [3], [1]], "tr": [1, 2, 3, 5, 2], "ent": POOL, "lnk": POOL_LINK, "tg": []},
          "sh": [4, 5], "full": 0, "rt": [], "wants": [["c", 4]], "forged": 0}
    cfgs = [dict(sgrafts=[[3, []]]), dict(sshal=[3], sh=[4]), dict(sgrafts=[[2, [1, 5]]]), dict(sgrafts=[[4, [2]]]),
            dict(sgrafts=[[3, []]], sshal=[2], sh=[4])]
    strs = [("fetch", "tcp"), ("fetch", "local"), ("fetch", "http"), ("fetch", "gitclient"), ("fetch", "localpack"), ("fetch", "mofapi"),
            ("fetch", "githttp"), ("clone", "tcp"), ("clone", "local"), ("clone", "http"), ("fetch", "porcelain"), ("clone", "porcelain")]
    for ci, cfg in enumerate(cfgs[:ctx.pick(3, len(cfgs))]):
        for ti, (op, tr) in enumerate(strs[:ctx.pick(4, len(strs))]):
            for rh in ([[]] if ctx.quick or op == "clone" else [[], [1]]):
                j = dict(sc)
                j.update(cfg)
                j.update(op=op, transport=tr, rh=rh, caps={"mode": "detailed"} if tr in ("tcp", "http") else {}, space="sendercfg",
                         gitcheck=1, slayout="loose")
                if tr == "porcelain":
                    j["via"] = ["tcp", "http", "path"][(ci + ti) % 3]
                out.append(j)
                if cfg.get("sshal") and op == "fetch" and tr in ("tcp", "local", "http") and not ctx.quick:
                    j2 = dict(j)        # what a shallow sender can serve: a depth that stays above its boundary
                    j2.update(steps=[{"wants": [["c", 4]], "depth": 1}], depth=1)
                    out.append(j2)
    # ---- a shallow dulwich client against C git upload-pack (which honours haves in shallow sessions):
    #   c1(R) - c2(P) - c3(X)      c4(S) = child of R,  c5(M) = merge(X, S)
    # depth-1 clone of X, then (a) deepen to 2: P must arrive, (b) ordinary fetch of M: S and R must
    # arrive although they lie below the client's boundary, (c) both in a row
    sg = {"U": {"par": [[], [1], [2], [1], [3, 4]], "tr": [1, 2, 3, 2, 5], "ent": POOL, "lnk": POOL_LINK, "tg": []},
          "sh": [3, 5], "full": 0, "rh": [], "rt": [], "wants": [["c", 3]], "forged": 0}
    first = {"wants": [["c", 3]], "depth": 1}
    seqs = [[first, {"wants": [["c", 3]], "depth": 2}], [first, {"wants": [["c", 5]], "depth": 0}]]
    if not ctx.quick:
        seqs += [[first, {"wants": [["c", 3]], "depth": 2}, {"wants": [["c", 5]], "depth": 0}],
                 [first, {"wants": [["c", 5]], "depth": 2}], [first, {"wants": [["c", 3]], "depth": 0x7FFFFFFF}, {"wants": [["c", 5]], "depth": 0}]]
    for steps in seqs:
        for v2 in (False, True):
            for mode in (("detailed",) if ctx.quick or v2 else ("detailed", "multi", "single")):
                for tr in (("gitserver",) if ctx.quick else ("gitserver", "tcp", "http", "local")):
                    if tr != "gitserver" and (v2 or mode != "detailed"):
                        continue
                    j = dict(sg)
                    j.update(op="fetch", transport=tr, caps={"mode": mode, "v2": v2} if tr == "gitserver" else {"mode": mode},
                             space="shallowgit", gitcheck=1, steps=steps, depth=1,
                             slayout="loose" if ctx.quick else ["loose", "gitpack"][int(v2)])
                    out.append(j)
    for (npriv, ncom, both) in ctx.pick([(270, 3, True), (40, 2, False)], [(270, 3, True), (300, 2, False), (600, 4, True), (40, 2, False)]):
        c = long_case(npriv, ncom, both)
        for tr in ("tcp", "local", "gitserver", "githttp", "http", "gitclient"):
            for mode in (("detailed",) if ctx.quick or tr in ("githttp", "gitclient") else ("detailed", "multi", "single")):
                j = {k: c[k] for k in ("U", "sh", "full", "rh", "rt", "wants", "forged", "big")}
                j.update(op="fetch", transport=tr, caps={"mode": mode}, space="long", gitcheck=0)
                out.append(j)
    return out


# --------------------------------------------------------------------------- judge
TRACE_KEYS = ("tid", "U", "op", "snd", "rcv", "sstore", "srefs", "sshal", "dang", "r0", "rtips0", "shal0", "depth", "r1", "rtips1", "shal1",
              "runk", "idbad", "gitok",
              "wants", "mwants", "forged", "inctag", "ok", "cap", "sent", "sunk", "thin", "hk", "haves", "offered", "mode", "srv", "cli",
              "rheads", "miv")


def judge(ctx, d, recs, label, nproc=3):
    """TLC TransferTrace over the records; -> {tid: (clause, shape, detail)}"""
    if not recs:
        return {}
    chunks = []
    per = max(50, (len(recs) + nproc - 1) // nproc)
    big = [r for r in recs if len(r["U"]["par"]) > 20]
    small = [r for r in recs if len(r["U"]["par"]) <= 20]
    for i in range(0, len(small), per):
        chunks.append(small[i:i + per])
    for r in big:
        chunks.append([r])
    futs = []
    with cf.ThreadPoolExecutor(max_workers=max(1, nproc)) as ex:
        for i, ch in enumerate(chunks):
            path = os.path.join(d, f"trace-{label}-{i}.ndjson")
            with open(path, "w") as f:
                for r in ch:
                    f.write(json.dumps({k: r[k] for k in TRACE_KEYS}, separators=(",", ":")) + "\n")
            futs.append((ch, ex.submit(JTOKENS.run, "TransferTrace.tla", "TransferTrace.cfg", workers=1, timeout=3000,
                                       env={"TRACE_FILE": path})))
        out = {}
        for i, (ch, fu) in enumerate(futs):
            res = fu.result()
            ctx.add_tlc(f"TransferTrace[{label}:{i}]", res, require_ok=False)
            vs = {v[1]: v for v in tlc.extract_printed(res.output, "V")}
            if not res.completed or len(vs) != len(ch):
                raise MachineryError(f"trace validation incomplete ({len(vs)}/{len(ch)} verdicts)\n{res.output[-3000:]}")
            for tid, v in vs.items():
                out[tid] = (v[2], v[3], to_py(v[4]))
    return out


def size_key(j):
    u = j["U"]
    return (len(u["par"]), len(u["tg"]), len(j["wants"]), len(j["rh"]) + len(j["rt"]), sum(map(len, u["par"])), len(j["sh"]))


def steps_key(j, r):
    if not j.get("steps") and not r.get("depth"):
        return ""
    st = j.get("steps") or [{"wants": j["wants"], "depth": j.get("depth", 0)}]
    out = []
    for k, x in enumerate(st[:r["step"] + 1]):
        d = x.get("depth", 0)
        out.append(("unshallow" if d >= 0x7FFFFFFF else f"depth={d}" if d else "plain") + ":" +
                   ",".join(f"{o[0]}{o[1]}" for o in x["wants"]))
    return " steps=" + ";".join(out)


PULL_IMPORT_SIG = ("dulwich/porcelain/__init__.py:pull|ReceiverComplete.closed|remote branches and tags that were not fetched "
                   "are imported as refs/remotes/<remote>/* and refs/tags/* and point at absent objects")
V2_SHALLOW_SIG = ("dulwich/client.py:_handle_upload_pack_tail|ReceiverComplete.wants|protocol v2 fetch without depth by a shallow "
                  "repository: the shallow-info section of the response is taken for the packfile section, the pack is not "
                  "read, success is reported")
SHALLOW_LOOP_SIG = ("dulwich/client.py:_handle_upload_pack_head|ReceiverComplete|depth-limited fetch over a stateful transport "
                    "(git://, subprocess) by a client that has heads to offer: shallow-info lines are read and dropped by "
                    "the have loop, .git/shallow misses boundary commits")


def report(ctx, jobs, recs, verdicts):
    """turn verdicts into VIOLATION / SPEC-DRIFT / machinery errors; returns counters"""
    cnt = {"ok": 0, "failed_transfers": 0, "violations": 0, "drift": 0, "after_failed_step": 0}
    spec_bugs, viol, drift = [], {}, {}
    fails = {}
    bad_jobs = set()             # jobs with a step that already violated: later steps start outside the antecedent
    for r in sorted(recs, key=lambda r: r["tid"]):
        j = jobs[r["tid"]]
        clause, shape, detail = verdicts[r["tid"]]
        ctx.count()
        ctx.validated()
        if not r["ok"] and not j.get("forged"):
            cnt["failed_transfers"] += 1
            k = f"{j['op']}/{j['transport']}/{caps_key(j)}{' step ' + str(r['step']) if r['step'] else ''}" \
                f"{' depth' if r['depth'] else ''}{' shallow-receiver' if r['shal0'] else ''}: {r['err'][:90]}"
            fails[k] = fails.get(k, 0) + 1
        if clause == "Antecedent" and r["step"] > 0 and j["tid"] in bad_jobs:
            cnt["after_failed_step"] += 1
            continue
        if clause.startswith("SpecVsGit") or clause == "Antecedent":
            spec_bugs.append((clause, j, r, detail))
            continue
        if clause != "ok":
            bad_jobs.add(j["tid"])
            if clause.startswith("ReceiverComplete") and r["info"].get("shallow_in_have_loop"):
                g = ("dulwich/client.py:_handle_upload_pack_head", "shallow-info")
            elif clause.startswith("ReceiverComplete") and r["info"].get("v2_unasked_shallow_info") and r["shal0"]:
                g = ("dulwich/client.py:_handle_upload_pack_tail", "v2-shallow-info")
            elif clause == "ReceiverComplete.closed" and j["transport"] == "porcelain-pull":
                g = ("dulwich/porcelain/__init__.py:pull", "pull-import")
            else:
                g = (SITE[(j["op"], j["transport"])], clause)
            viol.setdefault(g, []).append((j, r, detail))
        elif shape != "ok":
            g = (SITE[(j["op"], j["transport"])], shape.split("@")[0])
            drift.setdefault(g, []).append((j, r, shape, detail))
        else:
            cnt["ok"] += 1
            if r["ok"] and (r["cap"] and r["sent"] or r["r1"] != r["r0"]):
                ctx.nontrivial((case_key(j), j["op"], j["transport"], caps_key(j), r["step"], r["depth"]))
    if spec_bugs:
        clause, j, r, detail = spec_bugs[0]
        raise MachineryError(f"{len(spec_bugs)} transfers where the specification disagrees with C git or the harness built a "
                             f"case outside the property: {clause} {j['op']}/{j['transport']} {case_key(j)}{steps_key(j, r)} "
                             f"caps={caps_key(j)} detail={detail} err={r['err']} info={r['info']}")
    for (site, clause), lst in sorted(viol.items()):
        lst.sort(key=lambda x: size_key(x[0]))
        if clause == "shallow-info":
            j, r, detail = lst[0]
            what = (f"depth-limited fetch into a repository that has history loses the shallow boundary: e.g. {j['op']} over "
                    f"{j['transport']} of {case_key(j)}{steps_key(j, r)}: .git/shallow = {r['shal1']}, missing {detail}; "
                    f"{len(lst)} executions in this run")
            if ctx.violation(SHALLOW_LOOP_SIG, what, {"job": j, "record": r, "clause": "ReceiverComplete", "detail": detail}):
                cnt["violations"] += 1
            continue
        if clause == "v2-shallow-info":
            j, r, detail = lst[0]
            what = (f"a shallow repository fetching (no depth) over protocol v2 drops the pack: e.g. {j['op']} over {j['transport']} "
                    f"({caps_key(j)}) of {case_key(j)}{steps_key(j, r)}: success reported, pack not read, missing {detail}; "
                    f"{len(lst)} executions in this run")
            if ctx.violation(V2_SHALLOW_SIG, what, {"job": j, "record": r, "clause": "ReceiverComplete.wants", "detail": detail}):
                cnt["violations"] += 1
            continue
        if clause == "pull-import":
            j, r, detail = lst[0]
            what = (f"porcelain.pull of selected refs writes refs for remote branches/tags it did not fetch: e.g. pull "
                    f"{'(default refspec HEAD)' if j.get('default_refspec') else ''} via {j.get('via')} of {case_key(j)}: "
                    f"refs now reach {detail}, which are absent; {len(lst)} executions in this run")
            if ctx.violation(PULL_IMPORT_SIG, what, {"job": j, "record": r, "clause": "ReceiverComplete.closed", "detail": detail}):
                cnt["violations"] += 1
            continue
        # one report per (site, clause, capability set) for the smallest case (at most three
        # capability sets), the rest counted
        seen = set()
        for j, r, detail in lst:
            ck = (j["op"], j["transport"], caps_key(j))
            if ck in seen or len(seen) >= 3:
                continue
            seen.add(ck)
            sig = f"{site}|{clause}|{j['op']}/{j['transport']} {caps_key(j)} {case_key(j)}{steps_key(j, r)}"
            what = (f"{clause}: {j['op']} over {j['transport']} ({caps_key(j)}) of {case_key(j)}{steps_key(j, r)}: "
                    f"missing/offending objects {detail}; {len(lst)} failing executions of this kind in this run")
            if ctx.violation(sig, what, {"job": j, "record": r, "clause": clause, "detail": detail}):
                cnt["violations"] += 1
    for (site, shape), lst in sorted(drift.items()):
        lst.sort(key=lambda x: size_key(x[0]))
        j, r, sh, detail = lst[0]
        cnt["drift"] += len(lst)
        for _ in range(len(lst) - 1):
            ctx.cov["drift"] += 1
        ctx.drift_event(f"{site} {sh}: {j['op']}/{j['transport']} {caps_key(j)} {case_key(j)}{steps_key(j, r)} detail={detail} "
                        f"srv={r['srv']} cli={r['cli']} ({len(lst)} executions)")
    ctx.cov.setdefault("failed_transfers", {})
    for k, v in sorted(fails.items(), key=lambda kv: -kv[1])[:25]:
        ctx.cov["failed_transfers"][k] = ctx.cov["failed_transfers"].get(k, 0) + v
    return cnt


# --------------------------------------------------------------------------- TransferShallow: every behaviour on the real functions
def shallow_paths(graph):
    """all maximal paths of the (acyclic) state graph -> list of (scenario script, final state)"""
    out = []

    def walk(nid, acks, reads):
        st = graph.nodes[nid]
        succ = graph.edges.get(nid, [])
        if not succ:
            sc = to_py(st["sc"])
            out.append(({"v": sc["v"], "nb": sc["nb"], "nh": sc["nh"], "asked": bool(sc["asked"]), "cshal": bool(sc["cshal"]),
                         "acks": list(acks), "reads": list(reads)},
                        {"outcome": st["outcome"], "cshallow": sorted(st["cshallow"]), "packRead": int(bool(st["packRead"]))}))
            return
        for label, dst in succ:
            d = graph.nodes[dst]
            name = label.split("(")[0].strip()
            if name == "Have":
                walk(dst, acks + [len(d["s2c"]) > len(st["s2c"])], reads)
            elif name == "CRead":
                walk(dst, acks, reads + [True])
            elif name == "CNoRead":
                walk(dst, acks, reads + [False])
            else:
                walk(dst, acks, reads)
    for i in graph.init:
        walk(i, [], [])
    return out


def start_shallow(d, tex):
    futs = {}
    for variant, flag in (("code", "FALSE"), ("fixed", "TRUE")):
        cfg = os.path.join(d, f"shallow_{variant}.cfg")
        tlc.write_cfg(cfg, spec="Spec", constants={"Variants": '{"v0", "v2"}', "MaxNB": 2, "MaxNH": 2,
                                                   "ReadFirst": flag, "HandleUnasked": flag},
                      invariants=["ShallowRecorded", "PackDelivered"])
        dot = os.path.join(d, f"shallow_{variant}.dot")
        futs[variant] = (dot, tex.submit(JTOKENS.run, "TransferShallow.tla", cfg, workers=1, timeout=600, cont=True, dump_dot=dot))
    return futs


def check_shallow(ctx, futs, pex):
    """TLC explores TransferShallow for the client as it is in the snapshot and for the repaired
    client; every behaviour of both is executed on the real _handle_upload_pack_head/_tail.  The
    tree must behave exactly like one of the two models; the property clauses are evaluated on
    what the real functions returned."""
    res, paths = {}, {}
    for variant in ("code", "fixed"):
        dot, fu = futs[variant]
        r = fu.result()
        ctx.add_tlc(f"TransferShallow[{variant}]", r, require_ok=False)
        if not r.completed:
            raise MachineryError(f"TransferShallow[{variant}] did not complete\n{r.output[-2000:]}")
        res[variant] = r
        paths[variant] = shallow_paths(tlc.load_dot(dot))
    if set(res["code"].violated) != {"ShallowRecorded", "PackDelivered"}:
        raise MachineryError(f"TransferShallow: the model of the unrepaired client must violate both invariants, TLC says {res['code'].violated}")
    if res["fixed"].violated:
        raise MachineryError(f"TransferShallow: the model of the repaired client violates {res['fixed'].violated}")
    mismatch, real_of = {}, {}
    for variant in ("code", "fixed"):
        specs = [p[0] for p in paths[variant]]
        reals = []
        for chunk in pex.map(X.run_shallow_batch, [specs[i:i + 100] for i in range(0, len(specs), 100)]):
            reals.extend(chunk)
        real_of[variant] = reals
        mismatch[variant] = [(sp, model, real) for (sp, model), real in zip(paths[variant], reals) if model != real]
        ctx.count(len(specs))
        ctx.validated(len(specs))
    tree = "code" if not mismatch["code"] else "fixed" if not mismatch["fixed"] else None
    ctx.cov["shallow_client"] = {"behaviours": {k: len(v) for k, v in paths.items()}, "tree_behaves_like": tree,
                                 "mismatches": {k: len(v) for k, v in mismatch.items()}}
    if tree is None:
        best = min(("code", "fixed"), key=lambda k: len(mismatch[k]))
        sp, model, real = mismatch[best][0]
        for _ in range(len(mismatch[best]) - 1):
            ctx.cov["drift"] += 1
        ctx.drift_event(f"dulwich/client.py:_handle_upload_pack_head/_tail behaves like neither model of TransferShallow "
                        f"({len(mismatch['code'])} / {len(mismatch['fixed'])} behaviours differ); e.g. ({best}) {sp}: model {model}, real {real}")
    # the property clauses on what the real functions did, over the behaviours of the model the tree
    # follows (a script taken from the other model can ask the real code to read what is not there yet)
    lost, nopack = [], []
    for variant in ((tree,) if tree else ("code", "fixed")):
        for (sp, _model), real in zip(paths[variant], real_of[variant]):
            if real["outcome"] != "ok":
                continue
            ctx.nontrivial(("shallow-script", json.dumps(sp, sort_keys=True)))
            if not real["packRead"]:
                nopack.append((sp, real))
            elif real["cshallow"] != list(range(1, sp["nb"] + 1)):
                lost.append((sp, real))
    key = lambda x: (x[0]["nb"], x[0]["nh"], len(x[0]["reads"]))
    if lost:
        lost.sort(key=key)
        sp, real = lost[0]
        ctx.violation(SHALLOW_LOOP_SIG, f"_handle_upload_pack_head loses shallow boundary commits the server announced: scripted "
                      f"conversation {sp} -> recorded {real['cshallow']} of {sp['nb']}; {len(lost)} scripted conversations",
                      {"shallow_script": sp, "real": real})
    if nopack:
        nopack.sort(key=key)
        sp, real = nopack[0]
        ctx.violation(V2_SHALLOW_SIG, f"_handle_upload_pack_tail reports success without reading the pack: scripted conversation {sp}; "
                      f"{len(nopack)} scripted conversations", {"shallow_script": sp, "real": real})
    ctx.log(f"TransferShallow: {len(paths['code'])} + {len(paths['fixed'])} behaviours replayed on _handle_upload_pack_head/_tail; "
            f"the tree behaves like the {tree or '??'} model; {len(lost)} lose boundary commits, {len(nopack)} lose the pack")


# --------------------------------------------------------------------------- main
def run(ctx):
    d = ctx.tmpdir("c05")
    seed = ctx.seed
    spaces = ["neg3", "obj2", "pop2", "dang2"] if ctx.quick else ["neg3", "obj2", "pop2", "dang2", "neg4", "obj2w", "obj3", "tag2", "pop3"]
    # how many cases of each space are replayed: 1 / sample_mod of them (deterministic sample, see
    # TransferCases); 0 = none (the space only differs from another one in the model's pop order)
    sample_mod = ctx.pick({"neg3": 47, "obj2": 61, "pop2": 0, "dang2": 11},
                          {"neg3": 2, "obj2": 3, "pop2": 0, "dang2": 1, "neg4": 11, "obj2w": 17, "obj3": 211, "tag2": 53, "pop3": 0})
    tex = cf.ThreadPoolExecutor(max_workers=8)
    cases_f, mc_f, nc_f = {}, {}, {}
    shallow_f = start_shallow(d, tex)
    for sp in spaces:
        if sample_mod.get(sp):
            cfg = write_cfg(d, "cases_" + sp, SPACES[sp], spec="CasesSpec",
                            extra={"SampleMod": sample_mod[sp], "SampleSeed": seed % 100003})
            cases_f[sp] = tex.submit(TOKENS.run, "TransferCases.tla", cfg, workers=2, timeout=3000,
                                     dump_states=os.path.join(d, "cases_" + sp))
    for sp in spaces:
        cfg = write_cfg(d, "mc_" + sp, SPACES[sp], spec="Spec", invariants=INVARIANTS)
        mc_f[sp] = tex.submit(run_big, "Transfer.tla", cfg, workers=ctx.pick(2, 5), timeout=3400)
    for name, (consts, inv) in NEGATIVE.items():
        cfg = write_cfg(d, name, consts, spec="Spec", invariants=INVARIANTS)
        nc_f[name] = tex.submit(TOKENS.run, "Transfer.tla", cfg, workers=1, timeout=1200)

    # ---- spec -> code: enumerate, execute
    jobs = {}
    tid = 0
    per_space = {}
    for sp, fu in cases_f.items():
        res = fu.result()
        ctx.add_tlc("TransferCases[" + sp + "]", res)
        if not res.ok:
            raise MachineryError(f"TLC run TransferCases[{sp}] did not finish cleanly (rc={res.rc})\n{res.output[-2500:]}")
        n = 0
        for k, stt in enumerate(tlc.load_state_dump(os.path.join(d, "cases_" + sp))):
            c = case_from_state(stt["cs"])
            for j in jobs_for_case(ctx, c, sp, k, ctx.pick(8, 7), tid):
                tid += 4
                j["tid"] = tid
                for st in range(4):
                    jobs[tid + st] = j
            n += 1
        per_space[sp] = n
        ctx.log(f"TransferCases[{sp}]: {res.distinct} cases enumerated by TLC ({res.wall_s:.1f}s) -> {n} replayed")
    n_enum = len(jobs) // 4
    for j in extra_jobs(ctx):
        tid += 4
        j["tid"] = tid
        for st in range(4):
            jobs[tid + st] = j
    ctx.log(f"{n_enum} jobs from TLC-enumerated cases + {len(jobs) // 4 - n_enum} from larger seeded cases")

    nproc = ctx.pick(8, 10)
    order = sorted({j["tid"]: j for j in jobs.values()}.values(), key=lambda j: (h32(j["tid"]) % 997))
    batches = [order[i:i + 24] for i in range(0, len(order), 24)]
    recs = []
    t0 = time.time()
    with cf.ProcessPoolExecutor(max_workers=nproc, mp_context=mp.get_context("spawn")) as pex:
        check_shallow(ctx, shallow_f, pex)
        for out in pex.map(X.run_batch, batches):
            recs.extend(out)
    mach = [r for r in recs if "machinery" in r]
    if mach:
        raise MachineryError(f"{len(mach)} executions failed in the harness: {mach[0]['machinery'][-1500:]}")
    ctx.log(f"{len(recs)} transfers executed on the real code in {time.time() - t0:.1f}s")

    # ---- code -> spec: TLC judges every execution
    verdicts = judge(ctx, d, recs, "all", nproc=3)
    cnt = report(ctx, jobs, recs, verdicts)

    # ---- model checking results
    for sp, fu in mc_f.items():
        res = fu.result()
        ctx.add_tlc("Transfer[" + sp + "]", res)
        if not res.ok:
            raise MachineryError(f"TLC run Transfer[{sp}] did not finish cleanly (rc={res.rc}, timed_out={res.timed_out})\n{res.output[-2500:]}")
        ctx.log(f"Transfer[{sp}]: {res.distinct} distinct / {res.generated} generated states, depth {res.depth}, {res.wall_s:.1f}s")
    for name, fu in nc_f.items():
        res = fu.result()
        want = NEGATIVE[name][1]
        ctx.add_tlc("Transfer[" + name + "]", res, require_ok=False)
        if want not in res.violated:
            raise MachineryError(f"negative control {name}: TLC did not report {want} violated ({res.violated})\n{res.output[-1500:]}")
    tex.shutdown()

    # ---- evidence
    by = {}
    for r in recs:
        j = jobs[r["tid"]]
        k = f"{j['op']}/{j['transport']}"
        by[k] = by.get(k, 0) + 1
    ctx.cov["executions_by_transport"] = by
    ctx.cov["cases_replayed"] = per_space
    ctx.cov["judged"] = cnt
    ctx.cov["packs_captured"] = sum(1 for r in recs if r["cap"])
    ctx.cov["thin_packs"] = sum(1 for r in recs if r["thin"])
    ctx.cov["delta_packs"] = sum(1 for r in recs if r["info"].get("pack", {}).get("n_delta"))
    ctx.cov["git_projections"] = sum(1 for r in recs if "fsck_ok" in r["info"])
    ctx.cov["rule"] = ("non-trivial = a successful transfer that moved at least one object (or produced a non-empty pack), "
                       "counted per distinct (case, operation, transport, capability set)")
    for r in recs:
        j = jobs[r["tid"]]
        if r["ok"] and r["cap"] and len(r["sent"]) > 3:
            ctx.sample({"case": case_key(j), "op": j["op"], "transport": j["transport"], "caps": caps_key(j),
                        "sent": ["%s%d" % tuple(o) for o in r["sent"]], "verdict": verdicts[r["tid"]][:2]})
    ctx.assumptions += [
        "objects are identified by SHA-1 of their bytes (hashlib); zlib and the pack/delta encoding of the captured packs "
        "are decoded by the harness' own parser (harness/c05_lib.py), cross-checked by git on a sample",
        "commit times increase from parent to child in the TLC-enumerated cases (the have/ACK model of _want_satisfied "
        "is exact only then); the seeded random cases include skewed clocks and are judged on the property clauses and "
        "the pack content, their dialogue only when it matches",
        "C git 2.39.5 is the only third implementation; a disagreement between the specification and git on git's own "
        "behaviour is a machinery failure, never a VIOLATION",
        "receiver stores are complete (they hold everything their refs reach, modulo .git/shallow) before the transfer, as the "
        "statement assumes; apart from the dangling objects of the dang2 space (objects of the sender that no ref of the "
        "receiver reaches and whose closure it lacks) they are closed; sender stores are closed",
        "depth-limited fetches are judged by ClosureCut / DepthCut of TransferOps on real transfers (one or two steps: depth, "
        "then deepen / unshallow / ordinary fetch) and by TransferShallow for the client's handling of the shallow-info part; "
        "the object-level negotiation model (MissingObjectFinder conformance, dialogue) is not applied to shallow transfers",
        "not exercised: filters / partial clone, bundle URIs, dumb HTTP, ssh, SHA-256 repositories, pushes from shallow "
        "repositories, protocol v2 on the dulwich server (it has none; v2 is exercised with the dulwich client against C git)",
        "failed transfers (exceptions, refusals) are outside the statement ('after a successful ...'); they are counted in "
        "coverage.failed_transfers and only the receiver's NoLoss / closedness is judged for them",
    ]
    return ctx.finish(exhaustive=False)


def replay(ctx, path):
    with open(path) as f:
        obj = json.load(f)
    if "shallow_script" in obj:
        sp = obj["shallow_script"]
        real = X.run_shallow_script(sp)
        print(f"replaying a scripted upload-pack conversation on _handle_upload_pack_head/_tail:\n  {sp}\n  -> {real}")
        bad = real["outcome"] == "ok" and (not real["packRead"] or real["cshallow"] != list(range(1, sp["nb"] + 1)))
        if bad:
            print(f"VIOLATION property=C05 replay={path}")
        return int(bad)
    j = obj["job"]
    j["tid"] = 1
    j["keep"] = False
    print(f"replaying {j['op']} over {j['transport']} caps={caps_key(j)}\n  case: {case_key(j)}")
    recs = X.run_job(j)
    if "machinery" in recs[0]:
        raise MachineryError(recs[0]["machinery"])
    d = ctx.tmpdir("c05r")
    vs = judge(ctx, d, recs, "replay", nproc=1)
    fmt = lambda xs: " ".join("%s%d" % tuple(o) for o in xs)
    rc = 0
    for r in recs:
        v = vs[r["tid"]]
        dep = r["depth"]
        print(f"  --- step {r['step']}: " + ("unshallow" if dep >= 0x7FFFFFFF else f"depth {dep}" if dep else "no depth limit"))
        print(f"  reported success: {bool(r['ok'])}  {r['err']}")
        print(f"  sender store     : {fmt(r['sstore'])}\n  advertised       : {fmt(r['srefs'])}\n  wants            : {fmt(r['wants'])}")
        print(f"  receiver before  : {fmt(r['r0'])}   shallow: {fmt(r['shal0'])}")
        print(f"  receiver after   : {fmt(r['r1'])}   shallow: {fmt(r['shal1'])}   (unknown ids {r['runk']}, differing bytes {r['idbad']})")
        print(f"  receiver refs    : {fmt(r['rtips1'])}")
        if r["cap"]:
            print(f"  pack on the wire : {fmt(r['sent'])}   thin bases: {fmt(r['thin'])}  ids outside the universe: {r['sunk']}")
        if r["hk"]:
            print(f"  haves accepted   : {fmt(r['haves'])}")
        if r["srv"]:
            print(f"  server dialogue  : {r['srv']}")
        if r["cli"]:
            print(f"  client dialogue  : {r['cli']}")
        print(f"  info             : {r['info']}")
        print(f"  TLC verdict      : clause={v[0]} shape={v[1]} detail={v[2]}")
        if v[0] != "ok" and not v[0].startswith("SpecVsGit") and not (v[0] == "Antecedent" and rc):
            rc = 1
    if rc:
        print(f"VIOLATION property=C05 replay={path}")
    return rc

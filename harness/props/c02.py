"""C02 -- pack and pack-index round trip, internal consistency, interoperability with C git.

Specification: specs/PackFmt.tla (operators: limbs, the three varints, pack layout invariants, the
writer's per-record rule, IdxLayout, ReadBack) and the modules that extend it:

  PackFmtVarint   the varint lemmas on 0..Small and the boundary set; every state is a replay case
  PackFmtIdx      index layout v1/v2/v3 on synthetic entry tables (offsets around 2^31 / 2^32)
  PackFmtWriter   the writer as a state machine (record generation incl. deltify window and delta reuse,
                  PackChunkGenerator's full | OFS | REF rule, index from dict or from scan); invariants =
                  the layout clauses; every completed behaviour is printed as a CASE
  PackFmtMidx     multi-pack-index layout (OOFF/LOFF two-level offsets, chunk table) on synthetic tables over two packs
  PackFmtMidxStore  histories pack / repack under the same name / write or drop the multi-pack-index; a fresh
                  DiskObjectStore reads every object back at every state (the pack's own index is authoritative)
  PackFmtGit      scenario space for packs written by C git
  PackFmtTrace    judge of recorded executions (one verdict per trace)

Binding
  R (spec -> code)  every state of PackFmtVarint / PackFmtIdx and every emitted behaviour of PackFmtWriter
                    is executed on the real code (children, Rust extension rebuilt from the working tree
                    and pure Python) and compared with what the specification computed.
  T (code -> spec)  every pack/idx the real code writes (TLC cases, random larger object sets, git-written
                    packs) is projected by an independent parser (harness/c02_lib.py) to the event list
                    and judged by TLC with the operators of PackFmt; the implementation's read-backs
                    (random access under several cache limits, iteration, entry listings) are part of the
                    trace and are judged by ReadBack.
  C git             index-pack --strict (byte-identical index v1/v2), verify-pack -v, cat-file --batch on
                    dulwich's packs; pack-objects --depth/--window/--delta-base-offset/--thin packs read by
                    dulwich.  On git-written packs the specification is validated first (a layout clause
                    failing there is a machinery failure, not a violation).
"""
from __future__ import annotations

import concurrent.futures as cf
import json
import os
import shutil
import subprocess
import threading
import time

from .. import c02_lib as L
from .. import c03_data
from .. import rustext, tlc
from ..core import REPO, VERIF, MachineryError, git_available

PY = "/venv/bin/python"
CHILD = os.path.join(VERIF, "harness", "c02_child.py")
PROCS = 8
API_SITE = {
    1: "dulwich/pack.py:write_pack", 2: "dulwich/pack.py:write_pack_objects", 3: "dulwich/pack.py:write_pack_data",
    4: "dulwich/object_store.py:PackBasedObjectStore.add_objects", 5: "dulwich/object_store.py:PackBasedObjectStore.repack",
    6: "dulwich/pack.py:write_pack_from_container", 7: "dulwich/pack.py:PackChunkGenerator._pack_data_chunks",
    8: "dulwich/object_store.py:DiskObjectStore.add_thin_pack", 9: "dulwich/object_store.py:DiskObjectStore.add_pack",
    10: "dulwich/object_store.py:PackBasedObjectStore.add_pack_data",
}
READ_SITE = {
    "getitem": "dulwich/pack.py:Pack.__getitem__", "getitem-rev-cache1": "dulwich/pack.py:Pack.__getitem__",
    "get_raw-shuffled-cache300": "dulwich/pack.py:Pack.get_raw", "get_raw-shuffled-cache70000": "dulwich/pack.py:Pack.get_raw",
    "get_raw-shuffled-cache3000": "dulwich/pack.py:Pack.get_raw",
    "iterobjects": "dulwich/pack.py:Pack.iterobjects", "iterobjects_subset": "dulwich/pack.py:Pack.iterobjects_subset",
    "PackInflater": "dulwich/pack.py:PackInflater", "check": "dulwich/pack.py:Pack.check",
    "contains": "dulwich/pack.py:Pack.__contains__", "Pack.sorted_entries": "dulwich/pack.py:PackData.sorted_entries",
    "index.iterentries": "dulwich/pack.py:FilePackIndex.iterentries",
    "index.object_offset": "dulwich/pack.py:FilePackIndex.object_offset",
    "add_thin_pack+getitem": "dulwich/object_store.py:DiskObjectStore.add_thin_pack",
    "create_index_v2": "dulwich/pack.py:PackData.create_index_v2", "create_index": "dulwich/pack.py:PackData.create_index",
}
LAYOUT_ORDER = ["Unparseable", "Offsets", "Count", "PackTrailer", "Header", "OfsLands", "RefResolves", "Chain", "IterCovers",
                "EntryContent", "ObjectSet", "Fanout", "NamesSorted", "OffsetTables", "IdxLength", "IdxV3Header",
                "IdxTrailer", "IdxPackChecksum", "IdxCount", "IdxNames", "IdxOffsets", "IdxCrc", "IdxNamesDistinct"]
GIT_ORDER = ["GitIndexPack", "GitIdxIdentical", "GitVerifyPack", "GitVerifyPackListing", "GitCatFile", "GitObjectSet"]
TYPE_NAME = {1: "commit", 2: "tree", 3: "blob", 4: "tag"}


# =========================================================================== children
class Pool:
    def __init__(self, ctx):
        self.ctx = ctx
        self.ex = cf.ThreadPoolExecutor(max_workers=PROCS)
        self.n = 0
        self.lock = threading.Lock()

    def submit(self, mode, kind, **kw):
        with self.lock:
            self.n += 1
            d = os.path.join(self.ctx.scratch, f"job{self.n}-{mode}-{kind}")
        os.makedirs(d)
        job = dict(kw, mode=mode, kind=kind, out=os.path.join(d, "out.json"), dir=d, progress=os.path.join(d, "progress"))
        return self.ex.submit(self._run, job)

    def _run(self, job):
        jf = os.path.join(job["dir"], "job.json")
        with open(jf, "w") as f:
            json.dump(job, f)
        env = dict(os.environ, RUST_BACKTRACE="0", PYTHONDONTWRITEBYTECODE="1", PYTHONWARNINGS="ignore")
        with open(os.path.join(job["dir"], "stderr"), "wb") as err:
            p = subprocess.run([PY, CHILD, jf], stdout=subprocess.DEVNULL, stderr=err, env=env)
        if not os.path.exists(job["out"]):
            with open(os.path.join(job["dir"], "stderr"), "rb") as f:
                tail = f.read()[-1500:].decode("utf-8", "replace")
            raise MachineryError(f"C02 worker {job['kind']}/{job['mode']} died rc={p.returncode}: {tail}")
        with open(job["out"]) as f:
            res = json.load(f)
        if not job.get("keepdir"):
            shutil.rmtree(job["dir"], ignore_errors=True)
        return res

    def close(self):
        self.ex.shutdown(wait=True)


# =========================================================================== TLC helpers
def cfg_with(ctx, static, **subst):
    """copy a static cfg into the scratch directory with some constants replaced."""
    src = os.path.join(tlc.SPECS, static)
    with open(src) as f:
        lines = f.read().splitlines()
    out = []
    for ln in lines:
        s = ln.strip()
        for k, v in subst.items():
            if s.startswith(k + " =") or s.startswith(k + " <-"):
                ln = f"  {k} = {v}"
        out.append(ln)
    dst = os.path.join(ctx.scratch, f"{os.getpid()}-{static}")
    with open(dst, "w") as f:
        f.write("\n".join(out) + "\n")
    return dst


class Slots:
    """TLC worker slots: never more than `total` TLC workers at a time."""

    def __init__(self, total):
        self.sem = threading.Semaphore(total)

    def run(self, n, fn):
        for _ in range(n):
            self.sem.acquire()
        try:
            return fn()
        finally:
            for _ in range(n):
                self.sem.release()


def parse_cases(output):
    """CASE lines of PackFmtWriter -> {case key: dict(objs, have, row, beh=[(src, tgt)], hdrs, cnt, ixok)}"""
    cases = {}
    for v in tlc.extract_printed(output, "CASE"):
        _tag, objs, have, row, src, es, hdrs, cnt, ixok = v
        key = (tuple(objs), tuple(sorted(have)), tuple(row))
        c = cases.setdefault(key, {"objs": list(objs), "have": sorted(have), "row": list(row), "beh": [], "cnts": [], "ixok": ixok})
        b = ([list(x) for x in src], [list(x) for x in es], [list(h) for h in hdrs])
        if b not in c["beh"]:
            c["beh"].append(b)
        if cnt not in c["cnts"]:
            c["cnts"].append(cnt)
    return cases


# =========================================================================== signatures
def canon(case):
    api, deltify, window, reuse, thin, ofs, level, idxv, oid = case["row"]
    objs = case["objs"]
    u = None
    types = set()
    for i in objs + case.get("have", []):
        if i in (case.get("custom") or {}) or str(i) in (case.get("custom") or {}):
            types.add("blob")
        else:
            u = u or L.universe(20)
            types.add(TYPE_NAME[u[i][0]])
    dup = len(set(objs)) != len(objs)
    head = ("sha1" if oid == 20 else "sha256") + (" dup" if dup else "")
    return (f"{head} types={'+'.join(sorted(types)) or 'none'} api={api} deltify={deltify} window={window} reuse={reuse} "
            f"thin={thin} level={level} idx=v{idxv} n={len(objs)}")


def first_of(order, clauses):
    for c in order:
        if c in clauses:
            return c
    return sorted(clauses)[0]


# =========================================================================== writer cases
def heavy_for_py(case):
    api, deltify = case["row"][0], case["row"][1]
    if not (deltify or api in (6, 7, 8, 9)):
        return False
    big = 0
    for i in case["objs"] + case.get("have", []):
        cust = (case.get("custom") or {}).get(str(i))
        if cust is not None:
            big += 1 if cust[2] >= 30000 else 0
        elif i in (6, 7, 8, 9, 10, 16):
            big += 1
    return big >= 2


def random_cases(ctx, n, start_cid, maxobjs):
    """larger object sets than TLC enumerates: random sizes / families / rows (all compression levels)."""
    rng = ctx.rng
    out = []
    for k in range(n):
        nobj = rng.randint(1, maxobjs)
        custom, objs = {}, []
        api = rng.choice([1, 2, 3, 3, 4, 5, 6, 6])
        deltify = rng.randint(0, 1) if api not in (4, 5) else 0
        # Both delta encoders of dulwich are quadratic (byte-level Myers diff in Rust, difflib in Python): an unrelated
        # 2 KiB object next to a 256 KiB one costs minutes.  Where deltas are searched (deltify, or the container pack of
        # write_pack_from_container) a case is therefore either "prefixes": any size, every blob a prefix of one stream,
        # or "small": sizes up to 2000 bytes, several streams, edits in the middle.
        searching = bool(deltify) or api == 6
        prefixes = searching and rng.random() < 0.5
        nfam = 1 if prefixes else rng.randint(1, 3)
        fams = [(rng.randint(1, 10 ** 6), rng.choice(["rand", "text"])) for _ in range(nfam)]
        for j in range(nobj):
            if rng.random() < 0.2:
                objs.append(rng.choice([1, 2, 3, 11, 12, 13, 14, 15]))
                continue
            seed, kind = fams[rng.randrange(nfam)]
            size = int(2 ** rng.uniform(0, 18.1)) if rng.random() < 0.8 else rng.choice([0, 15, 16, 2047, 2048, 65535, 65536, 65537])
            if searching and not prefixes:
                size = size % 2001
            recipe = [[kind, seed, size]]
            if rng.random() < 0.5 and size > 8 and not prefixes:
                cut = rng.randrange(size)
                recipe = [["slice", recipe, 0, cut], ["hex", "%08x" % rng.getrandbits(32)], ["slice", recipe, cut, size]]
                size += 4
            cid = 100 + j
            custom[str(cid)] = [3, recipe, size]
            objs.append(cid)
        # no object twice (neither by id nor by content): duplicates are the business of the TLC cases
        u20 = L.universe(20)
        seen, uniq = set(), []
        for o in objs:
            data = L.blob(custom[str(o)][1]) if str(o) in custom else u20[o][1]
            t = 3 if str(o) in custom else u20[o][0]
            key = (t, data)
            if key not in seen:
                seen.add(key)
                uniq.append(o)
        objs = uniq
        custom = {k2: v for k2, v in custom.items() if int(k2) in objs}
        window = rng.choice([0, 1, 10]) if deltify else 10
        reuse = rng.randint(0, 1) if api == 6 else 0
        row = [api, deltify, window, reuse, 0, rng.randint(0, 1) if api == 3 else 1, rng.randint(-1, 9),
               2 if api == 1 else rng.choice([1, 2, 3]), 20]
        out.append({"cid": start_cid + k, "objs": objs, "have": [], "row": row,
                    "custom": {k2: v[:2] + [v[2]] for k2, v in custom.items()}, "origin": "random", "cat": k % 3 == 0})
    return out


def split_jobs(cases, k):
    return [cases[i::k] for i in range(k) if cases[i::k]]


# =========================================================================== verdict processing
class Judge:
    def __init__(self, ctx):
        self.ctx = ctx
        self.stats = {"writer_cases": 0, "refusals": 0, "model_compared": 0, "traces": 0, "git_traces": 0, "skipped": 0,
                      "ofs_bytes": set(), "hdr_bytes": set(), "kinds": set(), "maxdepth": 0, "idx_identical": 0, "cat_file": 0,
                      "by_api": {}, "by_mode": {"py": 0, "rs": 0}}
        self.groups = {}

    def report(self, site, clause, case, mode, what, extra):
        sig = f"{site}|{clause}|{canon(case)}"
        group = f"{site}|{clause}|{canon(case).split(' types=')[0]}"
        n = self.groups.get(group, 0)
        self.groups[group] = n + 1
        obj = {"case": {k: case[k] for k in ("objs", "have", "row", "custom") if k in case}, "mode": mode,
               "clause": clause, "site": site}
        obj.update(extra or {})
        if n >= 3 and not self._known(sig):
            # same site, clause and hash/dup class already reported three times: count only
            self.ctx.cov.setdefault("further_failing_cases", {})
            self.ctx.cov["further_failing_cases"][group] = self.ctx.cov["further_failing_cases"].get(group, 0) + 1
            return
        self.ctx.violation(sig, what, obj)

    def capped(self, group, canon_, what, obj):
        """ctx.violation, but at most three unlisted signatures per (site, clause): one root cause fails on many states."""
        sig = f"{group}|{canon_}"
        n = self.groups.get(group, 0)
        if n >= 3 and not self._known(sig):
            self.ctx.cov.setdefault("further_failing_cases", {})
            self.ctx.cov["further_failing_cases"][group] = self.ctx.cov["further_failing_cases"].get(group, 0) + 1
            return
        self.groups[group] = n + 1
        self.ctx.violation(sig, what, obj)

    def _known(self, sig):
        import fnmatch
        return any(k.get("status", "open") == "open" and (sig == k.get("signature") or fnmatch.fnmatchcase(sig, k.get("signature", "")))
                   for k in self.ctx.known)

    # ---- one writer case: python-side clauses + TLC verdict + model comparison
    def writer(self, case, mode, res, verdict):
        ctx, st = self.ctx, self.stats
        api = case["row"][0]
        st["writer_cases"] += 1
        st["by_api"][api] = st["by_api"].get(api, 0) + 1
        st["by_mode"][mode] += 1
        ctx.count(1)
        exp = case.get("exp")
        raised = res.get("raised")
        prop, shape = [], []
        if verdict is not None:
            prop, shape = list(verdict[2]), list(verdict[3])
            st["maxdepth"] = max(st["maxdepth"], verdict[5])
            st["traces"] += 1
            ctx.validated(1)
        if raised is not None:
            refuse_expected = exp is not None and exp["ixok"] == 0
            if refuse_expected or self.legit_refusal(case, raised):
                st["refusals"] += 1
                return
            self.report(API_SITE[api], "WriteRaises", case, mode,
                        f"writing raises {raised['cls']}: {raised['msg']}", {"raised": raised, "tb": res.get("tb")})
            return
        if exp is not None and exp["ixok"] == 0 and res.get("trace") is not None:
            # the specification says this index cannot be represented (v1 / v3 with SHA-256): whatever was written
            # is judged by the layout clauses below
            pass
        py = dict(res.get("py") or {})
        lay = [c for c in prop if not c.startswith("Read:") and not c.startswith("Entries:")]
        if "Unparseable" in py:
            lay.append("Unparseable")
        gitc = [c for c in py if c.startswith("Git")]
        reads = [c for c in prop if c.startswith("Read:") or c.startswith("Entries:")] + [c for c in py if c.startswith("Check:")]
        excs = res.get("excs") or {}
        if lay or gitc:
            clause = first_of(LAYOUT_ORDER, lay) if lay else first_of(GIT_ORDER, gitc)
            detail = py.get(clause, "")
            self.report(API_SITE[api], clause, case, mode,
                        f"{API_SITE[api].split(':')[1]} writes a pack/index that fails {sorted(set(lay + gitc))}"
                        + (f" ({detail.strip()[:120]})" if detail else "")
                        + (f"; readers: {sorted(reads)[:4]}" if reads else ""),
                        {"failed": sorted(set(lay + gitc + reads)), "py": py, "excs": excs})
        else:
            for c in reads:
                name = c.split(":", 1)[1]
                e = excs.get(name)
                self.report(READ_SITE.get(name, "dulwich/pack.py:Pack"), c, case, mode,
                            f"read-back through {name} differs from what was written"
                            + (f" ({e['cls']}: {e['msg'][:100]})" if e else ""), {"failed": sorted(reads), "excs": excs})
        for c in shape:
            ctx.drift_event(f"{c}: bytes are not what PackChunkGenerator's rule produces; case {canon(case)} objs={case['objs']}")
        if res.get("seq") is not None:
            facts = res.get("facts") or {}
            st["ofs_bytes"].update(facts.get("ofs_bytes", []))
            st["hdr_bytes"].update(facts.get("hdr_bytes", []))
            st["kinds"].update(facts.get("kinds", []))
            st["idx_identical"] += 1 if facts.get("idx_identical") else 0
            st["cat_file"] += 1 if "cat_file" in facts else 0
            if res["seq"]:
                ctx.nontrivial((tuple(case["objs"]), tuple(case.get("have", [])), tuple(case["row"]), json.dumps(case.get("custom"), sort_keys=True)))
        if exp is not None and res.get("seq") is not None and not lay:
            self.compare_model(case, res, exp)

    @staticmethod
    def legit_refusal(case, raised):
        """refusals that are not violations: an index version that cannot hold the request."""
        api, deltify, window, reuse, thin, ofs, level, idxv, oid = case["row"]
        if oid == 32 and idxv in (1, 3) and raised["cls"] in ("TypeError", "NotImplementedError", "AssertionError", "ValueError"):
            return True
        return False

    def compare_model(self, case, res, exp):
        ctx, st = self.ctx, self.stats
        api = case["row"][0]
        st["model_compared"] += 1
        real_tgt = res["seq"]
        real_src = res.get("src_seq") or []
        ok = False
        for (src, tgt, hdrs) in exp["beh"]:
            if api in (6, 8, 9) and src != real_src:
                continue
            if api == 5:
                if sorted(tgt) == sorted(real_tgt):
                    ok = True
                    break
                continue
            if tgt == real_tgt:
                if hdrs != res["hdrs"]:
                    ctx.drift_event(f"header bytes differ from ObjHeader for case objs={case['objs']} row={case['row']}")
                ok = True
                break
        if not ok:
            ctx.drift_event(f"writer decisions {real_tgt} (source {real_src}) are no behaviour of PackFmtWriter for objs={case['objs']} "
                            f"have={case.get('have')} row={case['row']}: allowed {[b[1] for b in exp['beh']][:3]}")
        if res.get("count") not in exp["cnts"]:
            ctx.drift_event(f"count field {res.get('count')} differs from the model's {exp['cnts']} for objs={case['objs']} row={case['row']}")

    # ---- packs written by C git
    def gitpack(self, sc, mode, res, verdict, state):
        ctx, st = self.ctx, self.stats
        ctx.count(1)
        st["git_traces"] += 1
        st["by_mode"][mode] += 1
        if verdict is None:
            raise MachineryError(f"no verdict for git scenario {sc}")
        prop, _shape, spec, depth = list(verdict[2]), list(verdict[3]), list(verdict[4]), verdict[5]
        ctx.validated(1)
        st["maxdepth"] = max(st["maxdepth"], depth)
        facts = res.get("facts") or {}
        st["kinds"].update(facts.get("kinds", []))
        # the specification against C git, before anything is held against dulwich
        if spec:
            raise MachineryError(f"specification disagrees with a pack C git wrote: {spec} scenario {sc}")
        kinds = set(facts.get("kinds", []))
        if state["nodelta"] and kinds - {"full"}:
            raise MachineryError(f"PackFmtGit expects no deltas for {sc}, git wrote {kinds}")
        if "ref" in kinds and not state["refok"]:
            raise MachineryError(f"PackFmtGit expects no REF_DELTA for {sc}")
        if facts.get("ext", 0) and not state["extok"]:
            raise MachineryError(f"PackFmtGit expects no outside bases for {sc}")
        ctx.nontrivial(("git",) + tuple(sorted(sc.items())))
        excs = res.get("excs") or {}
        case = {"objs": [], "have": [], "row": [0, 0, sc["window"], 0, int(sc["thin"]), int(sc["ofs"]), -1, 2, sc["oid"]]}
        for c in prop:
            name = c.split(":", 1)[1]
            e = excs.get(name)
            sig = (f"{READ_SITE.get(name, 'dulwich/pack.py:Pack')}|{c}|git pack {'sha1' if sc['oid'] == 20 else 'sha256'} depth={sc['depth']} "
                   f"window={sc['window']} ofs={int(sc['ofs'])} thin={int(sc['thin'])} nver={sc['nver']} size={sc['size']} edit={sc['edit']} chain={depth}")
            ctx.violation(sig, f"dulwich reads a pack written by git pack-objects differently from git cat-file through {name}"
                          + (f" ({e['cls']}: {e['msg'][:100]})" if e else ""),
                          {"scenario": sc, "mode": mode, "clause": c, "excs": excs})


# =========================================================================== trace validation
def validate_traces(ctx, slots, traces, name):
    """traces: list of dicts with 'tid'.  -> {tid: verdict tuple}"""
    if not traces:
        return {}
    chunk = 400
    parts = [traces[i:i + chunk] for i in range(0, len(traces), chunk)]
    verdicts = {}
    lock = threading.Lock()

    def one(k, part):
        path = os.path.join(ctx.scratch, f"traces-{name}-{k}.ndjson")
        with open(path, "w") as f:
            for t in part:
                f.write(json.dumps(t) + "\n")
        r = slots.run(1, lambda: tlc.run("PackFmtTrace.tla", "PackFmtTrace.cfg", workers=1, timeout=1500, env={"TRACE_FILE": path}))
        with lock:
            ctx.add_tlc(f"PackFmtTrace[{name}:{k}]", r)
            got = tlc.extract_printed(r.output, "VERDICT")
            if len(got) != len(part):
                raise MachineryError(f"PackFmtTrace returned {len(got)} verdicts for {len(part)} traces\n{r.output[-1500:]}")
            for v in got:
                verdicts[v[1]] = v
        os.remove(path)
    with cf.ThreadPoolExecutor(max_workers=6) as ex:
        for f in [ex.submit(one, k, p) for k, p in enumerate(parts)]:
            f.result()
    return verdicts


# =========================================================================== run
def run(ctx):
    if not git_available():
        raise MachineryError("C02 needs git on PATH (third party of the property)")
    rustext.build()
    quick = ctx.quick
    t_start = time.time()
    pool = Pool(ctx)
    slots = Slots(8)
    judge = Judge(ctx)
    tex = cf.ThreadPoolExecutor(max_workers=12)
    ctx.cov["rule"] = ("cases = (a) every state of PackFmtVarint and PackFmtIdx, (b) behaviours of PackFmtWriter printed by TLC for the "
                       "cases whose hash is EmitRes mod EmitMod (all cases are model checked; the emitted share is replayed), "
                       "(c) random larger object sets, (d) scenarios of PackFmtGit written by C git; a writer case is non-trivial "
                       "if the pack it wrote has at least one entry; distinct by (objects, outside bases, option row)")

    # ---------------------------------------------------------------- TLC: model checking and case generation
    def tlc_job(name, spec, cfg, workers, **kw):
        return tex.submit(lambda: (name, slots.run(workers, lambda: tlc.run(spec, cfg, workers=workers, timeout=3000, **kw))))

    seed = ctx.seed
    vdump = os.path.join(ctx.scratch, "varint")
    idump = os.path.join(ctx.scratch, "idx")
    gdump = os.path.join(ctx.scratch, "gitsc")
    wplan = ([("q", "PackFmtWriter_q.cfg", 9), ("q3", "PackFmtWriter_q3.cfg", 9), ("dup", "PackFmtWriter_dup.cfg", 4)] if quick else
             [("t3", "PackFmtWriter_t3.cfg", 5), ("t4", "PackFmtWriter_t4.cfg", 6), ("rows", "PackFmtWriter_rows.cfg", 12),
              ("q", "PackFmtWriter_q.cfg", 2), ("dup", "PackFmtWriter_dup.cfg", 1)])
    futs = {}
    for nm, static, mod in wplan:
        cfg = cfg_with(ctx, static, EmitMod=mod, EmitRes=seed % mod)
        futs["writer-" + nm] = tlc_job("PackFmtWriter[" + static[14:-4] + "]", "PackFmtWriter.tla", cfg, 3 if quick else 4)
    futs["varint"] = tlc_job("PackFmtVarint", "PackFmtVarint.tla", ctx.pick("PackFmtVarint_q.cfg", "PackFmtVarint_t.cfg"), 2, dump_states=vdump)
    iplan = [("idx", "PackFmtIdx_q.cfg", idump)] + ([] if quick else [("idx3", "PackFmtIdx_t.cfg", idump + "3")])
    for key, cfg, dump in iplan:
        futs[key] = tlc_job(f"PackFmtIdx[{cfg[11:-4]}]", "PackFmtIdx.tla", cfg, 2, dump_states=dump)
    mdump = os.path.join(ctx.scratch, "midx")
    sdump = os.path.join(ctx.scratch, "midxstore")
    futs["midx"] = tlc_job("PackFmtMidx", "PackFmtMidx.tla", ctx.pick("PackFmtMidx_q.cfg", "PackFmtMidx_t.cfg"), 2, dump_states=mdump)
    futs["midxstore"] = tlc_job("PackFmtMidxStore", "PackFmtMidxStore.tla", ctx.pick("PackFmtMidxStore_q.cfg", "PackFmtMidxStore_t.cfg"), 1,
                                dump_states=sdump)
    futs["git"] = tlc_job("PackFmtGit", "PackFmtGit.tla", ctx.pick("PackFmtGit_q.cfg", "PackFmtGit_t.cfg"), 1, dump_states=gdump)
    negs = [("PackFmtVarint.tla", "PackFmtVarint_neg_plain.cfg", ["Lemma"]), ("PackFmtIdx.tla", "PackFmtIdx_neg_msb.cfg", ["Lemma"]),
            ("PackFmtMidx.tla", "PackFmtMidx_neg_loff32.cfg", ["Lemma"]), ("PackFmtMidxStore.tla", "PackFmtMidxStore_neg_trust.cfg", ["ReadInv"]),
            ("PackFmtWriter.tla", "PackFmtWriter_neg_dup.cfg", ["IdxInv"]), ("PackFmtWriter.tla", "PackFmtWriter_neg_dupscan.cfg", ["GitInv"]),
            ("PackFmtWriter.tla", "PackFmtWriter_neg_ofs.cfg", ["PackInv"]), ("PackFmtWriter.tla", "PackFmtWriter_fix_dup.cfg", [])]
    dupmod = [m for (n_, s_, m) in wplan if n_ == "dup"][0]
    for spec, cfg, want in negs:
        path = cfg_with(ctx, cfg, EmitMod=dupmod, EmitRes=seed % dupmod) if cfg == "PackFmtWriter_fix_dup.cfg" else cfg
        futs["neg-" + cfg] = tlc_job(cfg[:-4], spec, path, 1)

    # ---------------------------------------------------------------- real code, part 1: what needs no TLC output
    deadline = time.time() + ctx.pick(55, 12 * 60)
    rnd = random_cases(ctx, ctx.pick(80, 1200), 500000, ctx.pick(8, 24))
    rnd7 = [{"cid": 490000 + k, "objs": o, "have": [], "row": [7, d, 10, 0, 0, 1, -1, 2, 20], "origin": "copy"}
            for k, (o, d) in enumerate([([5, 4], 1), ([2, 3], 0), ([12, 11, 13], 1)])]
    child_futs = []
    mode_of = {}

    def submit_writer(cases, tag, deadline):
        for c in cases:
            if "mode" not in c:
                c["mode"] = "rs" if (heavy_for_py(c) or (c["cid"] % 3 != 0)) else "py"
            mode_of[c["cid"]] = c
        for mode in ("rs", "py"):
            mine = [c for c in cases if c["mode"] == mode]
            k = max(1, min(PROCS if mode == "rs" else 4, len(mine) // 8 or 1))
            for part in split_jobs(mine, k):
                child_futs.append(("writer", mode, pool.submit(mode, "writer", cases=part, seed=seed, deadline=deadline)))
    # git scenarios (PackFmtGit is a two second run: dispatched before the long TLC runs are collected)
    name, r = futs.pop("git").result()
    ctx.add_tlc(name, r)
    gstates = list(tlc.load_state_dump(gdump + ".dump"))
    ctx.rng.shuffle(gstates)
    gpick = gstates[:ctx.pick(40, 600)]
    # always include the deepest chains
    deep = [g for g in gstates if g["depth"] == 50 and g["nver"] >= 60 and g["window"] == 10 and not g["thin"]][:ctx.pick(4, 24)]
    gpick = deep + [g for g in gpick if g not in deep]
    scen, scen_state = [], {}
    for k, g in enumerate(gpick):
        sc = {"cid": 700000 + k, "oid": g["oid"], "nver": g["nver"], "nfiles": g["nfiles"], "size": g["size"], "depth": g["depth"],
              "window": g["window"], "ofs": bool(g["ofs"]), "thin": bool(g["thin"]), "edit": str(g["edit"])}
        sc["mode"] = "rs" if k % 2 == 0 else "py"
        scen.append(sc)
        scen_state[sc["cid"]] = (sc, g)
    for mode in ("rs", "py"):
        mine = [s for s in scen if s["mode"] == mode]
        for part in split_jobs(mine, ctx.pick(2, 3)):
            child_futs.append(("gitpack", mode, pool.submit(mode, "gitpack", scenarios=part, seed=seed, deadline=time.time() + ctx.pick(60, 12 * 60))))
    submit_writer(rnd7 + rnd, "random", deadline)

    # ---------------------------------------------------------------- collect TLC results
    results = {}
    for key, f in futs.items():
        name, r = f.result()
        results[key] = r
        if key.startswith("neg-"):
            want = [w for (s, c, w) in negs if "neg-" + c == key][0]
            ctx.add_tlc(name, r, require_ok=False)
            if want and set(r.violated) != set(want):
                raise MachineryError(f"negative control {name}: expected {want} violated, TLC says {r.violated} ok={r.ok}\n{r.output[-1200:]}")
            if not want and not r.ok:
                raise MachineryError(f"{name} (repaired writer) must satisfy every invariant: {r.violated}\n{r.output[-1200:]}")
        else:
            ctx.add_tlc(name, r)
    ctx.log(f"TLC model checking done: {ctx.cov['states']} states")

    # varint states -> children (all of them, split between the two builds)
    vstates = []
    for st in c03_data.read_dump(vdump + ".dump"):
        vstates.append([st["t"], L.unlimb(st["x"]), list(st["hdr"]), list(st["ofs"]), list(st["leb"])])
    always = [15, 16, 2047, 2048, 65535, 65536, 65537]
    vparts = split_jobs(vstates, 4)
    vfuts = [("rs" if k % 2 == 0 else "py", pool.submit("rs" if k % 2 == 0 else "py", "varint", states=p, always=always))
             for k, p in enumerate(vparts)]
    # idx states
    istates = [st for (_k, _c, dump) in iplan for st in load_idx_states(dump + ".dump")]
    for k, s in enumerate(istates):
        s["git"] = (k % ctx.pick(8, 16) == 0)
    ifuts = [("rs" if k % 2 == 0 else "py", pool.submit("rs" if k % 2 == 0 else "py", "idx", states=p))
             for k, p in enumerate(split_jobs(istates, 4))]
    # multi-pack-index: layout states and store histories
    mstates = list(load_midx_states(mdump + ".dump"))
    mfuts = [("rs" if k % 2 == 0 else "py", pool.submit("rs" if k % 2 == 0 else "py", "midx", states=p, np=2))
             for k, p in enumerate(split_jobs(mstates, 4))]
    sstates = [{"hist": [[str(op), int(a)] for (op, a) in st["hist"]], "layout": st["layout"], "midx": st["midx"]}
               for st in tlc.load_state_dump(sdump + ".dump")]
    sfuts = [("rs" if k % 2 == 0 else "py", pool.submit("rs" if k % 2 == 0 else "py", "midxstore", states=p))
             for k, p in enumerate(split_jobs(sstates, 4))]
    # writer cases
    wcases = []
    cid = 1
    for nm, static, mod in wplan:
        cs = parse_cases(results["writer-" + nm].output)
        if nm == "dup":
            # an object handed in twice: the writer as it is (written twice) and the repaired writer (written once)
            # are both behaviours of the specification (DedupInput); the layout clauses decide which one is acceptable
            for key, c2 in parse_cases(results["neg-PackFmtWriter_fix_dup.cfg"].output).items():
                if key in cs:
                    cs[key]["beh"] += [b for b in c2["beh"] if b not in cs[key]["beh"]]
                    cs[key]["cnts"] += [n for n in c2["cnts"] if n not in cs[key]["cnts"]]
        for key in sorted(cs):
            c = cs[key]
            wcases.append({"cid": cid, "objs": c["objs"], "have": c["have"], "row": c["row"], "origin": nm,
                           "exp": {"beh": c["beh"], "cnts": c["cnts"], "ixok": c["ixok"]}, "cat": cid % 4 == 0})
            cid += 1
    ctx.rng.shuffle(wcases)
    if not quick:
        # thorough: the cases that are cheap in pure Python run in both builds
        extra = []
        for c in wcases:
            if not heavy_for_py(c) and c["cid"] % 4 == 0:
                e = dict(c, cid=c["cid"] + 1000000, mode="py")
                extra.append(e)
        for c in wcases:
            c["mode"] = "rs" if (heavy_for_py(c) or c["cid"] % 4 != 1) else "py"
        wcases += extra
    ctx.log(f"{len(wcases)} writer cases emitted by TLC, {len(rnd)} random, {len(scen)} git scenarios, "
            f"{len(vstates)} varint states, {len(istates)} idx states")
    send = [{k: v for k, v in c.items() if k != "exp"} for c in wcases]
    deadline = max(deadline, time.time() + ctx.pick(35, 9 * 60))
    submit_writer(send, "tlc", deadline)
    exp_of = {c["cid"]: c["exp"] for c in wcases}

    # ---------------------------------------------------------------- collect children
    n_v = 0
    for vmode, f in vfuts:
        r = f.result()
        n_v += r["n"]
        ctx.count(r["n"])
        ctx.validated(r["n"])
        for b in r["bad"]:
            what = f"{b['fn']} disagrees with PackFmt on type={b.get('t')} value={b['x']}: {b.get('got', b.get('exc'))} (expected {b.get('want')})"
            judge.capped(f"dulwich/pack.py:{b['fn']}|Varint", f"t={b.get('t')} x={b['x']}", what, {"varint": b, "mode": vmode})
    n_i = 0
    for imode, f in ifuts:
        r = f.result()
        n_i += r["n"]
        ctx.count(r["n"])
        ctx.validated(r["n"] - r["refused"])
        for b in r["bad"]:
            fn = f"write_pack_index_v{b['v']}" if not b["clause"].startswith("Read:") else f"PackIndex{b['v']}"
            big = sorted({("<2^31" if o < 2 ** 31 else "<2^32" if o < 2 ** 32 else ">=2^32") for o in b["offs"]})
            judge.capped(f"dulwich/pack.py:{fn}|{b['clause']}",
                         f"oid={b['oid']} n={len(b['offs'])} offsets={'+'.join(big) or 'none'} first={b['firsts']}",
                         f"{fn} on a synthetic table: {b['clause']} {b.get('exc', '')}", {"idx_state": b, "mode": imode})
    n_m = 0
    for mmode, f in mfuts:
        r = f.result()
        n_m += r["n"]
        ctx.count(r["n"])
        ctx.validated(r["n"])
        for b in r["bad"]:
            fn = "write_midx" if not (b["clause"].startswith("Read:") or b["clause"].startswith("Entries:")) else "MultiPackIndex"
            big = sorted({("<2^31" if o < 2 ** 31 else "<2^32" if o < 2 ** 32 else ">=2^32") for o in b["offs"]})
            judge.capped(f"dulwich/midx.py:{fn}|{b['clause']}",
                         f"oid={b['oid']} n={len(b['offs'])} offsets={'+'.join(big) or 'none'} packs={sorted(set(b['pids']))}",
                         f"{fn} on a synthetic table: {b['clause']} {b.get('exc', '')}", {"midx_state": b, "mode": mmode})
        if r["n"]:
            ctx.nontrivial(("midx", mmode))
    n_s = 0
    for smode, f in sfuts:
        r = f.result()
        for x in r["results"]:
            if "worker_error" in x:
                raise MachineryError(f"C02 multi-pack-index history {x['hist']} could not be replayed: {x['worker_error']}")
            n_s += 1
            ctx.count(1)
            ctx.validated(1)
            if x["midx_on_disk"] != (x["midx"] != 0):
                ctx.drift_event(f"multi-pack-index on disk: {x['midx_on_disk']}, PackFmtMidxStore says midx={x['midx']} after {x['hist']}")
            if x["layout"]:
                ctx.nontrivial(("midxstore", json.dumps(x["hist"])))
            state = "none" if x["midx"] == 0 else "fresh" if x["midx"] == x["layout"] else "stale"
            for reader, why in sorted(x["failed"].items()):
                # ReadInv of PackFmtMidxStore: every object is read back exactly at every state with a pack
                site = {"get_raw": "DiskObjectStore.get_raw", "get_raw-hex": "DiskObjectStore.get_raw", "getitem": "BaseObjectStore.__getitem__",
                        "contains": "DiskObjectStore.contains_packed", "contains_packed": "DiskObjectStore.contains_packed",
                        "iter": "PackBasedObjectStore.__iter__", "iterobjects_subset": "PackBasedObjectStore.iterobjects_subset"}[reader]
                judge.capped(f"dulwich/object_store.py:{site}|Read:{reader}",
                             f"multi-pack-index {state} ops={'+'.join(op for op, _a in x['hist'])}",
                             f"a fresh DiskObjectStore does not read back what the pack holds through {reader} with a {state} "
                             f"multi-pack-index after {x['hist']}: {why}", {"midx_history": x, "mode": smode})
    ctx.log(f"varint, idx and midx states replayed: {n_v} + {n_i} + {n_m}; {n_s} store histories")
    results_w, traces, gtraces = {}, [], []
    skipped = 0
    tdone = {}
    for kind, mode, f in child_futs:
        out = f.result()
        tdone[kind] = round(ctx.elapsed(), 1)
        for r in out:
            if r.get("skipped"):
                skipped += 1
                continue
            if "worker_error" in r:
                raise MachineryError(f"C02 worker failed on case {r['cid']}: {r['worker_error']}")
            results_w[r["cid"]] = (kind, mode, r)
            if r.get("trace") is not None:
                (traces if kind == "writer" else gtraces).append(r["trace"])
    judge.stats["skipped"] = skipped
    slow = sorted(((r.get("ms") or [0, 0])[1], cidk) for cidk, (kind, mode, r) in results_w.items() if kind == "writer")[-3:]
    ctx.cov["slowest_writer_cases_ms"] = [{"ms": results_w[c][2].get("ms"), "build": results_w[c][1], "objs": mode_of[c]["objs"], "row": mode_of[c]["row"]}
                                          for (_ms, c) in reversed(slow)]
    ctx.log(f"real code done {tdone}: {len(results_w)} executions, {skipped} skipped (time budget); validating {len(traces) + len(gtraces)} traces with TLC")
    verdicts = validate_traces(ctx, slots, traces, "dw")
    verdicts.update(validate_traces(ctx, slots, gtraces, "git"))
    for cidk in sorted(results_w):
        kind, mode, r = results_w[cidk]
        if kind == "writer":
            judge.writer(dict(mode_of[cidk], exp=exp_of.get(cidk)), mode, r, verdicts.get(cidk))
        else:
            sc, g = scen_state[cidk]
            judge.gitpack({k: v for k, v in sc.items() if k not in ("cid", "mode")}, mode, r, verdicts.get(cidk), g)

    # ---------------------------------------------------------------- evidence
    st = judge.stats
    for c in (wcases[:2] + rnd[:1]):
        ctx.sample({"objs": c["objs"], "have": c["have"], "row": c["row"], "custom": c.get("custom"),
                    "model_behaviours": (c.get("exp") or {}).get("beh", [])[:2]})
    if scen:
        ctx.sample({"git_scenario": {k: v for k, v in scen[0].items()}})
    ctx.sample({"varint_state": vstates[len(vstates) // 2]})
    ctx.cov.update({
        "writer_cases": st["writer_cases"], "writer_cases_compared_with_model": st["model_compared"], "refusals": st["refusals"],
        "git_packs_read": st["git_traces"], "varint_states_replayed": n_v, "idx_states_replayed": n_i, "midx_states_replayed": n_m,
        "midx_store_histories_replayed": n_s,
        "skipped_for_time": st["skipped"], "ofs_varint_lengths_seen": sorted(st["ofs_bytes"]),
        "size_varint_lengths_seen": sorted(st["hdr_bytes"]), "entry_kinds_seen": sorted(st["kinds"]),
        "max_delta_chain_depth": st["maxdepth"], "idx_byte_identical_with_git": st["idx_identical"],
        "cat_file_compared": st["cat_file"], "by_api": {str(k): v for k, v in sorted(st["by_api"].items())},
        "by_build": st["by_mode"],
    })
    ctx.assumptions += [
        "zlib, CRC-32, SHA-1/SHA-256 are computed by the projection (Python stdlib) and enter the specification as observed values",
        "the independent parser (harness/c02_lib.py) and C git 2.39.5 are trusted as projections / third opinion",
        "compressed lengths are abstract in PackFmtWriter (stored-block model); real offsets are validated on the traces",
        "LRU offset-cache aliasing is exercised by read-back under cache limits 1/300/70000 bytes, not modelled",
        "index v3 and SHA-256 have no C git counterpart in 2.39.5 for v3; SHA-256 is compared with git for v2 only",
    ]
    if st["skipped"]:
        ctx.assumptions.append(f"{st['skipped']} emitted cases were not executed for lack of time in this run")
    pool.close()
    tex.shutdown(wait=False)
    return ctx.finish(exhaustive=False)


def load_midx_states(path):
    for st in tlc.load_state_dump(path):
        yield {"firsts": list(st["firsts"]), "offs": [L.unlimb(o) for o in st["offs"]], "pids": list(st["pids"]), "oid": st["oid"],
               "o32": [x for w in st["o32"] for x in w], "o64": [L.unlimb(o) for o in st["o64"]], "nchunks": st["nchunks"], "len": st["len"]}


def load_idx_states(path):
    for st in tlc.load_state_dump(path):
        yield {"firsts": list(st["firsts"]), "offs": [L.unlimb(o) for o in st["offs"]], "v": st["v"], "oid": st["oid"],
               "refuse": bool(st["refuse"]), "o32": [x for w in st["o32"] for x in w], "o64": [L.unlimb(o) for o in st["o64"]],
               "len": st["len"], "fansteps": list(st["fansteps"])}


# =========================================================================== replay
def replay(ctx, path):
    with open(path) as f:
        obj = json.load(f)
    print(f"replay of {path}\n  signature: {obj.get('signature')}\n  what: {obj.get('what')}")
    rustext.build()
    pool = Pool(ctx)
    slots = Slots(4)
    mode = obj.get("mode", "rs")
    rc = 0
    if "case" in obj:
        case = dict(obj["case"], cid=1, cat=True)
        out = pool.submit(mode, "writer", cases=[case], seed=obj.get("seed", 0)).result()
        r = out[0]
        if "worker_error" in r:
            raise MachineryError(r["worker_error"])
        print(f"  case: objs={case['objs']} have={case.get('have')} row(api,deltify,window,reuse,thin,ofs,level,idxv,oid)={case['row']} build={mode}")
        print(f"  writer raised: {r.get('raised')}")
        print(f"  entries written (id, kind 0 full/1 ofs/2 ref, base): {r.get('seq')}")
        print(f"  python-side clauses failed: {r.get('py')}")
        print(f"  reader exceptions: { {k: (v['cls'], v['msg'][:80]) for k, v in (r.get('excs') or {}).items()} }")
        v = None
        if r.get("trace") is not None:
            v = validate_traces(ctx, slots, [r["trace"]], "replay").get(1)
            print(f"  TLC verdict (PackFmtTrace): property clauses failed={list(v[2])} shape={list(v[3])} max chain depth={v[5]}")
        bad = bool(r.get("py")) or (v is not None and bool(v[2])) or (r.get("raised") is not None and not Judge.legit_refusal(case, r["raised"]))
        rc = 1 if bad else 0
    elif "scenario" in obj:
        sc = dict(obj["scenario"], cid=1)
        out = pool.submit(mode, "gitpack", scenarios=[sc], seed=obj.get("seed", 0)).result()
        r = out[0]
        if "worker_error" in r:
            raise MachineryError(r["worker_error"])
        v = validate_traces(ctx, slots, [r["trace"]], "replay").get(1)
        print(f"  scenario: {sc} build={mode}\n  facts: {r.get('facts')}")
        print(f"  reader exceptions: { {k: (v2['cls'], v2['msg'][:80]) for k, v2 in (r.get('excs') or {}).items()} }")
        print(f"  TLC verdict: read clauses failed={list(v[2])} specification-vs-git={list(v[4])} max chain depth={v[5]}")
        rc = 1 if v[2] else 0
    elif "varint" in obj:
        b = obj["varint"]
        r = pool.submit(mode, "varint", states=[b["state"]], always=[b["state"][1]]).result()
        print(f"  varint state (type, value, ObjHeader, OfsEncode, Leb as computed by PackFmt): {b['state']}")
        for x in r["bad"]:
            print(f"  {x['fn']}: got {x.get('got', x.get('exc'))} expected {x.get('want', '(the value)')}")
        rc = 1 if r["nbad"] else 0
    elif "midx_state" in obj:
        b = obj["midx_state"]
        r = pool.submit(mode, "midx", states=[b["state"]], np=2).result()
        print(f"  synthetic multi-pack-index table: first bytes {b['firsts']} offsets {b['offs']} pack ids {b['pids']} hash length {b['oid']}")
        print(f"  expected by PackFmtMidx: chunks={b['state']['nchunks']} OOFF(msb,low)={b['state']['o32']} LOFF={b['state']['o64']} length={b['state']['len']}")
        for x in r["bad"]:
            print(f"  failed clause: {x['clause']} {x.get('exc', '')}")
        rc = 1 if r["nbad"] else 0
    elif "midx_history" in obj:
        h = obj["midx_history"]
        r = pool.submit(mode, "midxstore", states=[{"hist": h["hist"], "layout": h["layout"], "midx": h["midx"]}]).result()
        x = r["results"][0]
        if "worker_error" in x:
            raise MachineryError(x["worker_error"])
        print(f"  history (PackFmtMidxStore): {h['hist']}  layout on disk={h['layout']} multi-pack-index written from layout={h['midx']}")
        for reader, why in sorted(x["failed"].items()):
            print(f"  fresh reader {reader}: {why}")
        rc = 1 if x["failed"] else 0
    elif "idx_state" in obj:
        b = obj["idx_state"]
        r = pool.submit(mode, "idx", states=[dict(b["state"], git=True)]).result()
        print(f"  synthetic index table: first bytes {b['firsts']} offsets {b['offs']} version {b['v']} hash length {b['oid']}")
        print(f"  expected by PackFmt: refuse={b['state']['refuse']} o32(msb,low)={b['state']['o32']} o64={b['state']['o64']} length={b['state']['len']}")
        for x in r["bad"]:
            print(f"  failed clause: {x['clause']} {x.get('exc', '')}")
        rc = 1 if r["nbad"] else 0
    pool.close()
    print(f"replay verdict: {'VIOLATION reproduced' if rc else 'no violation on the current tree'}")
    shutil.rmtree(ctx.scratch, ignore_errors=True)
    return rc

"""Interposition of os.* / open / os.fdopen + deterministic greenlet scheduler.

Actors are greenlets running real dulwich calls.  Every interposed call made by an actor
on a path under the scenario root (or on a file object / fd obtained from such a call) is
  1. a scheduling point (the actor switches to the scheduler *before* the call),
  2. a fault point (an injected exception may replace the call),
  3. an event: logged after the call returned, before any other actor can run.

Nothing in /repo is modified: the functions are replaced on the `os`, `builtins` and `io`
modules of the harness process while an `Interposer` is installed (env DULWICH_VERIF=1
is what the harness runs under; with the variable unset nothing here is imported).
"""
from __future__ import annotations

import builtins
import errno
import gc
import io
import os
import sys
import warnings

import greenlet

_real = {}
_PATCH_OS = ["open", "replace", "rename", "remove", "unlink", "fsync", "fdopen", "chmod", "mkdir",
             "rmdir", "stat", "lstat", "listdir", "utime", "close", "write", "scandir", "link",
             "symlink", "readlink", "truncate", "ftruncate", "fstat", "fdatasync"]


def _cur_actor():
    g = greenlet.getcurrent()
    return getattr(g, "actor_id", None)


class Fault:
    """Raise `exc` instead of performing the k-th (0-based) fault-eligible interposed call of `actor`."""

    def __init__(self, actor, k, exc, only_ops=None):
        self.actor, self.k, self.exc, self.only_ops = actor, k, exc, only_ops
        self.fired_at = None


class FileProxy:
    """Wraps a file object returned by os.fdopen/open for a path under the root.

    write/flush/close/truncate are events (scheduling + fault points)."""

    def __init__(self, world, f, path, fd, mode):
        object.__setattr__(self, "_w", world)
        object.__setattr__(self, "_f", f)
        object.__setattr__(self, "_path", path)
        object.__setattr__(self, "_fd", fd)
        object.__setattr__(self, "_mode", mode)

    def __getattr__(self, name):
        return getattr(self._f, name)

    def __setattr__(self, name, value):
        setattr(self._f, name, value)

    def __iter__(self):
        return iter(self._f)

    def __enter__(self):
        return self

    def __exit__(self, *a):
        self.close()

    def fileno(self):
        return self._f.fileno()

    def write(self, data):
        n = len(data)
        return self._w.call("fwrite", self._path, lambda: self._f.write(data), extra={"n": n, "fd": self._fd})

    def writelines(self, lines):
        for l in lines:
            self.write(l)

    def flush(self):
        if "r" in self._mode and "+" not in self._mode:
            return self._f.flush()
        return self._w.call("fflush", self._path, self._f.flush, extra={"fd": self._fd})

    def close(self):
        if self._f.closed:
            return None
        if "r" in self._mode and "+" not in self._mode:
            self._w.fds.pop(self._fd, None)
            return self._f.close()

        def do():
            try:
                return self._f.close()
            finally:
                if self._f.closed:
                    self._w.fds.pop(self._fd, None)
        return self._w.call("fclose", self._path, do, extra={"fd": self._fd})

    def truncate(self, *a):
        return self._w.call("ftruncate", self._path, lambda: self._f.truncate(*a), extra={"fd": self._fd})

    def read(self, *a):
        return self._f.read(*a)

    def readline(self, *a):
        return self._f.readline(*a)

    def readlines(self, *a):
        return self._f.readlines(*a)

    def seek(self, *a):
        return self._f.seek(*a)

    def tell(self):
        return self._f.tell()

    @property
    def closed(self):
        return self._f.closed

    def __del__(self):
        # leave closing to the wrapped object (its own finalizer); never a scheduling point
        pass


class World:
    """One scenario execution: root directory, event log, optional scheduler and fault."""

    def __init__(self, root, *, observe=None, yield_ops=None, fault=None, fault_ops=None, wrap_files=True,
                 yield_pred=None):
        self.root = os.path.realpath(root)
        self.rootb = os.fsencode(self.root)
        self.events = []
        self.seq = 0
        self.sched = None
        self.observe = observe          # callable(world, event) -> adds projected state to the event
        self.fault = fault
        self.fault_ops = fault_ops      # set of ops eligible for faults (None = all mutating ops)
        self.ncalls = {}                # actor -> count of fault-eligible calls
        self.fds = {}                   # fd -> path
        self.yield_ops = yield_ops      # set of ops that are scheduling points (None = all)
        self.wrap_files = wrap_files
        self.yield_pred = yield_pred    # callable(op, path) -> bool: further restricts scheduling points
        self.fault_pred = None          # callable(op, path) -> bool: further restricts fault points
        self.in_call = False

    # -- path helpers
    def rel(self, p):
        try:
            if isinstance(p, int):
                return self.fds.get(p)
            p = os.fspath(p)
            if isinstance(p, bytes):
                p = os.fsdecode(p)
            if not os.path.isabs(p):
                p = os.path.join(os.getcwd(), p)
            p = os.path.normpath(p)
            if p == self.root:
                return "."
            if p.startswith(self.root + os.sep):
                return p[len(self.root) + 1:]
        except Exception:
            return None
        return None

    MUTATING = {"open_excl", "open_w", "fwrite", "fflush", "fsync", "fclose", "replace", "rename", "unlink",
                "chmod", "mkdir", "rmdir", "utime", "write", "close", "link", "symlink", "ftruncate", "truncate"}

    def call(self, op, path, fn, extra=None, path2=None):
        a = _cur_actor()
        if a is None or self.in_call:
            return fn()
        if self.sched is not None and (self.yield_ops is None or op in self.yield_ops) \
                and (self.yield_pred is None or self.yield_pred(op, path)):
            self.sched.yield_point(a, (op, path))
        ev = {"a": a, "op": op, "p": path}
        if path2 is not None:
            ev["p2"] = path2
        if extra:
            ev.update(extra)
        k = self.ncalls.get(a, 0)
        eligible = (op in self.MUTATING) if self.fault_ops is None else (op in self.fault_ops)
        if eligible and self.fault_pred is not None and not self.fault_pred(op, path):
            eligible = False
        if eligible:
            self.ncalls[a] = k + 1
            ev["k"] = k            # index a Fault(actor, k, ...) refers to
        flt = self.fault
        try:
            if flt is not None and eligible:
                for fl in (flt if isinstance(flt, (list, tuple)) else (flt,)):
                    if fl.actor == a and fl.k == k and fl.fired_at is None:
                        fl.fired_at = dict(ev)
                        ev["fault"] = type(fl.exc).__name__ if not isinstance(fl.exc, type) else fl.exc.__name__
                        raise fl.exc
            self.in_call = True
            try:
                r = fn()
            finally:
                self.in_call = False
            ev["ok"] = True
            return r
        except BaseException as e:
            ev["ok"] = False
            ev["err"] = errno.errorcode.get(e.errno, str(e.errno)) if isinstance(e, OSError) and e.errno else type(e).__name__
            raise
        finally:
            self.seq += 1
            ev["seq"] = self.seq
            if self.observe is not None:
                self.in_call = True
                try:
                    self.observe(self, ev)
                finally:
                    self.in_call = False
            self.events.append(ev)

    def note(self, op, **kw):
        """API-level event (call/ret) logged by the actor wrapper."""
        a = _cur_actor()
        self.seq += 1
        ev = {"a": a, "op": op, "seq": self.seq}
        ev.update(kw)
        if self.observe is not None:
            self.in_call = True
            try:
                self.observe(self, ev)
            finally:
                self.in_call = False
        self.events.append(ev)


_world: World | None = None


def _mk_os_wrappers():
    r = _real

    def w_open(path, flags, mode=0o777, *, dir_fd=None):
        w = _world
        rp = w.rel(path) if (w and dir_fd is None) else None
        if rp is None or _cur_actor() is None:
            return r["open"](path, flags, mode, dir_fd=dir_fd)
        acc = flags & (os.O_WRONLY | os.O_RDWR)
        if flags & os.O_EXCL and flags & os.O_CREAT:
            op = "open_excl"
        elif acc or flags & os.O_CREAT:
            op = "open_w"
        else:
            op = "open_r"

        def do():
            fd = r["open"](path, flags, mode)
            w.fds[fd] = rp
            return fd
        return w.call(op, rp, do, extra={"excl": bool(flags & os.O_EXCL), "creat": bool(flags & os.O_CREAT),
                                         "trunc": bool(flags & os.O_TRUNC)})

    def two_path(name, opname):
        def f(src, dst, **kw):
            w = _world
            a, b = (w.rel(src), w.rel(dst)) if w else (None, None)
            if (a is None and b is None) or _cur_actor() is None or kw:
                return r[name](src, dst, **kw)
            return w.call(opname, a, lambda: r[name](src, dst), path2=b)
        return f

    def one_path(name, opname, allow_fd=False):
        def f(path, *args, **kw):
            w = _world
            rp = w.rel(path) if w and (allow_fd or not isinstance(path, int)) else None
            if rp is None or _cur_actor() is None or "dir_fd" in kw:
                return r[name](path, *args, **kw)
            return w.call(opname, rp, lambda: r[name](path, *args, **kw))
        return f

    def w_fdopen(fd, mode="r", *args, **kw):
        w = _world
        f = r["fdopen"](fd, mode, *args, **kw)
        if w is None or _cur_actor() is None or fd not in w.fds or not w.wrap_files:
            return f
        return FileProxy(w, f, w.fds[fd], fd, mode)

    def w_close(fd):
        w = _world
        if w is None or _cur_actor() is None or fd not in w.fds:
            return r["close"](fd)
        p = w.fds[fd]

        def do():
            try:
                return r["close"](fd)
            finally:
                w.fds.pop(fd, None)
        return w.call("close", p, do, extra={"fd": fd})

    def w_write(fd, data):
        w = _world
        if w is None or _cur_actor() is None or fd not in w.fds:
            return r["write"](fd, data)
        return w.call("write", w.fds[fd], lambda: r["write"](fd, data), extra={"fd": fd, "n": len(data)})

    def w_fsync(fd):
        w = _world
        if hasattr(fd, "fileno"):
            fd = fd.fileno()
        if w is None or _cur_actor() is None or fd not in w.fds:
            return r["fsync"](fd)
        return w.call("fsync", w.fds[fd], lambda: r["fsync"](fd), extra={"fd": fd})

    def w_stat(path, *args, **kw):
        w = _world
        rp = w.rel(path) if w and not isinstance(path, int) else None
        if rp is None or _cur_actor() is None or kw.get("dir_fd") is not None:
            return r["stat"](path, *args, **kw)
        return w.call("stat", rp, lambda: r["stat"](path, *args, **kw))

    def w_lstat(path, *args, **kw):
        w = _world
        rp = w.rel(path) if w else None
        if rp is None or _cur_actor() is None or kw.get("dir_fd") is not None:
            return r["lstat"](path, *args, **kw)
        return w.call("lstat", rp, lambda: r["lstat"](path, *args, **kw))

    def w_scandir(path="."):
        w = _world
        rp = w.rel(path) if w and not isinstance(path, int) else None
        if rp is None or _cur_actor() is None:
            return r["scandir"](path)
        return w.call("listdir", rp, lambda: r["scandir"](path))

    return {
        "open": w_open, "replace": two_path("replace", "replace"), "rename": two_path("rename", "rename"),
        "link": two_path("link", "link"), "symlink": two_path("symlink", "symlink"),
        "remove": one_path("remove", "unlink"), "unlink": one_path("unlink", "unlink"),
        "chmod": one_path("chmod", "chmod"), "mkdir": one_path("mkdir", "mkdir"),
        "rmdir": one_path("rmdir", "rmdir"), "listdir": one_path("listdir", "listdir"),
        "utime": one_path("utime", "utime"), "readlink": one_path("readlink", "readlink"),
        "truncate": one_path("truncate", "truncate"),
        "fdopen": w_fdopen, "close": w_close, "write": w_write, "fsync": w_fsync, "fdatasync": w_fsync,
        "stat": w_stat, "lstat": w_lstat, "scandir": w_scandir,
    }


def _w_builtin_open(file, mode="r", *args, **kw):
    w = _world
    rp = w.rel(file) if w and not isinstance(file, int) else None
    if rp is None or _cur_actor() is None:
        return _real["builtins.open"](file, mode, *args, **kw)
    writing = any(c in mode for c in "wax+")
    op = "open_w" if writing else "open_r"

    def do():
        return _real["builtins.open"](file, mode, *args, **kw)
    f = w.call(op, rp, do, extra={"excl": "x" in mode, "creat": writing, "trunc": "w" in mode})
    if writing and w.wrap_files:
        try:
            fd = f.fileno()
        except Exception:
            fd = -1
        w.fds[fd] = rp
        return FileProxy(w, f, rp, fd, mode)
    return f


class Interposer:
    def __init__(self, world: World):
        self.world = world

    def __enter__(self):
        global _world
        if _world is not None:
            raise RuntimeError("nested Interposer")
        if not _real:
            for n in _PATCH_OS:
                if hasattr(os, n):
                    _real[n] = getattr(os, n)
            _real["builtins.open"] = builtins.open
            _real["io.open"] = io.open
        _world = self.world
        for n, f in _mk_os_wrappers().items():
            if n in _real:
                setattr(os, n, f)
        builtins.open = _w_builtin_open
        io.open = _w_builtin_open
        return self.world

    def __exit__(self, *a):
        global _world
        for n in _PATCH_OS:
            if n in _real:
                setattr(os, n, _real[n])
        builtins.open = _real["builtins.open"]
        io.open = _real["io.open"]
        _world = None


# ---------------------------------------------------------------------------
# scheduler

class ActorResult:
    def __init__(self):
        self.value = None
        self.exc = None        # exception class name
        self.exc_msg = None
        self.done = False


class Scheduler:
    """Runs actors (callables) as greenlets; `choices` is a prefix of actor ids to run at each
    scheduling decision; after the prefix the policy is non-preemptive (keep running the
    current actor while enabled, else the lowest enabled id)."""

    def __init__(self, world: World, actors: dict, prefix=(), rng=None, p_switch=0.0, collect="exc", max_switch=None):
        self.world = world
        world.sched = self
        self.actors = actors
        self.prefix = list(prefix)
        self.trace = []        # (enabled tuple, chosen, current)
        self.results = {a: ActorResult() for a in actors}
        self.glets = {}
        self.main = greenlet.getcurrent()
        self.pending = {}
        self.rng = rng
        self.p_switch = p_switch
        self.collect = collect
        self.max_switch = max_switch    # random mode: at most this many preemptions
        self.chooser = None             # optional callable(sched, enabled, cur) -> actor id or None (scripted scenarios)
        self.nswitch = 0

    def yield_point(self, actor, desc):
        self.pending[actor] = desc
        self.main.switch()

    def _wrap(self, aid, fn):
        def body():
            res = self.results[aid]
            try:
                with warnings.catch_warnings():
                    warnings.simplefilter("ignore")
                    res.value = fn()
                self.world.note("ret", exc=None, value=_short(res.value))
            except BaseException as e:   # includes injected KeyboardInterrupt
                if isinstance(e, greenlet.GreenletExit):
                    raise
                res.exc = type(e).__name__
                res.exc_msg = str(e)[:200]
                # the operation's return is observed while the exception (and with it every
                # frame and handle of the failed operation) is still alive: what a caller's
                # `except` block would see, before any finaliser has run
                self.world.note("ret", exc=res.exc, value=None)
                e.__traceback__ = None
                del e
            finally:
                # run finalizers (e.g. _GitFile.__del__) inside the owning actor.  Reference counting
                # finalises everything that is not in a cycle as soon as the frame dies; the full
                # collection is only needed when an exception (traceback cycles) was involved.
                if self.collect == "always" or (self.collect == "exc" and res.exc):
                    with warnings.catch_warnings():
                        warnings.simplefilter("ignore")
                        gc.collect()
                res.done = True
        return body

    def run(self, max_steps=20000):
        for aid, fn in self.actors.items():
            g = greenlet.greenlet(self._wrap(aid, fn), parent=self.main)
            g.actor_id = aid
            self.glets[aid] = g
        # run every actor up to its first scheduling point (touches no shared state), so that
        # one scheduling decision == exactly one interposed call
        for aid, g in self.glets.items():
            g.switch()
        cur = None
        step = 0
        while True:
            enabled = tuple(a for a, g in self.glets.items() if not g.dead)
            if not enabled:
                break
            pick = self.chooser(self, enabled, cur) if self.chooser is not None else None
            if pick is not None and pick in enabled:
                ch = pick
            elif step < len(self.prefix):
                ch = self.prefix[step]
                if ch not in enabled:
                    ch = cur if cur in enabled else enabled[0]
            elif self.rng is not None and len(enabled) > 1 and self.rng.random() < self.p_switch \
                    and (self.max_switch is None or self.nswitch < self.max_switch or cur not in enabled):
                ch = self.rng.choice(enabled)
                if cur in enabled and ch != cur:
                    self.nswitch += 1
            else:
                ch = cur if cur in enabled else enabled[0]
            self.trace.append((enabled, ch, cur))
            cur = ch
            step += 1
            if step > max_steps:
                for g in self.glets.values():
                    if not g.dead:
                        g.throw(greenlet.GreenletExit)
                raise RuntimeError("scheduler step limit")
            self.glets[ch].switch()
        self.world.sched = None
        return self.results

    def choices(self):
        return [c for (_, c, _) in self.trace]


def _short(v):
    if v is None or isinstance(v, (bool, int)):
        return v
    if isinstance(v, bytes):
        return v[:64].decode("latin-1")
    if isinstance(v, str):
        return v[:64]
    return repr(v)[:80]


def preemptions(trace_or_choices, trace=None):
    n = 0
    for (enabled, ch, cur) in trace_or_choices:
        if cur is not None and cur in enabled and ch != cur:
            n += 1
    return n


def sample(run_rand, n):
    """n random schedules: run_rand(i) -> Scheduler run with rng/p_switch/max_switch set by the caller."""
    for i in range(n):
        yield run_rand(i)


def explore(run_once, max_preempt=2, limit=None, rng=None):
    """Stateless DFS over schedules with a preemption bound.

    run_once(prefix) -> Scheduler (after run) ; yields each executed Scheduler once.
    Enumerates every schedule with <= max_preempt preemptions exactly once (if not cut by limit)."""
    stack = [[]]
    n = 0
    while stack:
        prefix = stack.pop()
        s = run_once(prefix)
        n += 1
        yield s
        if limit is not None and n >= limit:
            return
        tr = s.trace
        base_choices = [c for (_, c, _) in tr]
        # preemptions accumulated before each step
        pre = [0]
        for (enabled, ch, cur) in tr:
            pre.append(pre[-1] + (1 if (cur is not None and cur in enabled and ch != cur) else 0))
        new = []
        for i in range(len(prefix), len(tr)):
            enabled, ch, cur = tr[i]
            for alt in enabled:
                if alt == ch:
                    continue
                p = pre[i] + (1 if (cur is not None and cur in enabled and alt != cur) else 0)
                if p <= max_preempt:
                    new.append(base_choices[:i] + [alt])
        if rng is not None:
            rng.shuffle(new)
        stack.extend(reversed(new))

"""C14: real histories -> ndjson -> TLC (specs/AccelTrace.tla) -> verdicts."""
from __future__ import annotations

import json
import os

from . import tlc
from .core import MachineryError

KERR, OTHER = [0], [-1]


def _set_or(v):
    """an answer (list of groups | 'KeyError' | 'exc:..' | list with '?..') as a list of ints"""
    if v == "KeyError":
        return KERR
    if isinstance(v, str):
        return [-2]
    if any(not isinstance(x, int) for x in v):
        return OTHER
    return list(v)


def _groups(objs):
    """['1b','1c','1t','2c'] -> per-group kinds"""
    if objs == "KeyError":
        return None
    if isinstance(objs, str):
        return "exc"
    d = {}
    for o in objs:
        if o.startswith("?"):
            return "exc"
        d.setdefault(int(o[:-1]), set()).add(o[-1])
    return d


def _whole(objs):
    g = _groups(objs)
    if g is None:
        return KERR
    if g == "exc":
        return [-2]
    if any(k != {"c", "t", "b"} for k in g.values()):
        return OTHER
    return sorted(g)


def _split(t):
    return [int(x) for x in t.split(",") if x]


def obs_record(a, n, refs=("a", "b")):
    """Battery answers -> the obs record of AccelTrace."""
    o = {"has": [], "par": [], "walk": [], "depth": [], "anc": [], "mb": [], "rc": [], "ro": [], "miss": []}
    for i in range(1, n + 1):
        hs = [a["has"][f"{i}{k}"] for k in "ctb"]
        gs = [a["get"][f"{i}{k}"] for k in "ctb"]
        o["has"].append(1 if hs == [True] * 3 and gs == ["ok"] * 3 else 0 if hs == [False] * 3 and gs == ["KeyError"] * 3 else -1)
        o["par"].append(_set_or(a["par"][str(i)]))
        o["walk"].append(_set_or(a["walk"][str(i)]))
        d = a["depth"][str(i)]
        o["depth"].append(d if isinstance(d, int) else -1)
    for k, v in a["anc"].items():
        o["anc"].append({"H": _split(k), "r": _set_or(v)})
    for k, v in a["mb"].items():
        i, j = _split(k)
        o["mb"].append({"i": i, "j": j, "r": _set_or(v)})
    for k, v in a["rc"].items():
        h, x = k.split("|")
        o["rc"].append({"H": _split(h), "X": _split(x), "r": _set_or(v)})
    for k, v in a["ro"].items():
        h, x = k.split("|")
        g = _groups(v)
        e = {"H": _split(h), "X": _split(x), "full": [], "cb": [], "c": [], "other": False}
        if g is None:
            e["full"] = KERR
        elif g == "exc":
            e["other"] = True
        else:
            for i, ks in sorted(g.items()):
                if ks == {"c", "t", "b"}:
                    e["full"].append(i)
                elif ks == {"c", "b"}:
                    e["cb"].append(i)
                elif ks == {"c"}:
                    e["c"].append(i)
                else:
                    e["other"] = True
        o["ro"].append(e)
    for k, v in a["miss"].items():
        h, x = k.split("|")
        o["miss"].append({"H": _split(h), "X": _split(x), "r": _whole(v)})
    o["cut"], o["miss_s"] = [], []
    for k, v in a.get("cut", {}).items():
        w, x, s = k.split("|")
        o["cut"].append({"W": _split(w), "X": _split(x), "S": _split(s), "r": _set_or(v)})
    for k, v in a.get("miss_s", {}).items():
        w, x, s = k.split("|")
        o["miss_s"].append({"W": _split(w), "X": _split(x), "S": _split(s), "r": _whole(v)})
    o["ref"] = {r: (a["ref"][r] if isinstance(a["ref"][r], int) else 0 if a["ref"][r] == "KeyError" else -1) for r in refs}
    rd = a["refs"] if isinstance(a["refs"], dict) else {}
    o["refs"] = {r: rd.get("refs/heads/" + r, 0) if isinstance(rd.get("refs/heads/" + r, 0), int) else -1 for r in refs}
    o["all"] = _whole(a["all"])
    return o


def st_record(real, N):
    par = [sorted(real["par"].get(i, real["par"].get(str(i), []))) for i in range(1, real["n"] + 1)]
    return {"n": real["n"], "par": par, "loose": real["loose"], "packs": real["packs"],
            "lref": real["lref"], "pref": real["pref"], "graft": real["graft"], "shal": real["shal"], "cg": real["cg"], "midx": real["midx"],
            "bmp": [{"at": b["at"], "for": b["for"]} for b in real["bmp"]]}


def act_record(act, args):
    out = [{"k": "val", "v": act}]
    for x in args:
        if isinstance(x, list) and len(x) == 2 and isinstance(x[1], str) and isinstance(x[0], list):
            out.append({"k": "pack", "v": x})
        elif isinstance(x, list):
            out.append({"k": "set", "v": x})
        else:
            out.append({"k": "val", "v": x})
    return out


def validate(ctx, traces, label, N=6):
    """traces: list of dicts {tid, free, steps:[{act, st, obs}], meta}.  Returns verdicts tid -> tuple."""
    if not traces:
        return {}
    d = ctx.tmpdir("tr")
    verdicts = {}
    B = 3000
    for i in range(0, len(traces), B):
        chunk = traces[i:i + B]
        path = os.path.join(d, f"t{i}.ndjson")
        with open(path, "w") as f:
            for t in chunk:
                f.write(json.dumps({"tid": t["tid"], "free": t["free"], "steps": t["steps"]}, separators=(",", ":")) + "\n")
        res = tlc.run("AccelTrace.tla", "AccelTrace.cfg", workers=1, timeout=1800, env={"TRACE_FILE": path})
        ctx.add_tlc(f"AccelTrace[{label}:{i}]", res, require_ok=False)
        got = {}
        for v in tlc.extract_printed(res.output, "VERDICT"):
            # several branches per history (see AccelTrace!Consume): keep the one that conformed longest
            cur = got.get(v[1])
            rank = (v[4] == 0, v[4], v[2] == "ok")
            if cur is None or rank > (cur[4] == 0, cur[4], cur[2] == "ok"):
                got[v[1]] = v
        if not res.completed or len(got) != len(chunk):
            raise MachineryError(f"trace validation incomplete ({len(got)}/{len(chunk)} verdicts)\n{res.output[-3000:]}")
        verdicts.update(got)
    return verdicts
